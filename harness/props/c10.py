"""C10 — ordinal windows (Ordinal.Once / Ordinal.where / Prepared.__call__ / Feed.load / Runner.train)
vs lean/ForML/Model/Ordinal.lean.

End-to-end stream: `project.Source.query(...)` -> `Feed.load(extract, lower, upper)` -> `extract.Operator.compose` ->
driver actor -> `Statement.Prepared` -> alchemy `Parser` -> SQLite; the delivered record ids of every window are
compared with the model and the delivery counts per record over the *whole window sequence* are judged by a
spec-shaped oracle that knows nothing of the model.  Two feeds: a generic `io.Feed` with the bare
`forml.provider.feed.reader.alchemy.Reader` over an in-memory database, and the real provider
`forml.provider.feed.alchemy.Feed` (result cache in memory and as parquet files under a private $FORML_HOME) over a
SQLite file, ONE feed instance per storage for the whole run, as a sequence of launches sees it.  The components of the
extraction path (`Ordinal`, `extract.Statement`, the driver actor builder, the feed) are optionally sent through a
`cloudpickle`/`copy` round trip before they are used (what a runner does when it ships tasks to other processes), and
the semantic is given as `None`, any alias spelling or the enum member.
"""
from __future__ import annotations

import atexit
import copy
import datetime
import decimal
import fractions
import itertools
import math
import numbers
import os
import re
import shutil
import tempfile
import time
import types
import typing

from core import framework as fw
from core import sexp

GEN_REL = 'ForML/Generated/C10Tables.lean'
CMP_NAMES = {'ge', 'gt', 'le', 'lt', 'eq', 'ne'}
D = datetime.date
DEC = decimal.Decimal
TS = datetime.datetime

KINDS = ['integer', 'float', 'string', 'date', 'timestamp']
#: 7-point domain per ordinal kind, ascending; floats are dyadic (exactly representable), strings ASCII
#: (code-point order = SQLite BINARY collation), index in the list = the rank the model works with
DOM: dict[str, list] = {
    'integer': [-3, -1, 0, 1, 2, 5, 9],
    'float': [-1.5, -0.5, 0.0, 0.25, 1.0, 2.5, 4.0],
    'string': ['', '0', '1', 'A', 'a', 'ab', 'b'],
    'date': [D(2020, 2, 27), D(2020, 2, 28), D(2020, 2, 29), D(2020, 3, 1), D(2020, 12, 31), D(2021, 1, 1), D(2021, 1, 2)],
    'timestamp': [TS(2020, 2, 28, 23, 59, 59), TS(2020, 2, 29), TS(2020, 2, 29, 0, 0, 0, 1), TS(2020, 2, 29, 12),
                  TS(2020, 3, 1), TS(2020, 12, 31, 23, 59, 59, 999999), TS(2021, 1, 1)],
}
#: the same column kinds at the edges of their representation (pseudo-kinds of the harness: `bigint` is an Integer
#: ordinal around 2^53 / 10^18 / 2^63 — where a detour through a double would change a bound —, `finefloat` a Float
#: ordinal of neighbouring doubles that need 17 significant digits when written)
DOM['bigint'] = [-2 ** 63, -2 ** 53 - 1, 2 ** 53 - 1, 2 ** 53, 2 ** 53 + 1, 10 ** 18 + 1, 2 ** 63 - 1]
DOM['finefloat'] = [-1e-300, math.nextafter(0.3, -1.0), 0.3, math.nextafter(0.3, 1.0), 1 / 3, 1e15 + 0.125,
                    1.7976931348623157e308]
E2E_KINDS = KINDS + ['bigint', 'finefloat']
#: column kind of a (pseudo-)kind: what the model and forml see
BASE_KIND = {'bigint': 'integer', 'finefloat': 'float'}
NPT = 7
BAD_FORMS = {'badstr', 'badtype'}


# ------------------------------------------------------------------------------------------------
# generated tables
# ------------------------------------------------------------------------------------------------
_OP_TABLE = {(False, True, True): 'ge', (False, False, True): 'gt', (True, True, False): 'le', (True, False, False): 'lt',
             (False, True, False): 'eq', (True, False, True): 'ne'}


def op_name(op) -> str:
    """Name of a bound operator by what it does to (0,1), (1,1), (1,0) — not by how it is written."""
    try:
        return _OP_TABLE.get((bool(op(0, 1)), bool(op(1, 1)), bool(op(1, 0))), f'unknown:{getattr(op, "__name__", op)}')
    except Exception as e:  # pylint: disable=broad-except
        return f'unknown:{type(e).__name__}'


BAD_SPELLINGS = ['once', 'twice', 'at_least', 'atleast ', ' exactly', 'exactly-', 'never', 'at most', 'none',
                 'atleastatmost', 'exactlyonce!', 'le', 'ge', 'lt']


def live_once_table():
    """(members, aliases) read from the live enum: [(name, lower_op, upper_op)], [(spelling, member name)]."""
    from forml import project

    once = project.Source.Extract.Ordinal.Once
    members = []
    for m in once:
        members.append((m.name.lower(), op_name(m.value.lower), op_name(m.value.upper)))
    # spellings: every string constant of `_missing_` (set literals compile to frozenset constants), resolved by
    # calling the live enum, so the table says what the code does *now*
    consts = once._missing_.__func__.__code__.co_consts  # pylint: disable=protected-access
    spellings = set()
    for c in consts:
        if isinstance(c, (frozenset, tuple, set)):
            spellings.update(s for s in c if isinstance(s, str))
        elif isinstance(c, str):
            spellings.add(c)
    spellings.update(m.name.lower() for m in once)
    # plus a fixed universe of near-miss probes (separator inserted anywhere, the refused spellings of the unit test), so
    # that a spelling the code starts to accept shows up in the table (and is judged by the oracle) instead of making the
    # table-driven model disagree
    spellings.update(ch.join((b[:i], b[i:])) for b in sorted(spellings) if b for i in range(len(b) + 1) for ch in '-_ ')
    spellings.update(BAD_SPELLINGS)
    aliases = []
    for s in sorted(spellings):
        if s != s.lower() or not re.fullmatch(r'[ -~]+', s) or '"' in s or '\\' in s:
            continue
        try:
            aliases.append((s, once(s).name.lower()))
        except ValueError:
            pass
    return members, aliases


def render_tables() -> str:
    members, aliases = live_once_table()
    for name, lo, up in members:
        if not re.fullmatch(r'[a-z][a-z0-9_]*', name):
            raise fw.MachineryError(f'enum member {name!r} is not a Lean identifier')
        if lo not in CMP_NAMES or up not in CMP_NAMES:
            raise fw.MachineryError(f'Once.{name} uses operators ({lo}, {up}) unknown to the model (Cmp)')
    out = [
        '/- GENERATED by harness/props/c10.py (Check.gen_tables) from the live',
        '   forml.project.Source.Extract.Ordinal.Once enum on every run — do not edit. -/',
        'import ForML.Model.OrdinalCmp',
        'namespace ForML.Ordinal',
        '',
        '/-- members of `Ordinal.Once` (lower-cased names = `repr`) -/',
        'inductive Once where',
        '  | ' + ' | '.join(n for n, _, _ in members),
        '  deriving DecidableEq, Repr',
        '',
        'def Once.all : List Once := [' + ', '.join('.' + n for n, _, _ in members) + ']',
        '',
        '/-- `Once.<member>.value` = `Bounds(lower, upper)` operator pair -/',
        'def onceTable : Once → Cmp × Cmp',
    ]
    out += [f'  | .{n} => (.{lo}, .{up})' for n, lo, up in members]
    out += ['', '/-- `repr(member)` -/', 'def Once.name : Once → String']
    out += [f'  | .{n} => "{n}"' for n, _, _ in members]
    out += ['', '/-- spellings resolved by `Once(value)` / `Once._missing_` (compared after `str.lower()`), sorted -/',
            'def aliasTable : List (String × Once) := [']
    out += [',\n'.join(f'  ("{s}", .{m})' for s, m in aliases)]
    out += [']', '', 'end ForML.Ordinal', '']
    return '\n'.join(out)


# ------------------------------------------------------------------------------------------------
# values, spellings
# ------------------------------------------------------------------------------------------------
def forms(kind: str, pt: int) -> list[str]:
    """Well-formed spellings of domain point `pt` as a bound of an ordinal of `kind`."""
    v = DOM[kind][pt]
    if kind == 'bigint':
        # what the interfaces deliver: the CLI a string, code an int / a Decimal (numpy integer scalars: finding C10-F3,
        # exercised in a process of their own — `_xproc_cases`)
        return ['native', 'str', 'dec'] + (['plusstr'] if v >= 0 else [])
    if kind == 'finefloat':
        return ['native', 'str', 'dec', 'npfloat']
    if kind == 'integer':
        # frac / negfrac / decfrac: the cast *changes the value* (int() truncates towards zero) and lands on the point
        return ['native', 'str', 'float', 'dec'] + (['frac', 'decfrac'] if v >= 0 else []) + (['negfrac'] if v <= 0 else [])
    if kind == 'float':
        return ['native', 'str', 'dec'] + (['int'] if v == int(v) else [])
    if kind == 'string':
        return ['native'] + (['int'] if v.isdigit() else [])
    if kind == 'date':
        # strtime / epoch: a time of day that the cast to a date drops
        return ['native', 'str', 'strtime', 'epoch']
    out = ['native', 'str', 'str2', 'pdts', 'epoch']
    if v == TS(v.year, v.month, v.day):
        out.append('date')
    return out


def bad_forms(kind: str) -> list[str]:
    return [] if kind == 'string' else ['badstr', 'badtype']


def value(kind: str, pt: int, form: str):
    import pandas

    v = DOM[kind][pt]
    if form == 'native':
        return v
    if form == 'badstr':
        return 'x1'
    if form == 'badtype':
        return D(2020, 1, 1) if BASE_KIND.get(kind, kind) in ('integer', 'float') else True
    if form == 'plusstr':
        return '+' + str(v)
    if form in ('npint', 'npfloat'):
        import numpy

        return numpy.int64(v) if form == 'npint' else numpy.float64(v)
    if form == 'str':
        if kind in ('integer', 'bigint'):
            return str(v)
        if kind in ('float', 'finefloat'):
            return repr(v)
        return v.isoformat()
    if form == 'str2':
        return str(v)
    if form == 'float':
        return float(v)
    if form == 'frac':
        return v + 0.5
    if form == 'negfrac':
        return v - 0.5
    if form == 'dec':
        return DEC(repr(v))
    if form == 'decfrac':
        return DEC(v) + DEC('0.5')
    if form == 'strtime':
        return v.isoformat() + 'T12:34:56'
    if form == 'epoch':  # nanoseconds since the epoch (what pandas.to_datetime makes of a number)
        t = TS(v.year, v.month, v.day, 12) if kind == 'date' else v
        return ((t - TS(1970, 1, 1)) // datetime.timedelta(microseconds=1)) * 1000
    if form == 'int':
        return int(v)
    if form == 'date':
        return v.date()
    if form == 'pdts':
        return pandas.Timestamp(v)
    raise fw.MachineryError(f'unknown form {form}')


def pyclass(v, form: str = 'native') -> str:
    if isinstance(v, bool):
        return 'bool'
    if isinstance(v, numbers.Integral):  # int and the numpy integer scalars
        return 'int'
    if isinstance(v, float):  # incl. numpy.float64
        return 'float'
    if isinstance(v, decimal.Decimal):
        return 'decimal'
    if isinstance(v, str):
        return 'strBad' if form == 'badstr' else 'strGood'
    if isinstance(v, datetime.datetime):
        return 'datetime'
    if isinstance(v, datetime.date):
        return 'date'
    raise fw.MachineryError(f'no value class for {v!r}')


def raw_sexp(kind: str, b):
    """bound spec (None | [pt, form]) -> protocol `raw`"""
    if b is None:
        return None
    pt, form = b
    v = value(kind, pt, form)
    return [pyclass(v, form), pt, bool(v)]


def spec_cast(kind: str, v):
    """A bound *interpreted in the ordinal column's kind* — plain Python conversions written from the meaning of the
    kinds (integer: int(), float: float(), string: str(), date/timestamp: the calendar day / instant), not forml's cast."""
    kind = BASE_KIND.get(kind, kind)
    if kind == 'integer':
        return spec_int(v)
    if kind == 'float':
        return spec_float(v)
    if kind == 'string':
        return v if isinstance(v, str) else str(v)
    if isinstance(v, (int, float)) and not isinstance(v, bool):
        t = TS(1970, 1, 1) + datetime.timedelta(microseconds=int(v) // 1000)
    elif isinstance(v, str):
        t = TS.fromisoformat(v)
    elif isinstance(v, datetime.datetime):
        t = v.to_pydatetime() if hasattr(v, 'to_pydatetime') else v
    elif isinstance(v, datetime.date):
        return v if kind == 'date' else TS(v.year, v.month, v.day)
    else:
        raise ValueError(f'no {kind} reading of {v!r}')
    return t.date() if kind == 'date' else t


_INT_RE = re.compile(r'\s*([+-]?)(\d+(?:_\d+)*)\s*\Z')


def spec_int(v) -> int:
    """The integer a bound denotes — exact arithmetic, written from what the spellings mean: an integer is itself, a
    decimal string is the sum of its digits times powers of ten (no parser of forml or Python's `int()` involved), a float
    / Decimal is its exact rational value truncated towards zero."""
    if isinstance(v, numbers.Integral):
        return int(v)
    if isinstance(v, str):
        m = _INT_RE.match(v)
        if not m:
            raise ValueError(f'{v!r} does not write an integer')
        n = 0
        for ch in m.group(2).replace('_', ''):
            n = n * 10 + '0123456789'.index(ch)
        return -n if m.group(1) == '-' else n
    q = fractions.Fraction(v)  # exact for float and Decimal; raises for nan / inf
    return -((-q.numerator) // q.denominator) if q < 0 else q.numerator // q.denominator


def spec_float(v) -> float:
    """The double a bound denotes: a float is itself; anything else denotes an exact rational, read as the double
    nearest to it (checked against both neighbours, not taken from `float()` on trust)."""
    if isinstance(v, float):
        return float(v)
    if isinstance(v, numbers.Integral):
        q = fractions.Fraction(int(v))
    elif isinstance(v, str):
        q = fractions.Fraction(decimal.Decimal(v.strip().replace('_', '')))
    else:
        q = fractions.Fraction(v)
    r = float(q)  # candidate; verified to be a nearest double
    for nb in (math.nextafter(r, math.inf), math.nextafter(r, -math.inf)):
        if math.isfinite(nb) and abs(fractions.Fraction(nb) - q) < abs(fractions.Fraction(r) - q):
            raise fw.MachineryError(f'spec_float: {r!r} is not the double nearest to {v!r}')
    return r


def bound_value(kind: str, b):
    """bound spec [pt, form] -> the bound as the column's kind reads it"""
    return spec_cast(kind, value(kind, *b))


def spec_sem(once) -> str:
    """Delivery semantic named by a spelling — written from the docstring of `Source.query`, not from the code."""
    if not once:
        return 'exactly'
    s = once.lower()
    if 'most' in s:
        return 'atmost'
    if 'least' in s:
        return 'atleast'
    if 'exact' in s:
        return 'exactly'
    raise ValueError(once)


#: which ends of a window a semantic includes — written from the docstrings of `Source.query` / `Ordinal.Once`
#: ("atleast: include both the lower and the upper ordinal bounds", "atmost: leave out the lower bound and include the
#: upper one", "exactly: include the lower bound but leave the upper bound out for the next batch"), not from the code
DOC_INCLUDES = {'atleast': (True, True), 'atmost': (False, True), 'exactly': (True, False)}


def doc_count(sem: str, v, wins: list) -> int:
    """Number of windows [(lo value | None, hi value | None)] that promise to deliver a record with ordinal `v`."""
    inc_lo, inc_hi = DOC_INCLUDES[sem]
    n = 0
    for lo, hi in wins:
        above = lo is None or v > lo or (inc_lo and v == lo)
        below = hi is None or v < hi or (inc_hi and v == hi)
        n += above and below
    return n


def exc_name(e: BaseException) -> str:
    return type(e).__name__


# ------------------------------------------------------------------------------------------------
# implementation adapter
# ------------------------------------------------------------------------------------------------
#: components of the extraction path that can be sent through a serialisation round trip before use
#: `ordinal[-copy|-deepcopy]`: the `Ordinal` namedtuple of the extract; `statement`: the `extract.Statement` bound into the
#: driver actor; `builder`: the driver actor builder (what dask/spark ship); `feed`: the feed ("Feeds need to be serializable")
SHIP_PLAIN = ['ordinal', 'ordinal-copy', 'ordinal-deepcopy', 'statement']
SHIP_FILE = SHIP_PLAIN + ['builder', 'builder', 'feed']  # these need a producer that is itself serialisable (connection URL)
#: stages in which the `Ordinal` namedtuple is rebuilt (through `Ordinal.__new__`, with the member instead of the spelling)
SHIP_REBUILDS = {'ordinal', 'ordinal-copy', 'ordinal-deepcopy', 'statement', 'builder'}


def roundtrip(obj, how: str = 'cloudpickle'):
    if how == 'copy':
        return copy.copy(obj)
    if how == 'deepcopy':
        return copy.deepcopy(obj)
    import cloudpickle

    return cloudpickle.loads(cloudpickle.dumps(obj))


def live_member(sem: str):
    """The live enum member of a semantic (by its name)."""
    from forml import project

    for m in project.Source.Extract.Ordinal.Once:
        if m.name.lower() == sem:
            return m
    raise fw.MachineryError(f'no Once member named {sem}')


def dsl_kind(kind: str):
    from forml.io import dsl

    return {'integer': dsl.Integer(), 'float': dsl.Float(), 'string': dsl.String(), 'date': dsl.Date(),
            'timestamp': dsl.Timestamp()}[BASE_KIND.get(kind, kind)]


class _EnvBase:
    """A storage + feed for one ordinal kind: `load(data)` makes `self.table` (DSL) / `self.feed` serve that data."""

    kind: str
    table: typing.Any
    feed: typing.Any

    def _init_common(self, kind: str):
        from forml import flow

        self.kind = kind
        self.dslkind = dsl_kind(kind)

        class Collect(flow.Visitor):
            def __init__(self):
                self.nodes = []

            def visit_node(self, node):
                self.nodes.append(node)

        self.Collect = Collect

    ocol = 'o'  # name of the ordinal column

    def _dsl_table(self, title: str):
        """DSL tables of equal field names and kinds are one and the same table whatever their title: every storage gets
        its own name for the ordinal column."""
        from forml.io import dsl

        return dsl.Table(dsl.Schema.from_fields(dsl.Field(dsl.Integer(), name='rid'), dsl.Field(self.dslkind, name=self.ocol),
                                                title=title))

    def _sql_table(self, name: str):
        import sqlalchemy
        from forml.provider.feed.reader import alchemy as ralchemy

        meta = sqlalchemy.MetaData()
        return meta, sqlalchemy.Table(name, meta, sqlalchemy.Column('rid', sqlalchemy.Integer()),
                                      sqlalchemy.Column(self.ocol, ralchemy.Parser.KIND[self.dslkind]))

    @property
    def ordinal_column(self):
        return getattr(self.table, self.ocol)

    def source(self, ordinal: bool, once, base=None, apply_base=None):
        """`base`: None -> `t.select(t.rid)`; ['ne', k] -> the same with a prefilter `rid != k` (the ordinal predicate must be
        AND-ed to it); ['table'] -> the bare table as the statement (ordinal column among the features); ['labels'] ->
        `t.select(t.rid)` with the ordinal column also being the label column.  `apply_base`: ['ne', k] -> an explicit
        apply-mode statement with its own prefilter (`Source.query(apply=...)`)."""
        from forml import project

        t = self.table
        if base is None:
            stmt = t.select(t.rid)
        elif base[0] == 'ne':
            stmt = t.select(t.rid).where(t.rid != base[1])
        elif base[0] in ('table', 'labels'):
            stmt = t if base[0] == 'table' else t.select(t.rid)
        else:
            raise fw.MachineryError(f'unknown base statement {base}')
        apply = None
        if apply_base is not None:
            if apply_base[0] != 'ne' or (base is not None and base[0] == 'table'):
                raise fw.MachineryError(f'unknown apply statement {apply_base} for base {base}')
            apply = t.select(t.rid).where(t.rid != apply_base[1])
        # ['labels']: label column -> the train path goes through `TableDriver` + `Slicer` and a re-selected statement
        ocol = self.ordinal_column
        return project.Source.query(stmt, labels=ocol if base is not None and base[0] == 'labels' else None, apply=apply,
                                    ordinal=ocol if ordinal else None, once=once)

    def launch(self, source, lower, upper, mode: str, ship: typing.Optional[str] = None) -> list[int]:
        """One launch: `Feed.load` -> source operator -> its apply/train driver actor -> rows; `ship`: the component that
        goes through a serialisation round trip before it is used."""
        from forml import flow
        from forml.io._input import extract as extmod

        extract, feed = source.extract, self.feed
        if ship and ship.startswith('ordinal') and extract.ordinal is not None:
            # namedtuple `_replace` does not go through `Extract.__new__`: only the Ordinal is rebuilt
            extract = extract._replace(ordinal=roundtrip(extract.ordinal, ship.partition('-')[2] or 'cloudpickle'))
        if ship == 'feed':
            feed = roundtrip(feed)
        op = feed.load(extract, lower, upper)
        trunk = op.compose(flow.Origin())
        segment = trunk.apply if mode == 'apply' else trunk.train
        visitor = self.Collect()
        segment.accept(visitor)
        workers = [n for n in visitor.nodes if hasattr(n, 'builder') and issubclass(n.builder.actor, extmod.Driver)]
        if len(workers) != 1:
            raise fw.MachineryError(f'expected one driver worker in the {mode} segment, got {visitor.nodes}')
        builder = workers[0].builder
        if ship == 'builder':
            builder = roundtrip(builder)
        elif ship == 'statement':
            args = [roundtrip(a) if isinstance(a, extmod.Statement) else a for a in builder.args]
            builder = builder.actor.builder(*args, **builder.kwargs)
        rows = builder().apply()
        return _rows_to_ids(rows.to_rows() if hasattr(rows, 'to_rows') else rows)


class _Env(_EnvBase):
    """One in-memory SQLite database + generic feed (bare reader, no result cache) per ordinal kind; the data table is
    rewritten for every case."""

    ships = SHIP_PLAIN

    def __init__(self, kind: str):
        import sqlalchemy
        from forml import io
        from forml.provider.feed.reader import alchemy as ralchemy

        self._init_common(kind)
        self.table = self._dsl_table(f'C10{kind}')
        self.engine = sqlalchemy.create_engine('sqlite:///:memory:')
        self.con = self.engine.connect()
        meta, self.sqltable = self._sql_table('t')
        meta.create_all(self.con)
        self.data: typing.Optional[tuple] = None
        sources = {self.table: sqlalchemy.table('t')}

        class Feed(io.Feed):
            """The generic feed with the real SQLAlchemy reader (no result cache)."""

            Reader = ralchemy.Reader

            @property
            def sources(self):
                return types.MappingProxyType(sources)

            @property
            def features(self):
                return {}

        self.feed = Feed(connection=self.con)

    def load(self, data: typing.Sequence[int], fresh: bool = False) -> None:  # pylint: disable=unused-argument
        data = tuple(data)
        if data == self.data:
            return
        self.con.execute(self.sqltable.delete())
        if data:
            self.con.execute(self.sqltable.insert(), [{'rid': i, 'o': DOM[self.kind][p]} for i, p in enumerate(data)])
        self.data = data


class _FileEnv(_EnvBase):
    """The real provider feed `forml.provider.feed.alchemy.Feed` (result cache `Results`: in memory + parquet files under
    $FORML_HOME/.cache/alchemy) over a SQLite *file*.  Every distinct data set is a table of its own that is written once
    and never changed afterwards (unchanged storage), served by one feed instance for the whole run: consecutive windows
    — of one case and of later cases over the same data — go through the same feed and the same caches, as the launches
    of a real sequence do."""

    ships = SHIP_FILE

    def __init__(self, kind: str, home: str, attach: bool = False):
        import sqlalchemy

        self._init_common(kind)
        self.url = f'sqlite:///{home}/c10-{kind}.db'
        self.engine = sqlalchemy.create_engine(self.url)
        self.sets: dict[tuple, tuple] = {}
        #: worker processes: a table that an earlier process of the same launch sequence created is used as it is
        self.attach = attach

    def load(self, data: typing.Sequence[int], fresh: bool = False) -> None:
        """`fresh`: serve the data from a new table (and a new feed instance) that no launch has read yet — no entry of the
        result caches can refer to it, i.e. the history that follows starts from empty caches (a witness found that way
        reproduces in any new process)."""
        from forml.provider.feed import alchemy

        data = tuple(data)
        if fresh or data not in self.sets:
            # table names are unique over the whole run: the cache key is the SQL text alone (two databases holding a
            # table of the same name would share entries: C06's subject, not C10's)
            self.count = getattr(self, 'count', 0) + 1
            name = f'{self.kind}_d{self.count}'
            self.ocol = f'o{self.count}'
            table = self._dsl_table(f'C10{self.kind}{name}')
            meta, sqltable = self._sql_table(name)
            import sqlalchemy

            if not (self.attach and sqlalchemy.inspect(self.engine).has_table(name)):
                with self.engine.begin() as con:
                    meta.create_all(con)
                    if data:
                        con.execute(sqltable.insert(), [{'rid': i, self.ocol: DOM[self.kind][p]} for i, p in enumerate(data)])
            self.sets[data] = (table, alchemy.Feed(sources={table: name}, connection=self.url), self.ocol)
        self.table, self.feed, self.ocol = self.sets[data]


def _rows_to_ids(rows) -> list[int]:
    return sorted(int(list(r)[0]) for r in rows)


class C10(fw.Check):
    ID = 'C10'
    LEAN_MODULES = ['ForML.Props.C10', 'ForML.Lemmas.C10Ship', 'ForML.Lemmas.C10Cache', 'ForML.Lemmas.C10Chain', 'ForML.Lemmas.C10Int']
    DRIVER = 'drv_c10'
    RULE = ('end-to-end (Source.query -> Feed.load -> extract.Operator -> apply/train driver -> Statement.Prepared -> alchemy '
            'Parser -> SQLite): ordinal kind {integer,float,string,date,timestamp, bigint = Integer ordinal around 2^53/10^18/2^63 '
            'with bounds as int/str/+str/Decimal, finefloat = Float ordinal of neighbouring 17-digit doubles with bounds as '
            'float/repr string/Decimal/numpy.float64} x semantic handed over as None / "" / any '
            'alias-table spelling in random case / the enum member x increasing bound subsequence of a 7-point domain with '
            'optional open first/last window (thorough: all 2^7 subsets x 3 semantics x 5 kinds, twice) x every bound in a '
            'random well-formed spelling, each occurrence independently (native, str, float/int, Decimal, date, '
            'pandas.Timestamp, epoch ns, and value-changing ones: fractional float/Decimal for Integer, time-of-day '
            'string/epoch for Date) x base statement {select, select with its own prefilter, bare table, select with the '
            'ordinal as label column (TableDriver path)} x optional explicit apply-mode statement x mode {apply, train} x feed '
            '{generic io.Feed with the bare alchemy Reader over an in-memory database | the provider feed '
            'forml.provider.feed.alchemy.Feed with its result cache (memory + parquet under a private FORML_HOME) over a '
            'SQLite file, one table per data set written once, one feed instance per storage for the whole run, data from a '
            'small pool so that later histories meet the cache entries of earlier ones} x component sent through a '
            'cloudpickle/copy/deepcopy round trip before use {none, Ordinal, extract.Statement, driver actor builder, feed} x '
            '4..12 random records; incremental-training histories (real Runner.train on a real asset.Tag whose ordinal is '
            'recorded after every training, 1..6 trainings, optional initial tag ordinal, falsy ordinals; optionally every tag '
            'committed to and read back from a real posix registry, Tag.dumps/Tag.loads); a malformed stream with uncastable '
            'bounds and a no-ordinal stream incl. falsy bounds (0, 0.0, "", False); launch sequences in two worker '
            'processes one after the other sharing one FORML_HOME (second one served from the on-disk cache) and through the '
            'interactive launcher with the dask runner (scheduler processes). A case is distinct by (kind, semantic, '
            'windows/trainings with spellings, base, data, feed, shipped component, member, mode) and non-trivial when some '
            'record is delivered and some is not. Violations on the caching feed are re-run from empty caches (fresh table) '
            'and minimised, if necessary together with the earlier launch sequence against the same feed that they depend on. '
            'unit level: Once spellings (incl. a near-miss probe universe), Ordinal construction from every spelling / the '
            'member and its reconstruction by cloudpickle/copy/deepcopy, Extract ordinal/once consistency, kind.cast '
            'classes, kind.cast value by value (Integer: ~900 values at the representation edges as int/str/Decimal/float/'
            'numpy scalars against the exact model and a digit/Fraction oracle; Float: long decimal strings against the '
            'nearest-double oracle; Date/Timestamp: boundary instants in every carrier type), Ordinal.where terms, Prepared.__call__, Runner.train/apply bound passing.')
    TRUSTED = [
        'that each kind\'s values are linearly ordered the same way by Python (bounds), by SQLite through the SQLAlchemy '
        'column types (stored ordinals) and by the rank in the 7-point domain at which the driver runs the model (the '
        'theorems themselves hold for every linear order)',
        'pandas.to_datetime / int / float / str parsing of bound spellings (the oracle checks the delivered rows, not the parser)',
        'harness spec tables written from the docstrings: spelling -> semantic (spec_sem), semantic -> included ends '
        '(DOC_INCLUDES), value classes (pyclass)',
        'incremental training: the caller records the upper bound of a training as the ordinal of the tag the next training '
        'starts from (forml\'s runner reads tag.training.ordinal but never writes it)',
        'result cache: sha256 and the SQL rendering with literals are injective on the statements of one table (C06); the '
        'model keys the cache by the window predicate itself',
        'cloudpickle / copy rebuild a namedtuple through cls.__new__(cls, *fields) and an enum member by value (modelled as '
        'OrdinalSpec.reconstruct; compared with the real round trips on every run)',
    ]
    ASSUMPTIONS = [
        'ordinal values are non-null, not NaN and exactly representable in the storage (no float rounding, ASCII strings)',
        'bound spellings outside the generated classes (datetime for a Date ordinal, bool for an Integer ordinal: refused '
        'by the DSL with GrammarError) are covered at the cast level only',
        'records do not arrive late (a record with ordinal <= an already processed upper bound is outside the model)',
        'the data does not change between the launches of one history (a storage changing behind the result cache is C06)',
        'table names are unique over all databases that share a FORML_HOME (the cache key is the SQL text alone: C06)',
        'an ordinal recorded in a tag is of a type TOML keeps (int, float, str, date, datetime; Decimal as number); a '
        'pandas.Timestamp is written as its repr (tag persistence: C18)',
        'Integral bounds are Python ints (a numpy.int64 bound is finding C10-F3); tz-aware temporal bounds are covered at '
        'the cast level only',
        'shipped statements do not select all fields of a Schema.from_fields table whose .schema was computed before '
        '(un-pickling such a statement mutates the shared schema class: a DSL pickling matter, C08)',
    ]

    def __init__(self, tier, seed, home: typing.Optional[str] = None, attach: bool = False):
        super().__init__(tier, seed)
        self._envs: dict[tuple, _EnvBase] = {}
        self._attach = attach
        # a private, empty FORML_HOME (before forml is imported): the alchemy feed keeps its on-disk result cache there
        if home is None:
            home = tempfile.mkdtemp(prefix='verif-c10-home-')
            atexit.register(shutil.rmtree, home, ignore_errors=True)
        os.makedirs(home, exist_ok=True)
        self._home = home
        os.environ['FORML_HOME'] = self._home

    # ---- tables ------------------------------------------------------------------------------
    def gen_tables(self):
        return {GEN_REL: render_tables()}

    def env(self, kind: str, feed: typing.Optional[str] = None) -> _EnvBase:
        feed = feed or 'plain'
        if (kind, feed) not in self._envs:
            if feed == 'plain':
                self._envs[kind, feed] = _Env(kind)
            elif feed == 'alchemy':
                from forml import setup

                if os.path.realpath(str(setup.USRDIR)) != os.path.realpath(self._home):
                    raise fw.MachineryError(f'forml was imported before the private FORML_HOME was set ({setup.USRDIR})')
                self._envs[kind, feed] = _FileEnv(kind, self._home, self._attach)
            else:
                raise fw.MachineryError(f'unknown feed {feed}')
        return self._envs[kind, feed]

    # ---- end-to-end --------------------------------------------------------------------------
    def _spelling(self, sem: str) -> typing.Optional[str]:
        if not hasattr(self, '_aliases'):
            self._aliases = live_once_table()[1]
        aliases = self._aliases
        options = [s for s, m in aliases if m == sem]
        if sem == 'exactly' and self.rng.random() < 0.2:
            return self.rng.choice([None, ''])
        s = self.rng.choice(options)
        style = self.rng.choice(['lower', 'lower', 'upper', 'title', 'mixed'])
        if style == 'upper':
            return s.upper()
        if style == 'title':
            return s.title()
        if style == 'mixed':
            return ''.join(c.upper() if self.rng.random() < 0.5 else c for c in s)
        return s

    def _windows(self, kind: str, bounds: list[int], open_lo: bool, open_hi: bool, badrate: float = 0.0) -> list:
        def spell(p):
            if badrate and self.rng.random() < badrate and bad_forms(kind):
                return [p, self.rng.choice(bad_forms(kind))]
            fs = forms(kind, p)
            return [p, self.rng.choice(fs if self.rng.random() < 0.6 else ['native'])]

        wins = []
        if open_lo:
            wins.append([None, spell(bounds[0])] if bounds else [None, None])
        for a, b in zip(bounds, bounds[1:]):
            wins.append([spell(a), spell(b)])
        if open_hi and bounds:
            wins.append([spell(bounds[-1]), None])
        return wins

    def _data(self) -> list[int]:
        return [self.rng.randrange(NPT) for _ in range(self.rng.randint(4, 12))]

    def _transport(self, case: dict, sem: str, pool: list, p_feed: float = 0.3) -> None:
        """How the semantic is handed over (spelling | enum member), which feed serves the data (plain reader | the
        provider feed with its result caches, data from the pool) and which component is shipped before use."""
        rng = self.rng
        if rng.random() < 0.15:
            case['once'], case['member'] = sem, True
        else:
            case['once'] = self._spelling(sem)
        if rng.random() < p_feed:
            case['feed'] = 'alchemy'
            case['data'] = list(rng.choice(pool))
        else:
            case['data'] = self._data()
        if rng.random() < 0.35:
            case['ship'] = rng.choice(SHIP_FILE if case.get('feed') == 'alchemy' else SHIP_PLAIN)

    def _e2e_cases(self) -> list[dict]:
        rng = self.rng
        cases = []
        # corpus: the shapes the statement names explicitly
        full = list(range(NPT))
        for kind in E2E_KINDS:
            for sem in ('exactly', 'atmost', 'atleast'):
                cases.append({'kind': kind, 'once': sem, 'ordinal': True, 'open': [True, True],
                              'windows': [[None, [2, 'native']], [[2, 'native'], [4, 'native']], [[4, 'native'], None]],
                              'data': full, 'mode': 'apply'})
                cases.append({'kind': kind, 'once': sem, 'ordinal': True, 'open': [False, False],
                              'windows': [[[i, 'native'], [i + 1, 'native']] for i in range(NPT - 1)],
                              'data': full + full, 'mode': 'train'})
                for base in (['ne', 3], ['table'], ['labels']):  # the ordinal predicate is AND-ed to the statement's own filter
                    cases.append({'kind': kind, 'once': sem, 'ordinal': True, 'open': [True, False], 'base': base,
                                  'windows': [[None, [3, 'native']], [[3, 'native'], [5, 'native']]],
                                  'data': full, 'mode': 'train'})
            # every spelling (other Python types, value-changing casts) on both sides of a shared bound
            for form in sorted({f for p in range(NPT) for f in forms(kind, p)} - {'native'}):
                elig = [p for p in range(1, NPT - 1) if form in forms(kind, p)]
                if len(elig) < 2:
                    continue
                a, b = elig[0], elig[-1]
                for sem in ('exactly', 'atmost', 'atleast'):
                    cases.append({'kind': kind, 'once': sem, 'ordinal': True, 'open': [True, True], 'mode': 'apply',
                                  'windows': [[None, [a, form]], [[a, form], [b, form]], [[b, form], None]], 'data': full})
                    cases.append({'kind': kind, 'once': sem, 'ordinal': True, 'open': [False, False], 'mode': 'train',
                                  'windows': [[[0, 'native'], [a, form]], [[a, 'native'], [b, form]], [[b, form], [6, 'native']]],
                                  'data': full})
            # one feed with a result cache: consecutive windows of the same shape that differ in the bound values only,
            # the same history again later (cache hits), both modes; and the components of the extraction path after a
            # serialisation round trip, with the semantic given as a spelling / as the enum member
            for sem in ('exactly', 'atmost', 'atleast'):
                closed = [[[1, 'native'], [2, 'native']], [[2, 'native'], [4, 'native']], [[4, 'native'], [5, 'native']]]
                half = [[None, [1, 'native']], [None, [3, 'native']], [[3, 'native'], None], [[5, 'native'], None]]
                for mode in ('apply', 'train'):
                    cases.append({'kind': kind, 'once': sem, 'ordinal': True, 'open': [False, False], 'feed': 'alchemy',
                                  'windows': closed, 'data': full, 'mode': mode})
                cases.append({'kind': kind, 'once': sem, 'ordinal': True, 'open': [False, False], 'feed': 'alchemy',
                              'windows': half, 'data': full, 'mode': 'apply'})
                cases.append({'kind': kind, 'once': sem, 'ordinal': True, 'open': [False, False], 'feed': 'alchemy',
                              'windows': closed[1:] + closed[:1], 'data': full, 'mode': 'train', 'base': ['labels']})
                for ship, feed in (('builder', 'alchemy'), ('statement', 'plain'), ('ordinal-deepcopy', 'plain')):
                    for member in (False, True):
                        cases.append({'kind': kind, 'once': sem, 'member': member, 'ordinal': True, 'open': [False, False],
                                      'feed': feed, 'ship': ship, 'windows': closed[:2], 'data': full, 'mode': 'apply'})
                cases.append({'kind': kind, 'once': sem, 'member': True, 'ordinal': True, 'open': [True, True],
                              'windows': [[None, [2, 'native']], [[2, 'native'], [4, 'native']], [[4, 'native'], None]],
                              'data': full, 'mode': 'train'})
            # no ordinal: bounds must be refused, also the falsy ones (point 2 of integer/float, 0 of string)
            falsy = {'integer': 2, 'float': 2, 'string': 0}.get(kind, 3)
            cases.append({'kind': kind, 'once': None, 'ordinal': False, 'open': [False, False],
                          'windows': [[None, None], [[falsy, 'native'], None], [None, [falsy, 'native']],
                                      [[falsy, 'native'], [falsy, 'native']], [[5, 'native'], None], [None, [5, 'native']]],
                          'data': full, 'mode': 'apply'})
        if self.quick:
            combos = [(rng.choice(E2E_KINDS), rng.choice(['exactly', 'atmost', 'atleast']),
                       sorted(rng.sample(range(NPT), rng.randint(0, NPT)))) for _ in range(800)]
        else:
            combos = [(k, s, [i for i in range(NPT) if mask >> i & 1])
                      for k in E2E_KINDS for s in ('exactly', 'atmost', 'atleast') for mask in range(2 ** NPT) for _ in (0, 1)]
        # data sets of the cases that go through the caching feed: a small pool, so that later cases meet the entries that
        # earlier ones left in the caches (same table, same or same-shaped statements)
        pool = [full, full + full] + [self._data() for _ in range(4)]
        for kind, sem, bounds in combos:
            open_lo, open_hi = rng.random() < 0.4, rng.random() < 0.4
            if not bounds:
                open_lo = True
            case = {'kind': kind, 'ordinal': True, 'open': [open_lo, open_hi],
                    'windows': self._windows(kind, bounds, open_lo, open_hi), 'mode': rng.choice(['apply', 'train'])}
            self._transport(case, sem, pool)
            data = case['data']
            case['base'] = rng.choice([None, None, None, None, None, None, ['ne', rng.randrange(len(data))],
                                       ['ne', rng.randrange(len(data))], ['table'], ['labels']])
            if (case['base'] is None or case['base'][0] != 'table') and rng.random() < 0.15:
                case['apply_base'] = ['ne', rng.randrange(len(data))]  # an explicit apply-mode statement
            if case['base'] == ['table'] and case.get('ship') in ('statement', 'builder'):
                # not a C10 matter (see design.d/C10.md, observations): un-pickling a statement that selects *all* fields of
                # a `Schema.from_fields` table, once its `.schema` was computed, adds the fields to the shared schema
                # class a second time and changes the table's hash (UnprovisionedError ever after)
                case['ship'] = 'ordinal'
            cases.append(case)
        # malformed stream: uncastable bounds must be refused with CastError
        for _ in range(self.n(60, 400)):
            kind = rng.choice([k for k in E2E_KINDS if k != 'string'])
            bounds = sorted(rng.sample(range(NPT), rng.randint(1, 4)))
            case = {'kind': kind, 'ordinal': True, 'open': [True, True], 'windows': self._windows(kind, bounds, True, True, 0.4),
                    'mode': 'apply', 'malformed': True}
            self._transport(case, rng.choice(['exactly', 'atmost', 'atleast']), pool)
            cases.append(case)
        # no-ordinal stream
        for _ in range(self.n(60, 400)):
            kind = rng.choice(E2E_KINDS)
            bounds = sorted(rng.sample(range(NPT), rng.randint(1, 4)))
            case = {'kind': kind, 'ordinal': False, 'open': [True, True],
                    'windows': self._windows(kind, bounds, True, True) + [[None, None]], 'mode': rng.choice(['apply', 'train'])}
            self._transport(case, 'exactly', pool)
            case.pop('member', None)
            case['once'] = rng.choice([None, None, ''])
            cases.append(case)
        return cases + self._chain_cases()

    def _run_e2e(self, case: dict, fresh: bool = False):
        """Real code: [('ok', [rid…]) | ('error', ExcName)] per window, or ('ctor-error', ExcName).  A `session` is a
        list of such cases over the same storage and feed, launched one after the other: one result per member."""
        if case.get('session'):
            subs = case['session']
            if len({(c['kind'], tuple(c['data']), c.get('feed')) for c in subs}) != 1:
                raise fw.MachineryError('a session is over one storage and one feed')
            return [self._run_e2e(sub, fresh=fresh and i == 0) for i, sub in enumerate(subs)]
        if case.get('chain'):
            return self._run_chain(case, fresh)
        env = self.env(case['kind'], case.get('feed'))
        env.load(case['data'], fresh)
        try:
            source = env.source(case['ordinal'], self._once_value(case), case.get('base'), case.get('apply_base'))
        except Exception as e:  # pylint: disable=broad-except
            return ('ctor-error', exc_name(e))
        out = []
        for lo, hi in case['windows']:
            lower = None if lo is None else value(case['kind'], *lo)
            upper = None if hi is None else value(case['kind'], *hi)
            try:
                out.append(['ok'] + env.launch(source, lower, upper, case.get('mode', 'apply'), case.get('ship')))
            except fw.MachineryError:
                raise
            except Exception as e:  # pylint: disable=broad-except
                out.append(['error', exc_name(e)])
        return out

    @staticmethod
    def _once_value(case: dict):
        """What is handed to `Source.query(once=...)`: the spelling, or the live enum member of the semantic it names."""
        return live_member(spec_sem(case['once'])) if case.get('member') else case['once']

    @staticmethod
    def _kept(case: dict) -> list[int]:
        """Record ids that the base statement of the launched mode denotes (the model sees only those, in this order)."""
        base = case.get('base')
        if case.get('apply_base') is not None and case.get('mode', 'apply') == 'apply' and not case.get('chain'):
            base = case['apply_base']
        return [i for i in range(len(case['data'])) if not (base and base[0] == 'ne' and base[1] == i)]

    @classmethod
    def _model_line(cls, case: dict) -> str:
        kind = case['kind']
        data = [case['data'][i] for i in cls._kept(case)]
        # the model resolves the semantic from what the caller hands over (None | spelling | member), rebuilds the
        # ordinal specs once per round trip and reads through a result cache when the feed has one
        arg = None if case['once'] is None else ['m', spec_sem(case['once'])] if case.get('member') else ['s', case['once']]
        ships = 1 if case.get('ship') in SHIP_REBUILDS and case['ordinal'] else 0
        if case.get('chain'):
            return sexp.dumps(['xchain', BASE_KIND.get(kind, kind) if case['ordinal'] else None, arg, ships, case.get('feed') == 'alchemy',
                               bool(case.get('persist')), raw_sexp(kind, case['tag0']),
                               [raw_sexp(kind, u) for u in case['uppers']], data])
        wins = [[raw_sexp(kind, lo), raw_sexp(kind, hi)] for lo, hi in case['windows']]
        return sexp.dumps(['xwindows', BASE_KIND.get(kind, kind) if case['ordinal'] else None, arg, ships, case.get('feed') == 'alchemy', wins, data])

    @classmethod
    def _model_answer(cls, case: dict, ans: str):
        """Model output with positions mapped back to record ids."""
        kept = cls._kept(case)
        mod = sexp.num(sexp.loads(ans))
        if case.get('chain'):
            if isinstance(mod, list) and mod and mod[0] == 'ok':
                return ['ok', [None if r == 'none' else r[1:2] for r in mod[1]], [[kept[j] for j in l] for l in mod[2]]]
            return mod
        if not isinstance(mod, list) or len(mod) != 2 or mod[0] not in ('ok', 'error'):
            return mod
        if mod[0] == 'error':
            return ('ctor-error', mod[1])
        return [[r[0]] + [kept[j] for j in r[1:]] if isinstance(r, list) and r and r[0] == 'ok' else r for r in mod[1]]

    @staticmethod
    def _consecutive(case: dict) -> typing.Optional[tuple[list, bool, bool]]:
        """(bounds as read in the column's kind, open_lo, open_hi) when the windows are consecutive over a sequence of
        bounds that is increasing once every bound is interpreted in the column's kind (each occurrence of a bound may be
        spelt differently, also in another Python type)."""
        wins = case['windows']
        kind = case['kind']
        if not wins:
            return None
        vals: list = []
        open_lo = wins[0][0] is None
        open_hi = wins[-1][1] is None
        for i, (lo, hi) in enumerate(wins):
            if lo is None and i != 0 or hi is None and i != len(wins) - 1:
                return None
            if lo is not None:
                lv = bound_value(kind, lo)
                if vals and vals[-1] != lv:
                    return None
                if not vals:
                    vals.append(lv)
            if hi is not None:
                vals.append(bound_value(kind, hi))
        if any(not a < b for a, b in zip(vals, vals[1:])):
            return None
        return vals, open_lo, open_hi

    def _oracle_e2e(self, case: dict, impl) -> list[tuple[str, str, dict]]:
        """The property itself on the implementation's output. Returns [(what, signature, detail)]."""
        if case.get('session'):
            out = []
            for i, (sub, im) in enumerate(zip(case['session'], impl)):
                n = len(case['session'])
                out += [(f'{what} [sequence {i + 1} of {n} launched one after the other against the same feed]', sig,
                         {**(detail or {}), 'sequence': i}) for what, sig, detail in self._oracle_e2e(sub, im)]
            return out
        note = self._transport_note(case)
        raw = self._oracle_chain(case, impl) if case.get('chain') else self._oracle_windows(case, impl)
        return [(what + note, sig, detail) for what, sig, detail in raw]

    @staticmethod
    def _transport_note(case: dict) -> str:
        """How the case reached the storage, for the violation text."""
        parts = []
        if case.get('member'):
            parts.append('semantic given as the enum member')
        elif case.get('ordinal'):
            parts.append(f"once={case['once']!r}")
        if case.get('ship'):
            how = {'ordinal': 'the Ordinal specs sent through cloudpickle', 'ordinal-copy': 'the Ordinal specs copied with copy.copy',
                   'ordinal-deepcopy': 'the Ordinal specs copied with copy.deepcopy',
                   'statement': 'the extract.Statement of the driver sent through cloudpickle',
                   'builder': 'the driver actor builder sent through cloudpickle (as a runner ships it to a worker process)',
                   'feed': 'the feed sent through cloudpickle'}.get(case['ship'], case['ship'])
            parts.append(how)
        if case.get('platform'):
            parts = parts[:1] + ['forml.provider.feed.alchemy.Feed']
        elif case.get('feed') == 'alchemy':
            parts.append('read through one forml.provider.feed.alchemy.Feed (result cache) starting from empty caches')
        if case.get('persist'):
            parts.append('tags committed to and read back from a registry between the trainings')
        if case.get('apply_base'):
            parts.append('explicit apply-mode statement')
        if not case.get('chain'):
            parts.append(f"{case.get('mode', 'apply')} mode")
        return ' {' + '; '.join(parts) + '}' if parts else ''

    def _oracle_windows(self, case: dict, impl) -> list[tuple[str, str, dict]]:
        out = []
        kind = case['kind']
        if isinstance(impl, tuple):
            return [(f'Source.query refused a valid ordinal/once combination: {impl[1]}', f'source-refused:{impl[1]}', {})]
        for i, ((lo, hi), res) in enumerate(zip(case['windows'], impl)):
            given = [b for b in (lo, hi) if b is not None]
            bad = any(b[1] in BAD_FORMS for b in given)
            if not case['ordinal']:
                if given and res[0] != 'error':
                    fal = all(not value(kind, *b) for b in given)
                    out.append((f'bounds {[value(kind, *b) for b in given]!r} given to a source without an ordinal were '
                                f'not refused (window {i})',
                                'bound-without-ordinal-not-refused:' + ('falsy' if fal else 'truthy'), {'window': i}))
                elif given and res[1] != 'UnexpectedError':
                    out.append((f'bounds without ordinal raised {res[1]}', f'bound-without-ordinal-raised:{res[1]}',
                                {'window': i}))
                elif not given and res != ['ok'] + list(range(len(case['data']))):
                    out.append((f'launch without bounds did not deliver all records: {res}', 'unbounded-launch-incomplete',
                                {'window': i}))
            elif bad and res[0] != 'error':
                out.append((f'uncastable bound accepted in window {i}', 'uncastable-bound-accepted', {'window': i}))
            elif not bad and res[0] == 'error':
                out.append((f'well-formed bounds refused with {res[1]} in window {i}', f'valid-bound-refused:{res[1]}',
                            {'window': i}))
        if out or not case['ordinal'] or any(r[0] != 'ok' for r in impl):
            return out
        seq = self._consecutive(case)
        if seq is None:
            return out
        bvals, open_lo, open_hi = seq
        return out + self._oracle_counts(case, bvals, open_lo, open_hi, [r[1:] for r in impl])

    def _oracle_counts(self, case: dict, bvals: list, open_lo: bool, open_hi: bool, rows: list) -> list:
        """Delivery count of every record over consecutive windows vs. what the semantic promises (DOC_INCLUDES), with
        the clause of the property that a wrong count breaks. `bvals`: the bounds as read in the column's kind."""
        out = []
        kind = case['kind']
        sem = spec_sem(case['once'])
        dom = DOM[kind]
        wins: list = []
        if open_lo:
            wins.append((None, bvals[0] if bvals else None))
        wins += list(zip(bvals, bvals[1:]))
        if open_hi and bvals:
            wins.append((bvals[-1], None))
        if len(wins) != len(rows):
            raise fw.MachineryError(f'oracle: {len(wins)} windows but {len(rows)} results in {case}')
        kept = set(self._kept(case))
        for rid, p in enumerate(case['data']):
            v = dom[p]
            count = sum(1 for r in rows if rid in r) if all(r.count(rid) <= 1 for r in rows) else 99
            if rid not in kept:
                if count:
                    out.append((f'record {rid} excluded by the base statement was delivered {count} times',
                                'base-filter-lost', {'rid': rid, 'count': count}))
                continue
            if not bvals:
                pos = 'inside-nonbound'
            else:
                below = not open_lo and v < bvals[0]
                above = not open_hi and v > bvals[-1]
                if below or above:
                    pos = 'outside'
                elif v not in bvals:
                    pos = 'inside-nonbound'
                elif v == bvals[0] and not open_lo:
                    pos = 'first-bound'
                elif v == bvals[-1] and not open_hi:
                    pos = 'last-bound'
                else:
                    pos = 'interior-bound'
            want = doc_count(sem, v, wins)
            if count == want:
                continue
            if count == 99:
                clause = 'one launch delivered the record more than once'
            elif pos == 'outside':
                clause = 'a record outside the requested range was delivered'
            elif pos == 'inside-nonbound':
                clause = 'only records whose ordinal equals a bound may be duplicated or dropped'
            elif sem == 'atmost' and count > 1:
                clause = 'never twice under at-most-once'
            elif sem == 'atleast' and count == 0:
                clause = 'never zero times under at-least-once'
            elif sem == 'exactly' and pos == 'interior-bound':
                clause = 'exactly once under exactly-once'
            else:
                inc = DOC_INCLUDES[sem]
                clause = (f'{sem} promises to {"include" if inc[0] else "leave out"} the lower and to '
                          f'{"include" if inc[1] else "leave out"} the upper bound')
            out.append((f'{kind} ordinal, {sem}: record with ordinal {v!r} ({pos}) delivered {count} times instead of {want} '
                        f'over bounds {bvals!r} (as read in the column kind; given as {self._given(case)}) '
                        f'open={open_lo, open_hi} [{clause}]', f'{sem}:{pos}:delivered-{count}',
                        {'rid': rid, 'count': count, 'want': want, 'pos': pos}))
        return out

    @staticmethod
    def _given(case: dict) -> str:
        kind = case['kind']
        if case.get('chain'):
            bs = [case['tag0']] + case['uppers']
            return repr([None if b is None else value(kind, *b) for b in bs])
        return repr([[None if b is None else value(kind, *b) for b in w] for w in case['windows']])

    # ---- incremental training (window chaining through the training tag) --------------------------
    @staticmethod
    def _persisted(case: dict) -> dict:
        """Mark a training history as one whose tags go through the registry.  A `pandas.Timestamp` recorded as a tag's
        ordinal is written as its `repr` (toml's fallback for unknown types) and reads back as that string — a matter of
        tag persistence (C18), not of windows: such ordinals are recorded as the plain `datetime` of the same instant."""
        # (likewise a numpy.float64: written as 'np.float64(...)')
        nat = lambda b: None if b is None else [b[0], 'native' if b[1] in ('pdts', 'npfloat') else b[1]]  # noqa: E731
        case.update(persist=True, tag0=nat(case['tag0']), uppers=[nat(u) for u in case['uppers']])
        return case

    def _chain_cases(self) -> list[dict]:
        rng = self.rng
        cases = []
        full = list(range(NPT))
        pool = [full, full + full] + [self._data() for _ in range(2)]
        for kind in E2E_KINDS:
            for sem in ('exactly', 'atmost', 'atleast'):
                cases.append({'chain': True, 'kind': kind, 'once': sem, 'ordinal': True, 'tag0': None,
                              'uppers': [[1, 'native'], [2, 'native'], [4, 'native'], [5, 'native']], 'data': full + full})
                cases.append({'chain': True, 'kind': kind, 'once': sem, 'ordinal': True, 'tag0': [0, 'native'],
                              'uppers': [[2, 'native'], [3, 'native']], 'data': full})
                # the same through the registry, the caching feed and a shipped driver; every non-native spelling recorded
                cases.append({'chain': True, 'kind': kind, 'once': sem, 'ordinal': True, 'tag0': None, 'persist': True,
                              'feed': 'alchemy', 'ship': 'builder',
                              'uppers': [[1, 'native'], [2, 'native'], [4, 'native'], [5, 'native']], 'data': full})
                cases.append({'chain': True, 'kind': kind, 'once': sem, 'member': True, 'ordinal': True, 'persist': True,
                              'tag0': [0, 'native'], 'uppers': [[2, 'native'], [3, 'native']], 'data': full})
            for form in sorted({f for p in range(NPT) for f in forms(kind, p)} - {'native', 'pdts', 'npfloat'}):
                elig = [p for p in range(NPT) if form in forms(kind, p)]
                if len(elig) >= 3:
                    cases.append({'chain': True, 'kind': kind, 'once': 'atleast', 'ordinal': True, 'persist': True,
                                  'tag0': [elig[0], form], 'uppers': [[elig[1], form], [elig[-1], form]], 'data': full})
        falsy = {'integer': 2, 'float': 2, 'string': 0}
        for kind, p in falsy.items():  # a falsy ordinal recorded in the tag must still be honoured
            for sem in ('exactly', 'atmost', 'atleast'):
                cases.append({'chain': True, 'kind': kind, 'once': sem, 'ordinal': True, 'tag0': None,
                              'uppers': [[p, 'native'], [p + 2, 'native']], 'data': full})
                cases.append({'chain': True, 'kind': kind, 'once': sem, 'ordinal': True, 'tag0': [p, 'native'],
                              'uppers': [[p + 1, 'native'], [p + 3, 'native']], 'data': full})
        for _ in range(self.n(200, 2500)):
            kind = rng.choice(E2E_KINDS)
            pts = sorted(rng.sample(range(NPT), rng.randint(1, 6)))
            bad = 0.3 if rng.random() < 0.08 and bad_forms(kind) else 0.0

            def spell(p):
                if bad and rng.random() < bad:
                    return [p, rng.choice(bad_forms(kind))]
                return [p, rng.choice(forms(kind, p) if rng.random() < 0.5 else ['native'])]

            tag0 = spell(pts[0]) if len(pts) > 1 and rng.random() < 0.35 else None
            uppers = [spell(q) for q in (pts[1:] if tag0 is not None else pts)]
            case = {'chain': True, 'kind': kind, 'ordinal': True, 'tag0': tag0, 'uppers': uppers}
            self._transport(case, rng.choice(['exactly', 'atmost', 'atleast']), pool, p_feed=0.2)
            if rng.random() < 0.5:
                self._persisted(case)
            cases.append(case)
        # no ordinal: the very first training (upper bound given) must be refused
        for kind in E2E_KINDS:
            cases.append({'chain': True, 'kind': kind, 'once': None, 'ordinal': False, 'tag0': None,
                          'uppers': [[falsy.get(kind, 3), 'native'], [5, 'native']], 'data': full})
        return cases

    def _runner_cls(self):
        from forml import runtime

        if not hasattr(self, '_runner'):
            class Runner(runtime.Runner):
                @classmethod
                def run(cls, symbols, **kwargs):
                    raise AssertionError('not reached')

            self._runner = Runner
        return self._runner

    def _run_chain(self, case: dict, fresh: bool = False):
        """Real `Runner.train(upper=u)` per training on an instance double whose tag is a real `asset.Tag`; the ordinal of
        the tag the next training starts from is recorded with the real `tag.training.replace(ordinal=u)`; what the
        runner hands to `Feed.load` is then really loaded (feed -> source operator -> train driver -> SQLite).
        -> ['ok', [lower seen per training as [class, pt] | None], [[rid…] per training]] | ['error', ExcName]"""
        from forml.io import asset

        class Stop(Exception):
            pass

        kind = case['kind']
        env = self.env(kind, case.get('feed'))
        env.load(case['data'], fresh)
        try:
            source = env.source(case['ordinal'], self._once_value(case), case.get('base'))
        except Exception as e:  # pylint: disable=broad-except
            return ['error', exc_name(e)]
        seen: list = []

        class Feed:
            def load(self, extract, lower=None, upper=None):  # pylint: disable=no-self-use
                seen.append((extract, lower, upper))
                raise Stop()

        # `persist`: every tag is committed to a real registry (posix provider under the private home: `Tag.dumps` ->
        # file -> `Tag.loads`) and the training that follows starts from the tag *read back*, as a launch of its own does
        commit = self._committer() if case.get('persist') else (lambda t: t)
        # a tag carries training attributes only once it has a training timestamp (`Tag.__new__` drops a falsy mode)
        stamp = TS(2020, 1, 1)
        tag = asset.Tag()
        tagspec = case['tag0']
        if tagspec is not None:
            tag = tag.training.trigger(stamp).training.replace(ordinal=value(kind, *tagspec))
            if tag.training.ordinal is None:
                raise fw.MachineryError('Tag double lost the ordinal')
            tag = commit(tag)  # whatever the registry makes of it is what the first training starts from
        lowers, rows = [], []
        for u in case['uppers']:
            upper = value(kind, *u)
            inst = types.SimpleNamespace(
                tag=tag, project=types.SimpleNamespace(pipeline=None, source=types.SimpleNamespace(extract=source.extract,
                                                                                                   transform=None)),
                state=lambda *a, **k: None)
            del seen[:]
            try:
                self._runner_cls()(inst, Feed(), None).train(upper=upper)
            except Stop:
                pass
            if len(seen) != 1 or seen[0][0] is not source.extract:
                raise fw.MachineryError(f'Runner.train double: feed saw {seen}')
            given = upper
            lower, upper = seen[0][1], seen[0][2]  # what the runner really asks the feed for
            # compared with the model by the point the bound denotes in the column's kind (its Python class is mechanism: a
            # Decimal recorded in a tag reads back as an int or a float)
            lowers.append(None if lower is None else self._describe(kind, lower)[1:])
            try:
                rows.append(env.launch(source, lower, upper, 'train', case.get('ship')))
            except fw.MachineryError:
                raise
            except Exception as e:  # pylint: disable=broad-except
                return ['error', exc_name(e)]
            # what `Runner.train` does to the tag (`trigger`), then the caller records how far this training got
            tag = commit(tag.training.trigger(stamp).training.replace(ordinal=given))
            tagspec = u
        return ['ok', lowers, rows]

    @staticmethod
    def _describe(kind: str, v) -> list:
        """[value class, domain point denoted in the column's kind | 'unknown'] of a bound as the feed was given it"""
        try:
            pt = DOM[kind].index(spec_cast(kind, v))
        except Exception:  # pylint: disable=broad-except
            pt = 'unknown'
        return [pyclass(v, 'badstr' if isinstance(v, str) and pt == 'unknown' else 'native'), pt]

    def _committer(self):
        """-> commit(tag): write the tag as the next generation of a project of its own in a posix registry under the
        private home, return it as read back (what `asset.Instance.tag` of the next launch is)."""
        from forml.io import asset
        from forml.provider.registry.filesystem import posix

        if not hasattr(self, '_registry'):
            self._registry = posix.Registry(os.path.join(self._home, 'registry'))
            self._projects = 0
        self._projects += 1
        project, release = asset.Project.Key(f'c10-{self._projects}'), asset.Release.Key('1')
        generation = [0]

        def commit(tag):
            generation[0] += 1
            key = asset.Generation.Key(generation[0])
            self._registry.close(project, release, key, tag)
            return self._registry.open(project, release, key)

        return commit

    def _oracle_chain(self, case: dict, impl) -> list:
        kind = case['kind']
        tag0, uppers = case['tag0'], case['uppers']
        bad = any(b is not None and b[1] in BAD_FORMS for b in [tag0] + uppers)
        if not case['ordinal']:
            if impl != ['error', 'UnexpectedError']:
                fal = not value(kind, *uppers[0])
                return [(f'training with upper bound {value(kind, *uppers[0])!r} on a source without an ordinal was not refused '
                         f'({impl})', 'bound-without-ordinal-not-refused:' + ('falsy' if fal else 'truthy'), {})]
            return []
        if impl[0] == 'error':
            return [] if bad else [(f'incremental training with well-formed bounds refused with {impl[1]}',
                                    f'valid-bound-refused:{impl[1]}', {})]
        if bad:
            return [('incremental training accepted an uncastable bound', 'uncastable-bound-accepted', {})]
        out = []
        for k, (got, spec) in enumerate(zip(impl[1], [tag0] + uppers[:-1])):
            # the lower bound denotes (in the column's kind) the ordinal recorded with the generation the training started from
            if (None if got is None else got[0]) != (None if spec is None else spec[0]):
                tagval = None if spec is None else value(kind, *spec)
                out.append((f'training {k} (no explicit lower bound) extracted from lower={got} although the tag it started '
                            f'from records ordinal {tagval!r}', 'chain-lower-not-tag-ordinal:' +
                            ('none' if spec is None else 'truthy' if tagval else 'falsy'), {'training': k}))
        if out:
            return out
        bvals = [bound_value(kind, b) for b in ([tag0] if tag0 is not None else []) + uppers]
        return self._oracle_counts(case, bvals, tag0 is None, False, impl[2])

    def _e2e(self):
        cases = self._e2e_cases()
        answers = self.model([self._model_line(c) for c in cases])
        shrunk: set[str] = set()
        deferred: list = []
        self._cached_log: dict[tuple, list] = {}
        for case, ans in zip(cases, answers):
            if case.get('feed') == 'alchemy':
                self._cached_log.setdefault((case['kind'], tuple(case['data'])), []).append(case)
            impl = self._run_e2e(case)
            mod = self._model_answer(case, ans)
            semname = spec_sem(case['once']) if case['ordinal'] else 'no-ordinal'
            if case.get('chain'):
                shape = (f"chain {case['kind']} {semname} {'committed-tags ' if case.get('persist') else ''}"
                         f"{'cached-feed ' if case.get('feed') == 'alchemy' else ''}"
                         f"{'shipped=' + case['ship'] + ' ' if case.get('ship') else ''}{'member ' if case.get('member') else ''}"
                         f"trainings={min(len(case['uppers']), 4)}{'+' if len(case['uppers']) > 4 else ''}")
                delivered = {rid for r in impl[2] for rid in r} if impl[0] == 'ok' else set()
                key = ('chain', case['kind'], semname, repr(case['tag0']), repr(case['uppers']), tuple(case['data']),
                       bool(case.get('persist')), case.get('feed'), case.get('ship'), bool(case.get('member')))
            else:
                nwin = len(case['windows'])
                shape = (f"e2e {case['kind']} {semname} {'malformed ' if case.get('malformed') else ''}"
                         f"{'base=' + case['base'][0] + ' ' if case.get('base') else ''}"
                         f"{'apply-stmt ' if case.get('apply_base') else ''}"
                         f"{'cached-feed ' if case.get('feed') == 'alchemy' else ''}"
                         f"{'shipped=' + case['ship'] + ' ' if case.get('ship') else ''}"
                         f"{'member ' if case.get('member') else ''}"
                         f"windows={min(nwin, 4)}{'+' if nwin > 4 else ''}")
                delivered = ({rid for r in impl if isinstance(r, list) and r[0] == 'ok' for rid in r[1:]}
                             if isinstance(impl, list) else set())
                key = (case['kind'], semname, case['ordinal'], repr(case['windows']), tuple(case['data']), repr(case.get('base')),
                       repr(case.get('apply_base')), case.get('feed'), case.get('ship'), bool(case.get('member')),
                       case.get('mode'))
            self.case(key, shape, nontrivial=0 < len(delivered) < len(case['data']) or not case['ordinal'],
                      sample={'case': case, 'delivered': impl})
            if impl != mod:
                self.diverge('windows delivered by the real extraction differ from the model', case, impl, mod)
            for what, sig, detail in self._oracle_e2e(case, impl):
                if sig in shrunk:  # one minimised witness per root cause is enough
                    continue
                shrunk.add(sig)
                if case.get('feed') == 'alchemy' and not self._fails(case, sig):
                    deferred.append((case, what, sig, detail))  # needs the feed's earlier history: looked for at the end
                elif len(self.violations) < self.MAX_E2E_REPORTS:
                    self._report(case, what, sig, detail)
        for case, what, sig, detail in deferred:
            if len(self.violations) < self.MAX_E2E_REPORTS and not (self.violations and time.time() > self._deadline()):
                self._report(case, what, sig, detail, single=False)

    #: distinct end-to-end signatures that are turned into minimised witnesses in one run (further ones repeat the story)
    MAX_E2E_REPORTS = 8

    def _report(self, case: dict, what: str, sig: str, detail=None, single: bool = True) -> None:
        """Turn a violation seen on `case` into one with a self-contained, minimised failing input."""
        small = self._witness(case, sig, single)
        if small is None:  # seen once, not reproduced from empty caches: report what was seen, with the input as it was
            self.violate(what + ' [seen in the running history of the feed; not reproduced from empty result caches]',
                         {'kind': 'e2e', 'case': case}, sig, detail)
            return
        self.violate(what if small is case else self._oracle_first(small, sig) or what, {'kind': 'e2e', 'case': small}, sig,
                     detail if small is case else None)

    def _oracle_first(self, case, sig):
        for what, s, _ in self._oracle_e2e(case, self._run_e2e(case, fresh=True)):
            if s == sig:
                return what
        return None

    def _fails(self, case, sig) -> bool:
        """Does the case — started from empty result caches — break the property with this signature?"""
        return any(s == sig for _, s, _ in self._oracle_e2e(case, self._run_e2e(case, fresh=True)))

    def _deadline(self) -> float:
        """Wall-clock limit for minimising witnesses (all of them together): beyond it failing inputs are reported as found."""
        if not hasattr(self, '_shrink_until'):
            self._shrink_until = time.time() + (20 if self.quick else 120)
        return self._shrink_until

    def _witness(self, case: dict, sig: str, single: bool = True) -> typing.Optional[dict]:
        """A self-contained failing input for a violation seen on `case`: the case itself if it fails when started from
        empty caches; otherwise (the feed's caches carried something over from an earlier launch sequence against the
        same storage) that earlier sequence followed by the case — the latest single predecessor that suffices, else
        the whole history."""
        if single and self._fails(case, sig):
            return self._shrink(case, sig)
        history = self._cached_log.get((case['kind'], tuple(case['data'])), [])
        if any(c is case for c in history):
            history = history[:[c is case for c in history].index(True)]
        for prev in reversed(history[-16:]):
            if time.time() > self._deadline() + 8:
                break
            session = {'session': [prev, case]}
            if self._fails(session, sig):
                return self._shrink(session, sig)
        session = {'session': history + [case]}
        if history and self._fails(session, sig):
            return session
        return None

    @staticmethod
    def _drop_record(case: dict, i: int) -> dict:
        out = {**case, 'data': case['data'][:i] + case['data'][i + 1:]}
        for opt in ('base', 'apply_base'):
            base = case.get(opt)
            if base and base[0] == 'ne':
                out[opt] = None if base[1] == i else ['ne', base[1] - (1 if i < base[1] else 0)]
        return out

    def _cands(self, best: dict) -> list[dict]:
        """Smaller neighbours of a failing case: fewer launch sequences, fewer records, plain transport (no round trip,
        plain reader, spelling instead of member), fewer windows/trainings, native spellings."""
        if best.get('session'):
            subs = best['session']
            out = []
            if len(subs) > 1:
                for i in range(len(subs)):
                    rest = subs[:i] + subs[i + 1:]
                    out.append(rest[0] if len(rest) == 1 else {'session': rest})
            for i in range(len(subs[0]['data'])):
                out.append({'session': [self._drop_record(c, i) for c in subs]})
            for j, sub in enumerate(subs):
                out += [{'session': subs[:j] + [c] + subs[j + 1:]} for c in self._cands(sub)
                        if not c.get('session') and c['data'] == sub['data'] and c.get('feed') == sub.get('feed')]
            return out
        cands = []
        for i in range(len(best['data'])):
            cands.append(self._drop_record(best, i))
        if best.get('base'):
            cands.append({**best, 'base': None})
        for opt in ('apply_base', 'ship', 'feed', 'member', 'persist'):
            if best.get(opt):
                cands.append({k: v for k, v in best.items() if k != opt})
        if best.get('chain'):
            if len(best['uppers']) > 1:
                cands.append({**best, 'uppers': best['uppers'][:-1]})
                cands.append({**best, 'tag0': best['uppers'][0], 'uppers': best['uppers'][1:]})
                if best['tag0'] is None:
                    cands.append({**best, 'uppers': best['uppers'][1:]})
            nat = lambda b: None if b is None else [b[0], 'native' if b[1] not in BAD_FORMS else b[1]]  # noqa: E731
            native = {**best, 'tag0': nat(best['tag0']), 'uppers': [nat(u) for u in best['uppers']]}
            if native != best:
                cands.append(native)
        else:
            if len(best['windows']) > 1:
                cands.append({**best, 'windows': best['windows'][1:]})
                cands.append({**best, 'windows': best['windows'][:-1]})
                if len(best['windows']) > 2:
                    cands += [{**best, 'windows': best['windows'][:i] + best['windows'][i + 1:]}
                              for i in range(1, len(best['windows']) - 1)]
            native = [[None if b is None else [b[0], 'native' if b[1] not in BAD_FORMS else b[1]] for b in w]
                      for w in best['windows']]
            if native != best['windows']:
                cands.append({**best, 'windows': native})
        return cands

    def _shrink(self, case: dict, sig: str) -> dict:
        """Greedy descent over `_cands` (every candidate is run from empty caches)."""
        best = case
        budget = 80
        changed = True
        while changed and budget > 0 and time.time() < self._deadline():
            changed = False
            for c in self._cands(best):
                budget -= 1
                if budget <= 0 or time.time() > self._deadline():
                    break
                if self._fails(c, sig):
                    best, changed = c, True
                    break
        return best

    # ---- unit level --------------------------------------------------------------------------
    def _unit_once(self):
        from forml import project
        from forml.io import dsl

        col = dsl.Table(dsl.Schema.from_fields(dsl.Field(dsl.Integer(), name='o'), title='C10once')).o
        _, aliases = live_once_table()
        spellings: list = [None, '']
        for s, _ in aliases:
            spellings += [s, s.upper(), s.title(), ''.join(c.upper() if self.rng.random() < 0.5 else c for c in s)]
        spellings += BAD_SPELLINGS + [b.upper() for b in BAD_SPELLINGS]
        for _ in range(self.n(20, 200)):
            s = self.rng.choice([a for a, _ in aliases])
            i = self.rng.randrange(len(s) + 1)
            spellings.append(s[:i] + self.rng.choice('-_ ') + s[i:])
        enc = [None if s is None else ['s', s] for s in spellings]
        answers = self.model([sexp.dumps(['once', e]) for e in enc] +
                             [sexp.dumps(['extract', o, e]) for e in enc for o in (True, False)])
        it = iter(answers)
        for s in spellings:
            try:
                impl = ['ok', repr(project.Source.Extract.Ordinal(col, s).once)]
            except Exception as e:  # pylint: disable=broad-except
                impl = ['error', exc_name(e)]
            mod = sexp.loads(next(it))
            self.case(('once', s), 'unit once-spelling', nontrivial=bool(s))
            if impl != mod:
                self.diverge('Ordinal.Once spelling', {'once': s}, impl, mod)
            # oracle: a documented spelling must resolve to the semantic it names
            try:
                want = spec_sem(s)
            except ValueError:
                want = None
            known = s is None or s == '' or s.lower() in {a for a, _ in aliases}
            if known and impl != ['ok', want]:
                self.violate(f'spelling {s!r} resolved to {impl}, names {want}', {'kind': 'once', 'once': s},
                             'once-spelling-misresolved')
        tbl = dsl.Table(dsl.Schema.from_fields(dsl.Field(dsl.Integer(), name='rid'), dsl.Field(dsl.Integer(), name='o'),
                                               title='C10extract'))
        for s in spellings:
            for has in (True, False):
                try:
                    o = project.Source.query(tbl.select(tbl.rid), ordinal=tbl.o if has else None, once=s).extract.ordinal
                    impl = ['ok', 'none' if o is None else repr(o.once)]
                except Exception as e:  # pylint: disable=broad-except
                    impl = ['error', exc_name(e)]
                mod = sexp.loads(next(it))
                self.case(('extract', has, s), 'unit extract-ordinal', nontrivial=bool(s))
                if impl != mod:
                    self.diverge('Extract ordinal/once', {'ordinal': has, 'once': s}, impl, mod)
        self._unit_reconstruct(col, [s for s in spellings if s is not None])

    RECONSTRUCT = ('cloudpickle', 'copy', 'deepcopy')

    def _run_reconstruct(self, col, once, member: bool, how: str):
        """`Ordinal(col, once)` and the same object after a round trip -> ['ok', semantic, semantic after, column kept] |
        ['error', Exc]; `member`: `once` names the enum member to hand over instead of a spelling."""
        from forml import project

        try:
            o = project.Source.Extract.Ordinal(col, live_member(once) if member else once)
        except Exception as e:  # pylint: disable=broad-except
            return ['error', exc_name(e)]
        try:
            o2 = roundtrip(o, how)
        except Exception as e:  # pylint: disable=broad-except
            return ['ok', repr(o.once), 'error:' + exc_name(e), True]
        return ['ok', repr(o.once), repr(o2.once), bool(o2.column == o.column) and type(o2) is type(o)]

    @staticmethod
    def _oracle_reconstruct(once, member: bool, how: str, impl) -> typing.Optional[fw.Violation]:
        """A copy of the ordinal specs (what a worker process, a deep-copied project descriptor, ... works with) names the
        same semantic and the same column as the original."""
        if impl[0] != 'ok' or (impl[1] == impl[2] and impl[3]):
            return None
        given = f'the enum member {once}' if member else f'once={once!r}'
        what = (f'Ordinal specs built from {given} name the semantic {impl[1]}; after a {how} round trip they name {impl[2]}'
                if impl[1] != impl[2] else f'Ordinal specs built from {given}: the column changed in a {how} round trip')
        return fw.Violation(what, {'kind': 'reconstruct', 'once': once, 'member': member, 'how': how},
                            f'reconstruction-changes-semantic:{impl[1]}->{impl[2]}' if impl[1] != impl[2]
                            else 'reconstruction-changes-column')

    def _unit_reconstruct(self, col, spellings: list):
        args = [(None, False)] + [(s, False) for s in spellings] + [(m, True) for m, _, _ in live_once_table()[0]]
        enc = [None if o is None else ['m', o] if mem else ['s', o] for o, mem in args]
        answers = self.model([sexp.dumps(['ordinal', e]) for e in enc])
        for (once, mem), ans in zip(args, answers):
            mod = sexp.loads(ans)
            for how in self.RECONSTRUCT:
                impl = self._run_reconstruct(col, once, mem, how)
                self.case(('reconstruct', once, mem, how), 'unit ordinal reconstruct', nontrivial=bool(once))
                if impl[:3] != mod:
                    self.diverge(f'Ordinal construction / reconstruction ({how})', {'once': once, 'member': mem, 'how': how},
                                 impl[:3], mod)
                v = self._oracle_reconstruct(once, mem, how, impl)
                if v and v.signature not in {x.signature for x in self.violations}:
                    self.violations.append(v)

    CAST_SAMPLES = {
        'bool': [True, False],
        'int': [0, 3, -2],
        'float': [0.0, 2.0, -1.0, 2.5],
        'decimal': [DEC('2'), DEC('2.5'), DEC('0')],
        'strGood': {'integer': ['7', '-3', '0'], 'float': ['2.5', '0', '1e0'], 'string': ['x', ''],
                    'date': ['2020-02-29', '2020-02-29T00:00:00'], 'timestamp': ['2020-02-29 12:00:00', '2020-02-29']},
        'strBad': {'integer': ['x1', '1.5x'], 'float': ['x1'], 'string': ['x1'], 'date': ['x1'], 'timestamp': ['x1']},
        'date': [D(2020, 2, 29)],
        'datetime': [TS(2020, 2, 29, 12), TS(2020, 2, 29)],
    }

    def _unit_cast(self):
        triples = [(kind, cls, v) for kind in KINDS for cls, samples in self.CAST_SAMPLES.items()
                   for v in (samples[kind] if isinstance(samples, dict) else samples)]
        answers = self.model([sexp.dumps(['cast', kind, cls]) for kind, cls, _ in triples])
        for (kind, cls, v), mod in zip(triples, answers):
            dk = self.env(kind).dslkind
            try:
                r = dk.cast(v)
                impl = 'same' if r is v else 'conv'
            except Exception as e:  # pylint: disable=broad-except
                impl, r = exc_name(e), None
            self.case(('cast', kind, cls, repr(v)), f'unit cast {kind}', nontrivial=True)
            if impl != mod:
                self.diverge('kind.cast outcome class', {'kind': kind, 'class': cls, 'value': repr(v)}, impl, mod)
            if impl in ('same', 'conv') and not isinstance(r, type(dk).__type__):
                self.violate(f'{kind}.cast({v!r}) returned {r!r} which is not of the kind\'s type',
                             {'kind': 'cast', 'ordinal_kind': kind, 'value': repr(v)}, 'cast-result-not-in-kind')
        for kind in E2E_KINDS:
            dk = self.env(kind).dslkind
            # the denotation of every well-formed spelling is the domain point
            for p in range(NPT):
                for form in forms(kind, p):
                    r = dk.cast(value(kind, p, form))
                    self.case(('denote', kind, p, form), f'unit cast {kind}', nontrivial=True)
                    if bound_value(kind, [p, form]) != DOM[kind][p]:
                        raise fw.MachineryError(f'spelling {form} of {kind} point {p} does not denote the point')
                    if not r == DOM[kind][p]:
                        self.violate(f'{kind}.cast({value(kind, p, form)!r}) = {r!r}, expected {DOM[kind][p]!r}',
                                     {'kind': 'cast', 'ordinal_kind': kind, 'value': repr(value(kind, p, form))},
                                     'cast-changes-value')

    # ---- kind.cast at the level of values: every Python type the interfaces deliver x representation edges ---------
    INT_EDGES = [0, 1, -1, 7, 2 ** 31, 2 ** 53 - 1, 2 ** 53, 2 ** 53 + 1, 2 ** 53 + 2, 2 ** 53 + 3, -(2 ** 53) - 1, 10 ** 15 + 1,
                 10 ** 18, 10 ** 18 + 1, -(10 ** 18) - 1, 2 ** 63 - 1, -(2 ** 63), 2 ** 63, 2 ** 63 + 1, -(2 ** 63) - 1, 2 ** 64 + 1,
                 10 ** 30 + 7, 999999999999999999999]

    @staticmethod
    def _enc_value(v) -> dict:
        """JSON-able, exact encoding of a bound value (for witnesses)."""
        t = type(v)
        name = t.__name__ if t.__module__ in ('builtins', 'decimal', 'datetime') else f'{t.__module__}.{t.__name__}'
        if isinstance(v, (datetime.date, datetime.datetime)) and t.__module__ == 'datetime':
            return {'type': name, 'text': v.isoformat()}
        return {'type': name, 'text': v if isinstance(v, str) else repr(v) if isinstance(v, float) and t is float else str(v)}

    @staticmethod
    def _dec_value(e: dict):
        import numpy
        import pandas

        t, x = e['type'], e['text']
        if t == 'str':
            return x
        if t in ('int', 'float'):
            return {'int': int, 'float': float}[t](x)
        if t == 'bool':
            return x == 'True'
        if t == 'Decimal':
            return DEC(x)
        if t == 'date':
            return D.fromisoformat(x)
        if t == 'datetime':
            return TS.fromisoformat(x)
        if t.startswith('numpy.'):
            return getattr(numpy, t.split('.')[1])(x)
        if t.endswith('Timestamp'):
            return pandas.Timestamp(x)
        raise fw.MachineryError(f'cannot decode {e}')

    def _int_table(self) -> list:
        """values handed to `Integer.cast`: str (the CLI path), int, Decimal, float, numpy scalars, at the edges"""
        import numpy

        rng = self.rng
        ns = list(self.INT_EDGES) + [-n for n in self.INT_EDGES if n > 0]
        ns += [rng.getrandbits(rng.randint(50, 100)) * rng.choice([1, -1]) for _ in range(self.n(40, 400))]
        ns += [2 ** 53 + rng.randrange(-50, 50) for _ in range(self.n(20, 200))]
        out = []
        for n in ns:
            out += [n, str(n), DEC(n)]
            if n >= 0:
                out.append('+' + str(n))
            if -2 ** 63 <= n < 2 ** 63:
                out.append(numpy.int64(n))
            if float(n) == n and abs(n) < 2 ** 1000:
                out += [float(n), numpy.float64(n)]
            out.append(DEC(str(n) + '.5'))
            if abs(n) < 2 ** 51:
                out.append(n + 0.5 if n >= 0 else n - 0.5)
        out += [True, False, '1e6', '10.0', '2.7', '', '-', '+', 'x1', '0x10', '1.5x', ' 12 ', '1_000', '00012', '-0', D(2020, 1, 1),
                1e300, -2.5, 2.5, DEC('-2.5'), DEC('1E+20'), numpy.float32(3.0), numpy.int32(-5), numpy.uint64(2 ** 63 + 5)]
        return out

    @staticmethod
    def _int_model_form(v):
        """protocol form of a value for the model's `icast`, or None when the model has no word for it (spellings outside
        the canonical `[+-]?digits`: judged by the oracle only)"""
        if isinstance(v, numbers.Integral):
            return ['int', int(v)]
        if isinstance(v, str):
            return ['str', v] if re.fullmatch(r'[+-]?\d*', v) or not re.fullmatch(r'\s*[+-]?[\d_]+\s*', v) else None
        if isinstance(v, (numbers.Real, decimal.Decimal)) and hasattr(v, 'as_integer_ratio'):  # float, Decimal, numpy floats
            if not math.isfinite(v):
                return None
            num, den = v.as_integer_ratio()
            return ['ratio', int(num), int(den)]
        return 'other'

    def _run_cast(self, kind: str, v):
        """-> ('ok', value as forml cast it) | ('error', ExcName)"""
        try:
            return ('ok', dsl_kind(kind).cast(v))
        except Exception as e:  # pylint: disable=broad-except
            return ('error', exc_name(e))

    def _oracle_castvalue(self, kind: str, v, impl) -> typing.Optional[fw.Violation]:
        """'Bounds are interpreted in the ordinal column's kind': what the cast hands on denotes the value that was
        written — the same integer / the nearest double / the same day / the same instant; a spelling that plainly writes a
        value of the kind is not refused.  Spellings that write no value of the kind may be refused or accepted."""
        import pandas

        try:
            if kind == 'integer':
                want = spec_int(v)
            elif kind == 'float':
                want = spec_float(v)
            else:
                if isinstance(v, str):
                    t = TS.fromisoformat(v)
                elif isinstance(v, datetime.datetime):
                    t = v.to_pydatetime() if hasattr(v, 'to_pydatetime') else v
                elif isinstance(v, datetime.date):
                    t = TS(v.year, v.month, v.day)
                elif hasattr(v, 'astype'):  # numpy.datetime64
                    t = TS.fromisoformat(str(v.astype('datetime64[us]')))
                else:
                    return None
                want = t.date() if kind == 'date' else t
        except fw.MachineryError:
            raise
        except Exception:  # pylint: disable=broad-except
            return None  # the spelling writes no value of the kind: nothing is demanded
        witness = {'kind': 'castvalue', 'ordinal_kind': kind, 'value': self._enc_value(v)}
        if impl[0] == 'error':
            plain = (isinstance(v, str) and re.fullmatch(r'[+-]?\d+', v)) if kind == 'integer' else not isinstance(v, bool)
            if plain:
                return fw.Violation(f'{kind}.cast({v!r}) is refused with {impl[1]} although it writes {want!r}', witness,
                                    f'cast-refuses-valid:{kind}')
            return None
        got = impl[1]
        if kind == 'integer':
            same = isinstance(got, numbers.Integral) and int(got) == want
        elif kind == 'float':
            # an Integral given for a Float ordinal is a Real already: kept exactly, or read as the nearest double
            exact = fractions.Fraction(int(v)) if isinstance(v, numbers.Integral) else None
            same = isinstance(got, numbers.Real) and ((fractions.Fraction(got) in (fractions.Fraction(want), exact))
                                                      if math.isfinite(want) and math.isfinite(got) else float(got) == want)
        elif kind == 'date':
            same = (got.date() if isinstance(got, datetime.datetime) else got) == want
        else:
            a, b = pandas.Timestamp(got), pandas.Timestamp(want)
            same = (a == b) if (a.tzinfo is None) == (b.tzinfo is None) else False
        if same:
            return None
        return fw.Violation(f'{kind}.cast({v!r}) = {got!r}, but the bound written is {want!r} (bounds are interpreted in the '
                            f'ordinal column\'s kind: the value must survive the cast)', witness, f'cast-changes-value:{kind}')

    def _unit_cast_values(self):
        import numpy
        import pandas

        table = self._int_table()
        forms_ = [self._int_model_form(v) for v in table]
        answers = iter(self.model([sexp.dumps(['icast', f]) for f in forms_ if f is not None]))
        seen: set = set()
        for v, form in zip(table, forms_):
            impl = self._run_cast('integer', v)
            self.case(('castvalue', 'integer', type(v).__name__, str(v)), 'unit cast-value integer', nontrivial=True)
            if form is not None:
                m = sexp.loads(next(answers))
                mod = ('ok', int(m[1])) if isinstance(m, list) else ('error', m)
                cmp = ('ok', int(impl[1])) if impl[0] == 'ok' and isinstance(impl[1], numbers.Integral) else impl
                if cmp != mod:
                    self.diverge('Integer.cast of a value', {'value': self._enc_value(v)}, repr(impl), repr(mod))
            viol = self._oracle_castvalue('integer', v, impl)
            if viol and viol.signature not in seen:
                seen.add(viol.signature)
                self.violations.append(viol)
        # Float: long decimal strings, Decimals, big integers, numpy scalars
        fl = list(DOM['finefloat']) + [0.1, 0.2, 0.1 + 0.2, 1e22, 1e23, 5e-324, 2.2250738585072014e-308, 123456789.12345678]
        fl += [self.rng.uniform(-1, 1) * 10 ** self.rng.randint(-20, 20) for _ in range(self.n(30, 300))]
        ftable: list = []
        for x in fl:
            ftable += [x, repr(x), DEC(repr(x)), numpy.float64(x), format(DEC(repr(x)), 'f') if abs(x) > 1e-30 else repr(x)]
        ftable += ['0.1000000000000000055511151231257827', '9007199254740993', 2 ** 53 + 1, DEC(2 ** 53 + 1), '1e23', '0.30000000000000002',
                   '1_0.5', ' 2.5 ', numpy.float32(0.1), numpy.int64(3), 3]
        for v in ftable:
            impl = self._run_cast('float', v)
            self.case(('castvalue', 'float', type(v).__name__, str(v)), 'unit cast-value float', nontrivial=True)
            viol = self._oracle_castvalue('float', v, impl)
            if viol and viol.signature not in seen:
                seen.add(viol.signature)
                self.violations.append(viol)
        # Date / Timestamp: year boundaries, microseconds, other carriers of the same day / instant
        stamps = [TS(2020, 12, 31, 23, 59, 59, 999999), TS(2021, 1, 1), TS(2021, 1, 1, 0, 0, 0, 1), TS(1999, 12, 31, 23, 59, 59),
                  TS(2000, 2, 29, 12), TS(1970, 1, 1), TS(2038, 1, 19, 3, 14, 8), TS(1969, 12, 31, 23, 59, 59, 999999)]
        for t in stamps:
            for kind in ('date', 'timestamp'):
                vs = [t, t.isoformat(), t.isoformat(' '), pandas.Timestamp(t), numpy.datetime64(t), t.date(), t.date().isoformat()]
                if kind == 'timestamp':
                    vs += [t.isoformat() + '+01:00', pandas.Timestamp(t, tz='UTC')]
                for v in vs:
                    impl = self._run_cast(kind, v)
                    self.case(('castvalue', kind, type(v).__name__, str(v)), f'unit cast-value {kind}', nontrivial=True)
                    viol = self._oracle_castvalue(kind, v, impl)
                    if viol and viol.signature not in seen:
                        seen.add(viol.signature)
                        self.violations.append(viol)

    _CMP = {'GreaterEqual': 'ge', 'GreaterThan': 'gt', 'LessEqual': 'le', 'LessThan': 'lt', 'Equal': 'eq', 'NotEqual': 'ne'}

    def _terms(self, kind: str, pred) -> list:
        if pred is None:
            return []
        pred = getattr(pred, 'operable', pred)  # `col < x` alone is a lazy `Comparison.Pythonic` proxy
        name = type(pred).__name__
        if name == 'And':
            return self._terms(kind, pred.left) + self._terms(kind, pred.right)
        if name in self._CMP:
            val = pred.right.value
            pts = [i for i, d in enumerate(DOM[kind]) if d == val]
            return [[self._CMP[name], pts[0] if pts else f'unknown:{val!r}']]
        return [[f'unknown:{name}', 0]]

    def _unit_where(self):
        from forml import project

        once_enum = project.Source.Extract.Ordinal.Once
        cases = []
        for kind in KINDS:
            for member in once_enum:
                opts = [None] + [[p, f] for p in range(NPT) for f in forms(kind, p)] + \
                       [[3, f] for f in bad_forms(kind)]
                pairs = [(self.rng.choice(opts), self.rng.choice(opts)) for _ in range(self.n(25, 150))]
                pairs += [(None, None), (None, [2, 'native']), ([2, 'native'], None), ([2, 'native'], [2, 'native'])]
                cases += [(kind, member, lo, hi) for lo, hi in pairs]
        answers = self.model([sexp.dumps(['where', repr(m), k, raw_sexp(k, lo), raw_sexp(k, hi)]) for k, m, lo, hi in cases])
        for (kind, member, lo, hi), ans in zip(cases, answers):
            env = self.env(kind)
            ordinal = project.Source.Extract.Ordinal(env.table.o, member)
            try:
                pred = ordinal.where(None if lo is None else value(kind, *lo), None if hi is None else value(kind, *hi))
                impl = ['ok'] + sorted(self._terms(kind, pred), key=repr)
            except Exception as e:  # pylint: disable=broad-except
                impl = ['error', exc_name(e)]
            mod = sexp.num(sexp.loads(ans))
            if mod and mod[0] == 'ok':
                mod = ['ok'] + sorted(mod[1:], key=repr)  # the conjunction is commutative: compare the set of terms
            self.case(('where', kind, repr(member), repr(lo), repr(hi)), f'unit where {kind}',
                      nontrivial=lo is not None or hi is not None)
            if impl != mod:
                self.diverge('Ordinal.where terms', {'kind': kind, 'once': repr(member), 'lower': lo, 'upper': hi}, impl, mod)

    FALSY = [0, 0.0, '', False]
    TRUTHY = [1, -1, 2.5, 'a', '0', True, D(2020, 1, 1)]

    def _run_prepared(self, lower, upper):
        """`Statement.prepare(stmt, None, lower, upper)()` -> 'ok' (statement unchanged) | exception name."""
        from forml.io._input import extract

        stmt = self.env('integer').table.select(self.env('integer').table.rid)
        try:
            res = extract.Statement.prepare(stmt, None, lower, upper)()
        except Exception as e:  # pylint: disable=broad-except
            return exc_name(e)
        return 'ok' if res == stmt else 'changed'

    def _unit_prepared(self):
        vals = [None] + self.FALSY + self.TRUTHY
        cases = [(lo, hi) for lo in vals for hi in vals]

        def raw(v):
            return None if v is None else [pyclass(v), 0, bool(v)]

        answers = self.model([sexp.dumps(['windows', None, [[raw(lo), raw(hi)]], []]) for lo, hi in cases])
        for (lo, hi), ans in zip(cases, answers):
            impl = self._run_prepared(lo, hi)
            m = sexp.loads(ans)[0]
            mod = 'ok' if m[0] == 'ok' else m[1]
            self.case(('prepared', repr(lo), repr(hi)), 'unit prepared no-ordinal',
                      nontrivial=lo is not None or hi is not None)
            if impl != mod:
                self.diverge('Prepared.__call__ without ordinal', {'lower': repr(lo), 'upper': repr(hi)}, impl, mod)
            v = self._oracle_prepared(lo, hi, impl)
            if v:
                self.violations.append(v)

    @staticmethod
    def _oracle_prepared(lo, hi, impl) -> typing.Optional[fw.Violation]:
        given = [b for b in (lo, hi) if b is not None]
        if given and impl != 'UnexpectedError':
            fal = all(not b for b in given)
            return fw.Violation(f'bounds lower={lo!r} upper={hi!r} given to a source without an ordinal were not refused '
                                f'({impl})', {'kind': 'prepared', 'lower': _j(lo), 'upper': _j(hi)},
                                'bound-without-ordinal-not-refused:' + ('falsy' if fal else 'truthy'))
        if not given and impl != 'ok':
            return fw.Violation(f'no bounds, no ordinal: {impl}', {'kind': 'prepared', 'lower': None, 'upper': None},
                                'unbounded-launch-incomplete')
        return None

    def _run_train(self, lower, tag, method: str = 'train', upper=9, both: bool = False):
        """Real `Runner.train/apply(lower, upper)` up to `Feed.load`; returns the lower bound the feed was given (or the
        (lower, upper) pair)."""
        class Stop(Exception):
            pass

        seen = []

        class Feed:
            def load(self, extract, lower=None, upper=None):
                seen.append((lower, upper))
                raise Stop()

        Runner = self._runner_cls()
        src = self.env('integer').source(True, None)
        inst = types.SimpleNamespace(
            tag=types.SimpleNamespace(training=types.SimpleNamespace(ordinal=tag, trigger=lambda *a, **k: None)),
            project=types.SimpleNamespace(pipeline=None, source=types.SimpleNamespace(extract=src.extract, transform=None)),
            state=lambda *a, **k: None)
        try:
            getattr(Runner(inst, Feed(), None), method)(lower, upper)
        except Stop:
            pass
        if len(seen) != 1:
            raise fw.MachineryError(f'Runner.{method} double: feed saw {seen}')
        if both:
            return seen[0]
        if seen[0][1] is not upper:
            self.violate(f'Runner.{method}(lower={lower!r}, upper={upper!r}) loaded the feed with upper={seen[0][1]!r}',
                         {'kind': 'runner', 'method': method, 'lower': _j(lower), 'upper': _j(upper), 'tag': _j(tag)},
                         'runner-upper-changed:' + ('falsy' if not upper else 'truthy'))
        return seen[0][0]

    def _unit_train(self):
        lowers = [None] + self.FALSY + self.TRUTHY
        tags = [None, 5, 0, 'tag']

        def raw(v, pt):
            return None if v is None else [pyclass(v), pt, bool(v)]

        cases = [(lo, tag) for lo in lowers for tag in tags]
        answers = self.model([sexp.dumps(['train', raw(lo, 1), raw(tag, 2)]) for lo, tag in cases])
        for (lo, tag), ans in zip(cases, answers):
            got = self._run_train(lo, tag)
            impl = 'none' if got is None else 'lower' if got is lo and lo is not None else 'tag' if got is tag else 'other'
            m = sexp.num(sexp.loads(ans))
            mod = 'none' if m == 'none' else {1: 'lower', 2: 'tag'}[m[1]]
            self.case(('train', repr(lo), repr(tag)), 'unit train default-lower', nontrivial=lo is not None and tag is not None)
            if impl != mod:
                self.diverge('Runner.train lower bound passed to Feed.load', {'lower': repr(lo), 'tag': repr(tag)}, impl, mod)
            v = self._oracle_train(lo, tag, got)
            if v:
                self.violations.append(v)
            # apply never consults the tag
            got = self._run_train(lo, tag, 'apply')
            if got is not lo:
                self.violate(f'Runner.apply passed lower={got!r} for lower={lo!r}', {'kind': 'apply', 'lower': _j(lo)},
                             'apply-lower-changed')
        # the upper bound goes through unchanged, whatever its truth value
        for method in ('train', 'apply'):
            for up in [None] + self.FALSY + [9, 'z']:
                self._run_train(1, 5, method, upper=up)
                self.case(('runner-upper', method, repr(up)), 'unit runner upper', nontrivial=up is not None)

    @staticmethod
    def _oracle_train(lo, tag, got) -> typing.Optional[fw.Violation]:
        want = lo if lo is not None else tag
        if got is want or (got == want and type(got) is type(want)):
            return None
        sig = 'explicit-lower-replaced-by-tag:' + ('falsy' if not lo else 'truthy') if lo is not None else 'tag-default-missing'
        return fw.Violation(f'Runner.train(lower={lo!r}) with last training ordinal {tag!r} extracted from lower={got!r}',
                            {'kind': 'train', 'lower': _j(lo), 'tag': _j(tag)}, sig)

    # ---- launch sequences in processes of their own --------------------------------------------------
    def _xproc_cases(self) -> tuple[list, list]:
        """(window histories for the worker processes, histories for the interactive launcher with the dask runner)"""
        rng = self.rng
        full = list(range(NPT))
        closed = [[[1, 'native'], [2, 'native']], [[2, 'native'], [4, 'native']], [[4, 'native'], [5, 'native']]]
        cases = []
        for kind in E2E_KINDS:
            for sem in ('exactly', 'atmost', 'atleast'):
                cases.append({'kind': kind, 'once': sem, 'ordinal': True, 'open': [False, False], 'feed': 'alchemy',
                              'windows': closed, 'data': full, 'mode': rng.choice(['apply', 'train'])})
        pool = [full + full] + [self._data() for _ in range(2)]
        for _ in range(self.n(25, 150)):
            kind, sem = rng.choice(E2E_KINDS), rng.choice(['exactly', 'atmost', 'atleast'])
            bounds = sorted(rng.sample(range(NPT), rng.randint(1, NPT)))
            open_lo, open_hi = rng.random() < 0.4, rng.random() < 0.4
            case = {'kind': kind, 'ordinal': True, 'open': [open_lo, open_hi], 'mode': rng.choice(['apply', 'train']),
                    'windows': self._windows(kind, bounds, open_lo, open_hi)}
            self._transport(case, sem, pool, p_feed=1.0)
            cases.append(case)
        # last, because the DSL keeps the first literal of equal value for later statements: an Integral bound that is not a
        # Python int (numpy.int64), preceded by its sibling with native bounds (C10-F3)
        for form in ('native', 'npint'):
            cases.append({'kind': 'bigint', 'once': 'atleast', 'ordinal': True, 'open': [False, False], 'feed': 'alchemy',
                          'windows': [[[b[0], form] for b in w] for w in closed[:2]], 'data': full, 'mode': 'apply',
                          'npbounds': form == 'npint'})
        plat = []
        combos = ([('integer', 'at-least-once', False, 'apply'), ('timestamp', 'atmost', True, 'apply')] if self.quick else
                  [(k, o, m, md) for k in ('integer', 'string', 'date') for o, m in (('atleast', False), ('AtMost', False),
                   ('atmost', True), ('atleast', True), (None, False)) for md in ('apply', 'train')])
        for kind, once, member, mode in combos:
            # train mode through the launcher needs a label column (the sniffing pipeline is trained with labels)
            plat.append({'kind': kind, 'once': once, 'member': member, 'ordinal': True, 'open': [False, False], 'feed': 'alchemy',
                         'ship': 'builder', 'platform': True, 'windows': closed[:2], 'data': full, 'mode': mode,
                         'base': ['labels'] if mode == 'train' else None})
        return cases, plat

    def _worker(self, job: dict, timeout: float = 420.0) -> typing.Optional[dict]:
        """Run harness/props/c10_worker.py on a job; None when the process did not deliver a result."""
        import json
        import subprocess
        import sys

        script = os.path.join(os.path.dirname(os.path.abspath(__file__)), 'c10_worker.py')
        try:
            res = subprocess.run([sys.executable, script], input=json.dumps(job), capture_output=True, text=True,
                                 timeout=timeout, cwd=job['home'], check=False)
        except subprocess.TimeoutExpired:
            return None
        marker = '@@C10-RESULT@@'
        lines = [ln for ln in res.stdout.split('\n') if ln.startswith(marker)]
        if res.returncode != 0 or not lines:
            self._worker_err = (res.stderr or '')[-400:]
            return None
        return json.loads(lines[-1][len(marker):])

    def _xproc_job(self, cases: list, plat: list, tag: str = 'x') -> dict:
        home = os.path.join(self._home, f'{tag}proc')
        os.makedirs(home, exist_ok=True)
        return {'repo': fw.REPO, 'home': home, 'cases': cases, 'platform': plat}

    def _xproc_start(self) -> None:
        """Two processes one after the other on the same job and the same FORML_HOME, in the background: the second one
        is served from the parquet files that the first one left behind."""
        import threading

        cases, plat = self._xproc_cases()
        self._xproc = {'cases': cases, 'platform': plat, 'phases': []}
        job = self._xproc_job(cases, plat)

        def run():
            self._xproc['phases'].append(self._worker(job))
            self._xproc['phases'].append(self._worker({**job, 'platform': []}))

        self._xproc['thread'] = threading.Thread(target=run, daemon=True)
        self._xproc['thread'].start()

    def _xproc_finish(self) -> None:
        x = self._xproc
        x['thread'].join(600)
        phases = x['phases']
        if x['thread'].is_alive() or len(phases) != 2 or any(p is None for p in phases):
            self.notes.append('launch sequences in separate processes: no result from the worker process '
                              f'({getattr(self, "_worker_err", "timeout")!r}); stream skipped')
            return
        answers = self.model([self._model_line(c) for c in x['cases'] + x['platform']])
        reported: set = set()
        sibling_failed = False
        for n, phase in enumerate(phases):
            runs = list(zip(x['cases'], phase['cases'], answers)) + \
                list(zip(x['platform'], phase['platform'], answers[len(x['cases']):]))
            for case, impl, ans in runs:
                if impl and impl[0] == 'machinery':
                    self.notes.append(f'platform launch not run: {impl[1][:200]}')
                    continue
                impl = ('ctor-error', impl[1]) if impl and impl[0] == 'ctor-error' else impl
                how = 'platform dask' if case.get('platform') else f'process {n + 1} of 2'
                self.case(('xproc', n, repr(case)), f"xproc {how} {case['kind']} {spec_sem(case['once'])}",
                          nontrivial=True, sample=None)
                mod = self._model_answer(case, ans)
                found = self._oracle_e2e(case, impl)
                if case.get('npbounds'):
                    # root cause by construction: the sibling with native int bounds ran just before in the same process
                    if found and not sibling_failed:
                        self.violate(f'bounds given as numpy.int64 (an Integral instance: kind.cast returns it as it is) reach '
                                     f'the database driver unconverted — {found[0][0]}', {'kind': 'xproc', 'case': case, 'phases': 1},
                                     'integral-bound-not-a-python-int')
                        continue
                sibling_failed = bool(found) or impl != mod
                if impl != mod:
                    self.diverge(f'windows delivered in a process of its own ({how}) differ from the model', case, impl, mod)
                for what, sig, detail in found:
                    if sig in reported or len(reported) >= 4:
                        continue
                    reported.add(sig)
                    where = ('launched through the interactive launcher with the dask runner (scheduler: processes)'
                             if case.get('platform') else
                             f'launch sequence run in a process of its own, process {n + 1} of 2 sharing one FORML_HOME')
                    self.violate(f'{what} [{where}]', {'kind': 'xproc', 'case': case, 'phases': n + 1}, sig, detail)

    def _replay_xproc(self, w: dict) -> typing.Optional[fw.Violation]:
        case = w['case']
        job = self._xproc_job([] if case.get('platform') else [case], [case] if case.get('platform') else [], tag='r')
        impl = None
        for _ in range(int(w.get('phases', 1))):
            res = self._worker(job)
            if res is None:
                raise fw.MachineryError(f'worker process failed: {getattr(self, "_worker_err", "timeout")}')
            impl = (res['platform'] if case.get('platform') else res['cases'])[0]
        impl = ('ctor-error', impl[1]) if impl and impl[0] == 'ctor-error' else impl
        for what, sig, detail in self._oracle_e2e(case, impl):
            return fw.Violation(what, w, sig, detail)
        return None

    # ---- framework hooks ---------------------------------------------------------------------
    def correspondence(self):
        self._xproc_start()
        self._unit_once()
        self._unit_cast()
        self._unit_cast_values()
        self._unit_where()
        self._unit_prepared()
        self._unit_train()
        self._e2e()
        self._xproc_finish()
        if not self.quick:
            self._planted()

    def _planted(self):
        """Self-test of the diff: a deliberately wrong model line must disagree with the implementation."""
        case = {'kind': 'integer', 'once': 'atleast', 'ordinal': True, 'open': [False, False],
                'windows': [[[1, 'native'], [3, 'native']], [[3, 'native'], [5, 'native']]], 'data': [3], 'mode': 'apply'}
        impl = self._run_e2e(case)
        wrong = self._model_answer(case, self.model([self._model_line({**case, 'once': 'exactly'})])[0])
        right = self._model_answer(case, self.model([self._model_line(case)])[0])
        if impl == wrong or impl != right:
            raise fw.MachineryError(f'planted divergence not detected: impl={impl} right={right} wrong={wrong}')
        self.notes.append('planted-divergence self-test: caught')

    def search(self, reason):
        """Widen around the diverging end-to-end cases: all semantics x all kinds on the same window shape (or training
        history), plus every sub-sequence obtained by dropping one window; oracle on the real code. Without a diverging
        case (a theorem no longer checks) the same is done around a fixed seed of each shape."""
        div = [d.case for d in self.divergences if isinstance(d.case, dict)]
        if not hasattr(self, '_cached_log'):
            self._cached_log = {}
        seeds = [c for c in div if 'windows' in c][:4]
        seeds = seeds or [{'kind': 'integer', 'once': 'exactly', 'ordinal': True, 'open': [True, True],
                           'windows': [[None, [1, 'native']], [[1, 'native'], [2, 'native']], [[2, 'native'], [4, 'native']],
                                       [[4, 'native'], None]], 'data': list(range(NPT)), 'mode': 'apply'},
                          {'kind': 'integer', 'once': 'exactly', 'ordinal': True, 'open': [False, False],
                           'windows': [[[1, 'native'], [2, 'native']], [[2, 'native'], [4, 'native']]],
                           'data': list(range(NPT)), 'mode': 'train'}]
        chains = [c for c in div if c.get('chain')][:4]
        chains = chains or [{'chain': True, 'kind': 'integer', 'once': 'exactly', 'ordinal': True, 'tag0': None,
                             'uppers': [[1, 'native'], [2, 'native'], [4, 'native']], 'data': list(range(NPT))},
                            {'chain': True, 'kind': 'integer', 'once': 'exactly', 'ordinal': True, 'tag0': [2, 'native'],
                             'uppers': [[3, 'native'], [4, 'native']], 'data': list(range(NPT))}]
        tried = 0
        found = {v.signature for v in self.violations}
        t_end = time.time() + (20 if self.quick else 240)

        def judge(case):
            nonlocal tried
            if time.time() > t_end or len(self.violations) >= self.MAX_E2E_REPORTS + 2:
                return
            tried += 1
            # every candidate starts from empty result caches: what is found reproduces as it is
            for what, sig, detail in self._oracle_e2e(case, self._run_e2e(case, fresh=True)):
                if sig not in found:
                    found.add(sig)
                    self._report(case, what, sig, detail)

        def respell(kind, b):
            return None if b is None else [b[0], 'native' if b[1] in BAD_FORMS or b[1] not in forms(kind, b[0]) else b[1]]

        def transports(seed):
            """(feed, ship, member): the seed's own way to the storage first, then the others"""
            own = (seed.get('feed'), seed.get('ship'), bool(seed.get('member')))
            rest = [('alchemy', 'builder', False), (None, 'statement', True), ('alchemy', None, False), (None, 'ordinal-deepcopy', False),
                    (None, None, True), (None, None, False)]
            return [own] + [t for t in rest if t != own]

        def dress(case, feed, ship, member):
            out = {k: v for k, v in case.items() if k not in ('feed', 'ship', 'member', 'apply_base', 'persist')}
            if feed:
                out['feed'] = feed
            if ship and out['ordinal']:
                out['ship'] = ship
            if member and out['ordinal'] and out['once']:
                out['member'] = True
            return out

        for seed in seeds:
            for n, (feed, ship, member) in enumerate(transports(seed)):
                for kind, sem in itertools.product(E2E_KINDS, ['exactly', 'atmost', 'atleast', None]):
                    wins = [[respell(kind, b) for b in w] for w in seed['windows']]
                    variants = [wins] + [wins[:i] + wins[i + 1:] for i in range(len(wins))] if len(wins) > 1 and n == 0 else [wins]
                    for w in variants:
                        case = {**seed, 'kind': kind, 'once': sem, 'windows': w, 'data': list(range(NPT)), 'base': None}
                        if not case['ordinal']:
                            case['once'] = None
                        judge(dress(case, feed, ship, member))
        for seed in chains:
            for n, (feed, ship, member) in enumerate(transports(seed)[:3]):
                for kind, sem in itertools.product(E2E_KINDS, ['exactly', 'atmost', 'atleast', None]):
                    case = {**seed, 'kind': kind, 'once': sem if seed['ordinal'] else None, 'tag0': respell(kind, seed['tag0']),
                            'uppers': [respell(kind, u) for u in seed['uppers']], 'data': list(range(NPT)), 'base': None}
                    judge(dress(case, feed, ship, member))
        self.notes.append(f'failing-input search ({reason}): {tried} neighbouring cases')

    def replay_finding(self, entry):
        w = entry['witness']
        kind = w.get('kind')
        if kind == 'prepared':
            lo, hi = _unj(w['lower']), _unj(w['upper'])
            return self._oracle_prepared(lo, hi, self._run_prepared(lo, hi))
        if kind == 'train':
            lo, tag = _unj(w['lower']), _unj(w['tag'])
            return self._oracle_train(lo, tag, self._run_train(lo, tag))
        if kind == 'runner':
            got = self._run_train(_unj(w['lower']), _unj(w['tag']), w['method'], upper=_unj(w['upper']), both=True)
            if got[1] is not _unj(w['upper']) and got[1] != _unj(w['upper']):
                return fw.Violation(f"Runner.{w['method']} loaded the feed with upper={got[1]!r}", w, entry.get('signature', ''))
            return None
        if kind == 'castvalue':
            v = self._dec_value(w['value'])
            return self._oracle_castvalue(w['ordinal_kind'], v, self._run_cast(w['ordinal_kind'], v))
        if kind == 'xproc':
            return self._replay_xproc(w)
        if kind == 'reconstruct':
            from forml.io import dsl

            col = dsl.Table(dsl.Schema.from_fields(dsl.Field(dsl.Integer(), name='o'), title='C10once')).o
            return self._oracle_reconstruct(w['once'], w['member'], w['how'],
                                            self._run_reconstruct(col, w['once'], w['member'], w['how']))
        if kind == 'e2e':
            case = w['case']
            for what, sig, detail in self._oracle_e2e(case, self._run_e2e(case, fresh=True)):
                return fw.Violation(what, w, sig, detail)
        return None


def _j(v):
    """JSON-able encoding of a bound value."""
    if v is None or isinstance(v, (bool, int, float, str)):
        return v
    if isinstance(v, datetime.datetime):
        return {'datetime': v.isoformat()}
    if isinstance(v, datetime.date):
        return {'date': v.isoformat()}
    raise fw.MachineryError(f'cannot encode {v!r}')


def _unj(v):
    if isinstance(v, dict):
        if 'datetime' in v:
            return TS.fromisoformat(v['datetime'])
        return D.fromisoformat(v['date'])
    return v


if __name__ == '__main__':
    raise SystemExit(fw.run(C10))
