"""C08 (own file of the slice) — schemas as they are really built, kinds in random creation orders, fresh processes.

**Hierarchies.**  A *program* is a list of class statements, each referring to earlier ones as bases:

    prog  = (decl, ...)
    decl  = (via, class name, (base index, ...), ((attribute key, explicit field name | None, kind), ...))
    via   = 'decl'    `class N(<base table> | dsl.Schema): key = dsl.Field(kind, name)`      -> a dsl.Table (class named N)
            'meta'    `class N(<base schema>, ...): ...` with the schemas themselves as bases -> a Source.Schema; the
                      table is `dsl.Table(schema)` (an instance of `Table` itself)
            'fields'  `dsl.Schema.from_fields(*fields, title=N)` (no bases, keys are `_0`, `_1`, ...)
            'record'  `dsl.Schema.from_record(values, *names, title=N)` (kinds are reflected from python values)

`spec_fields` resolves a class to its ordered field list from the documented rules alone (docs of `dsl.Schema`:
default name = attribute key; parents' fields come first; an overriding field keeps the position of the field it
overrides; the linearisation of several bases is Python's own, taken from plain mirror classes).  The Lean model
(`ForML.Model.DslSchema`) mirrors the mechanism (`Schema.__new__`, `Schema.__iter__`, the copyreg reducer).

**Fresh processes.**  `run_fresh(jobs)` starts new interpreters (this file with `--fresh`): each one executes a random
creation order of kinds / reflected values / literals / hierarchies, and unpickles objects shipped from the process
that built them, comparing with what it builds itself.

**Meetings.**  Objects made independently in several fresh interpreters (`make` jobs) are shipped to one more
interpreter (`meet` job) that also makes its own, and are compared there.  Recipes are ASTs of props/dslgen.py plus
`('anonref', source, ident)`: an anonymous `source.reference()`; every `ident` is one creation (the spec: two anonymous
references are the same object exactly when they are the same creation, wherever their copies travel).

Nothing here imports forml at module import time.
"""
from __future__ import annotations

import base64
import json
import os
import pickle
import subprocess
import sys
import tempfile
import threading
import types
import typing

PRIMITIVES = ('boolean', 'integer', 'float', 'decimal', 'string', 'date', 'timestamp')
KEY_POOL = ('a', 'b', 'c', 'd', 'e', 'k1', 'k2', 'mid', 'last')
NAME_POOL = ('a', 'b', 'c', 'n1', 'n2', 'old', 'new', 'x y', 'Id', 'mid')
CLASS_POOL = ('H0', 'H1', 'H2', 'H3', 'H4', 'H5')


def tuplify(x):
    return tuple(tuplify(i) for i in x) if isinstance(x, (list, tuple)) else x


# ---- specification: documented resolution of a hierarchy --------------------------------------------------------
def spec_mro(prog, i) -> typing.Optional[list]:
    """Indices of the classes of `prog[i]`'s linearisation, most derived first (None: Python refuses the bases).
    Taken from Python itself on plain mirror classes of the same shape."""
    mirror: list = []
    for _, name, bases, _ in prog[:i + 1]:
        try:
            if any(mirror[b] is None for b in bases):
                mirror.append(None)
            else:
                mirror.append(type(name, tuple(mirror[b] for b in bases), {}))
        except TypeError:
            mirror.append(None)
    if mirror[i] is None:
        return None
    return [mirror.index(c) for c in mirror[i].__mro__ if c is not object]


def spec_entries(prog, i) -> typing.Optional[list]:
    """[(attribute key, field name, kind)] of class i per the documentation: walking from the base-most class to the
    most derived one, a new key is appended, a known key is replaced where it stands; the name of a field defaults to
    its key."""
    mro = spec_mro(prog, i)
    if mro is None:
        return None
    out: dict = {}
    for c in reversed(mro):
        via = prog[c][0]
        for pos, (key, name, kind) in enumerate(prog[c][3]):
            if via in ('fields', 'record'):
                key = f'_{pos}'  # `from_fields` numbers the attributes; `from_record` names an unnamed value `c<i>`
            out[key] = (key, name if name else (f'c{pos}' if via == 'record' else key), kind)
    return list(out.values())


def spec_fields(prog, i) -> typing.Optional[tuple]:
    entries = spec_entries(prog, i)
    return None if entries is None else tuple((n, k) for _, n, k in entries)


def table_name(prog, i) -> str:
    """Name of the class of the table of class i (what `Source.__eq__` / `__hash__` take into account)."""
    return prog[i][1] if prog[i][0] == 'decl' else 'Table'


def table_ast(prog, i):
    fields = spec_fields(prog, i)
    return None if fields is None else ('table', table_name(prog, i), fields)


def stmt_table_ast(prog, i):
    """the table as props/dslgen.py reads it back (labelled by the schema's name)"""
    fields = spec_fields(prog, i)
    return None if fields is None else ('table', prog[i][1], fields)


def relabel(ast):
    """forget table labels: a table made by `dsl.Table(schema)` is an instance of `Table` itself, the title of its
    schema takes no part in `==` / `hash` (equal tables are interchangeable, e.g. in the cache of `.reference()`)"""
    if isinstance(ast, tuple):
        if len(ast) == 3 and ast[0] == 'table':
            return ('table', '*', ast[2])
        return tuple(relabel(a) for a in ast)
    return ast


def ambiguous(entries) -> bool:
    """the name of one field is the attribute key of another one: `table[x]` is documented for both spellings and the
    key wins - which field `x` means is then a matter of the access rule, not of identity (not examined)"""
    return any(a[1] == b[0] for a in entries for b in entries if a is not b)


# ---- values for `reflect` / `from_record` -----------------------------------------------------------------------
def value_of(spec):
    """python value of a value spec: (int n) (bool b) (str s) (float repr) (decimal s) (date iso) (datetime iso)
    (list v...) (dict (k v)...)"""
    import datetime
    import decimal

    tag = spec[0]
    if tag == 'int':
        return int(spec[1])
    if tag == 'bool':
        return bool(spec[1])
    if tag == 'str':
        return str(spec[1])
    if tag == 'float':
        return float(spec[1])
    if tag == 'decimal':
        return decimal.Decimal(spec[1])
    if tag == 'date':
        return datetime.date.fromisoformat(spec[1])
    if tag == 'datetime':
        return datetime.datetime.fromisoformat(spec[1])
    if tag == 'list':
        return [value_of(v) for v in spec[1:]]
    if tag == 'dict':
        return {value_of(k): value_of(v) for k, v in spec[1:]}
    raise ValueError(spec)


_PRIM_OF = {'int': 'integer', 'bool': 'boolean', 'str': 'string', 'float': 'float', 'decimal': 'decimal', 'date': 'date',
            'datetime': 'timestamp'}


def spec_reflect(spec):
    """Kind AST of a value spec per the documentation of the kinds (None: no ETL type).  Containers are generated
    either homogeneous (same constructor everywhere) or plainly heterogeneous (different constructors)."""
    tag = spec[0]
    if tag in _PRIM_OF:
        return _PRIM_OF[tag]
    if tag == 'list':
        if len(spec) == 1:
            return None
        inner = spec_reflect(spec[1])
        return None if inner is None else ('array', inner)
    if tag == 'dict':
        if len(spec) == 1:
            return None
        keys, vals = [k for k, _ in spec[1:]], [v for _, v in spec[1:]]
        if len({k[0] for k in keys}) != 1:
            return None
        kk = spec_reflect(keys[0])
        if kk is None:
            return None
        if len({v[0] for v in vals}) == 1:
            vk = spec_reflect(vals[0])
            return None if vk is None else ('map', kk, vk)
        if kk == 'string':
            inner = [(k[1], spec_reflect(v)) for k, v in spec[1:]]
            if any(v is None for _, v in inner):
                return None
            return ('struct',) + tuple(inner)
        return None
    return None


# ---- AST -> real objects ----------------------------------------------------------------------------------------
def build_kind(k):
    from forml.io import dsl

    if isinstance(k, str):
        return {'boolean': dsl.Boolean, 'integer': dsl.Integer, 'float': dsl.Float, 'decimal': dsl.Decimal,
                'string': dsl.String, 'date': dsl.Date, 'timestamp': dsl.Timestamp}[k]()
    if k[0] == 'array':
        return dsl.Array(build_kind(k[1]))
    if k[0] == 'map':
        return dsl.Map(build_kind(k[1]), build_kind(k[2]))
    if k[0] == 'struct':
        return dsl.Struct(**{n: build_kind(v) for n, v in k[1:]})
    raise ValueError(k)


def kind_ast(kind):
    from forml.io import dsl

    if isinstance(kind, dsl.Array):
        return ('array', kind_ast(kind.element))
    if isinstance(kind, dsl.Map):
        return ('map', kind_ast(kind.key), kind_ast(kind.value))
    if isinstance(kind, dsl.Struct):
        return ('struct',) + tuple((e.name, kind_ast(e.kind)) for e in kind)
    name = type(kind).__name__.lower()
    if name not in PRIMITIVES:
        raise ValueError(f'not a kind: {kind!r}')
    return name


def _sample_value(kind):
    """a python value whose documented reflection is the primitive `kind` (for `from_record`)"""
    return {'boolean': ('bool', True), 'integer': ('int', 7), 'float': ('float', '1.5'), 'decimal': ('decimal', '2.50'),
            'string': ('str', 'v'), 'date': ('date', '2020-01-02'), 'timestamp': ('datetime', '2020-01-02T03:04:05')}[kind]


class Hier:
    """One build of a program through the public API: `schema[i]`, `table[i]`, `outcome[i]`
    ('ok' | 'GrammarError' | 'TypeError' | ... | 'skipped')."""

    def __init__(self, prog):
        from forml.io import dsl

        self.prog = prog
        self.schema: list = []
        self.table: list = []
        self.outcome: list = []
        for via, name, bases, ns in prog:
            if any(self.outcome[b] != 'ok' for b in bases):
                self._fail('skipped')
                continue
            try:
                if via == 'decl':
                    base = self.table[bases[0]] if bases else dsl.Schema
                    namespace = {key: dsl.Field(build_kind(kind), name=fname) for key, fname, kind in ns}
                    tab = types.new_class(name, (base,), {}, lambda n, namespace=namespace: n.update(namespace))
                    sch = tuple.__getitem__(tab, 0)  # (`tab.schema` goes through a cache shared by equal tables)
                elif via == 'meta':
                    namespace = {key: dsl.Field(build_kind(kind), name=fname) for key, fname, kind in ns}
                    sch = types.new_class(name, tuple(self.schema[b] for b in bases), {'metaclass': dsl.Source.Schema},
                                          lambda n, namespace=namespace: n.update(namespace))
                    tab = dsl.Table(sch)
                elif via == 'fields':
                    sch = dsl.Schema.from_fields(*(dsl.Field(build_kind(kind), name=fname) for _, fname, kind in ns), title=name)
                    tab = dsl.Table(sch)
                elif via == 'record':
                    sch = dsl.Schema.from_record([value_of(_sample_value(kind)) for _, _, kind in ns],
                                                 *[fname for _, fname, _ in ns], title=name)
                    tab = dsl.Table(sch)
                else:
                    raise ValueError(via)
            except RecursionError:
                self._fail('RecursionError')
                continue
            except Exception as e:  # pylint: disable=broad-except
                self._fail(type(e).__name__)
                continue
            self.schema.append(sch)
            self.table.append(tab)
            self.outcome.append('ok')

    def _fail(self, why):
        self.schema.append(None)
        self.table.append(None)
        self.outcome.append(why)


def reset_caches() -> None:
    """Empty the process-wide caches keyed by DSL objects (forml's lru_caches, cloudpickle's table of classes pickled by
    value): what is observed next depends on the objects made from here on only."""
    from forml.io._input import _producer
    from forml.io.dsl import parser as parsmod
    from forml.io.dsl._struct import frame

    for fn in (frame.Source.__getitem__, frame.Source.Schema.__getitem__, getattr(_producer.Reader, '_parse_statement', None),
               getattr(_producer.Reader, '_match_entry', None), getattr(parsmod.Visitor, 'generate_feature', None)):
        clear = getattr(fn, 'cache_clear', None)
        if clear is not None:
            clear()
    try:
        from cloudpickle import cloudpickle as cpmod

        for name in ('_DYNAMIC_CLASS_TRACKER_BY_CLASS', '_DYNAMIC_CLASS_TRACKER_BY_ID'):
            table = getattr(cpmod, name, None)
            if table is not None:
                table.clear()
    except Exception:  # pylint: disable=broad-except
        pass


def read_fields(schema) -> tuple:
    return tuple((f.name, kind_ast(f.kind)) for f in schema)


def read_table(tab):
    """('table', <name of the table's class>, fields) — the structure `Source.__eq__` / `__hash__` talk about"""
    return ('table', type(tab).__name__, read_fields(tab.schema))


def _truth(fn) -> str:
    try:
        return 'true' if fn() else 'false'
    except RecursionError:
        return 'raises:RecursionError'
    except Exception as e:  # pylint: disable=broad-except
        return f'raises:{type(e).__name__}'


def _guard(fn):
    try:
        return fn()
    except RecursionError:
        return 'raises:RecursionError'
    except Exception as e:  # pylint: disable=broad-except
        return f'raises:{type(e).__name__}'


def access(tab, entries) -> list:
    """Attribute / item access for every documented entry: [[key, how, got]] for each access that does not return the
    column of that field (its name and its kind)."""
    bad = []
    if ambiguous(entries):
        return bad
    for key, name, kind in entries:
        hows = [('item-key', lambda key=key: tab[key]), ('item-name', lambda name=name: tab[name])]
        if key.isidentifier():
            hows.append(('attr-key', lambda key=key: getattr(tab, key)))
        for how, fn in hows:
            try:
                col = fn()
                got = (col.name, kind_ast(col.kind))
            except RecursionError:
                got = 'raises:RecursionError'
            except Exception as e:  # pylint: disable=broad-except
                got = f'raises:{type(e).__name__}'
            if got != (name, kind):
                bad.append([key, how, got if isinstance(got, str) else list(got)])
    return bad


def statements(tab_ast) -> list:
    """A reference and two queries over a table AST (in the AST format of props/dslgen.py)."""
    fields = tab_ast[2]
    names = [n for n, _ in fields]
    if not fields or len(set(names)) != len(names):  # (the caller leaves ambiguous key / name spellings out too)
        return []
    col = lambda n: ('elem', tab_ast, n)  # noqa: E731
    out = [('ref', tab_ast, 'r')]
    sel = tuple(col(n) for n in names[:2]) + (('alias', col(names[-1]), 'z'),)
    numeric = [n for n, k in fields if k in ('integer', 'float')]
    pre = ('expr', 'gt', col(numeric[0]), ('lit', ('int', 1))) if numeric else ('expr', 'notnull', col(names[0]))
    out.append(('query', tab_ast, sel, pre, (), None, (('ord', col(names[0]), 'desc'),), None))
    ref = ('ref', tab_ast, 's')
    out.append(('query', ref, (('elem', ref, names[0]),), None, (), None, (), ('rows', 10, 0)))
    return out


def dumps_with(codec: str, obj) -> str:
    """base64 | 'raises:<Error>'"""
    try:
        if codec == 'cloudpickle':
            import cloudpickle

            data = cloudpickle.dumps(obj)
        else:
            data = pickle.dumps(obj)
        return base64.b64encode(data).decode()
    except RecursionError:
        return 'raises:RecursionError'
    except Exception as e:  # pylint: disable=broad-except
        return f'raises:{type(e).__name__}'


def compare_copy(z, x, ast_of, want, entries=None) -> dict:
    """What the property says about a copy `z` of `x` (unpickled here or elsewhere): same content, equal, hash-equal,
    one dict key, same answers to attribute access."""
    out = {'content': _guard(lambda: ast_of(z) == want), 'eq': _truth(lambda: z == x), 'eq_rev': _truth(lambda: x == z),
           'hash': _guard(lambda: hash(z) == hash(x)), 'in_dict': _truth(lambda: z in {x: 1}),
           'in_dict_rev': _truth(lambda: x in {z: 1})}
    if out['content'] is not True:
        out['got'] = _guard(lambda: ast_of(z))
    if entries is not None:
        out['access'] = _guard(lambda: access(z, entries))
    return out


def copy_ok(c: dict) -> bool:
    return (c.get('content') is True and c.get('eq') == 'true' and c.get('eq_rev') == 'true' and c.get('hash') is True
            and c.get('in_dict') == 'true' and c.get('in_dict_rev') == 'true' and not c.get('access'))


def _stmt_builder(hier: Hier, dslgen):
    """a `dslgen.Builder` whose tables are the hierarchy-built ones"""
    known = {}
    for i, tab in enumerate(hier.table):
        if tab is not None:
            ast = stmt_table_ast(hier.prog, i)
            if ast is not None:
                known.setdefault(ast, tab)

    class Builder(dslgen.Builder):
        def table(self, ast):
            if ast in known:
                return known[ast]
            return super().table(ast)

    return Builder()


def observe_hier(case: dict) -> dict:
    """Build the program twice (independent classes) + the flat equivalent of every class; observe what the property
    talks about for schemas, tables and statements over them."""
    from forml.io import dsl  # noqa: F401  pylint: disable=unused-import

    from . import dslgen

    prog = case['prog']
    h1 = Hier(prog)
    # (a class statement over an *equal* declared table of an earlier build would be handed the schema class of that
    # earlier table as its base - finding C08-F4 -: the second build starts from empty caches like the first one)
    reset_caches()
    h2 = Hier(prog)
    out: dict = {'outcome': h1.outcome, 'outcome2': h2.outcome, 'classes': []}
    for i, (via, name, bases, ns) in enumerate(prog):
        if h1.outcome[i] != 'ok' or h2.outcome[i] != 'ok':
            out['classes'].append(None)
            continue
        rec: dict = {}
        s1, s2, t1, t2 = h1.schema[i], h2.schema[i], h1.table[i], h2.table[i]
        rec['fields'] = _guard(lambda: read_fields(s1))
        rec['table'] = _guard(lambda: read_table(t1))
        rec['len'] = _guard(lambda: len(s1))
        entries = spec_entries(prog, i)
        want = spec_fields(prog, i)
        # the same hierarchy built twice
        rec['rebuilt'] = {'schema': compare_copy(s2, s1, read_fields, want),
                          'table': compare_copy(t2, t1, read_table, ('table', table_name(prog, i), want), entries)}
        # the flat equivalent (one class, no bases, the resolved fields under their keys)
        if entries is not None and isinstance(rec['fields'], tuple):
            flat = Hier((('decl' if via == 'decl' else 'meta', name, (), tuple(entries)),))
            if flat.outcome[0] == 'ok':
                rec['flat'] = {'schema': compare_copy(flat.schema[0], s1, read_fields, want),
                               'table': compare_copy(flat.table[0], t1, read_table, ('table', table_name(prog, i), want))}
            else:
                rec['flat'] = flat.outcome[0]
        rec['access'] = _guard(lambda: access(t1, entries or []))
        rec['blobs'] = {}
        rec['pickle'] = {}
        objs = [('schema', s1, read_fields, want, None), ('table', t1, read_table, ('table', table_name(prog, i), want), entries)]
        tab_ast = stmt_table_ast(prog, i)
        to_ast = dslgen.to_ast if via == 'decl' else (lambda o: relabel(dslgen.to_ast(o)))
        if i == case.get('target', len(prog) - 1) and tab_ast is not None and rec['fields'] == want and not ambiguous(entries):
            b1, b2 = _stmt_builder(h1, dslgen), _stmt_builder(h2, dslgen)
            rec['stmts'] = []
            for j, ast in enumerate(statements(tab_ast)):
                try:
                    x, y = b1.build(ast), b2.build(ast)
                except RecursionError:
                    rec['stmts'].append('raises:RecursionError')
                    continue
                except Exception as e:  # pylint: disable=broad-except
                    rec['stmts'].append(f'raises:{type(e).__name__}')
                    continue
                want_ast = ast if via == 'decl' else relabel(ast)
                rec['stmts'].append(compare_copy(y, x, to_ast, want_ast))
                objs.append((f'stmt{j}', x, to_ast, want_ast, None))
        rec['_objs'] = objs
        out['classes'].append(rec)
    # pairs of different classes of one program
    out['pairs'] = []
    for i in range(len(prog)):
        for j in range(i + 1, len(prog)):
            if h1.outcome[i] == 'ok' and h1.outcome[j] == 'ok':
                si, sj, ti, tj = h1.schema[i], h1.schema[j], h1.table[i], h1.table[j]
                out['pairs'].append([i, j, {
                    'schema_eq': _truth(lambda: si == sj), 'schema_eq_rev': _truth(lambda: sj == si),
                    'schema_hash': _guard(lambda: hash(si) == hash(sj)), 'schema_in': _truth(lambda: sj in {si: 1}),
                    'table_eq': _truth(lambda: ti == tj), 'table_eq_rev': _truth(lambda: tj == ti),
                    'table_ne': _truth(lambda: ti != tj),
                    'table_hash': _guard(lambda: hash(ti) == hash(tj)), 'table_in': _truth(lambda: tj in {ti: 1})}])
    # pickling: schema, table, statements of every class - `pickle` first; `cloudpickle` last of all (it pickles classes
    # by value through its own reducer and keeps - and updates - the classes it has seen in a process-wide table)
    for codec in ('pickle', 'cloudpickle'):
        for i, rec in enumerate(out['classes']):
            if rec is None:
                continue
            for tag, obj, ast_of, want_ast, ents in rec['_objs']:
                blob = dumps_with(codec, obj)
                if i == case.get('target', len(prog) - 1):
                    rec['blobs'].setdefault(tag, {})[codec] = blob
                if blob.startswith('raises:'):
                    rec['pickle'][f'{tag}/{codec}'] = blob
                    continue
                try:
                    z = pickle.loads(base64.b64decode(blob))
                except RecursionError:
                    rec['pickle'][f'{tag}/{codec}'] = 'raises:RecursionError'
                    continue
                except Exception as e:  # pylint: disable=broad-except
                    rec['pickle'][f'{tag}/{codec}'] = f'raises:{type(e).__name__}'
                    continue
                rec['pickle'][f'{tag}/{codec}'] = compare_copy(z, obj, ast_of, want_ast, ents)
    for rec in out['classes']:
        if rec is not None:
            del rec['_objs']
    return out



# ---- objects made in different interpreters meet in one more ------------------------------------------------------
def meet_builder():
    """a `dslgen.Builder` that also makes anonymous references: one `source.reference()` per ident"""
    from props import dslgen

    class Builder(dslgen.Builder):
        def __init__(self):
            super().__init__()
            self._anon: dict = {}

        def source(self, ast):
            if ast[0] == 'anonref':
                if ast[2] not in self._anon:
                    self._anon[ast[2]] = self.source(ast[1]).reference()
                return self._anon[ast[2]]
            return super().source(ast)

        def build(self, ast):
            if ast[0] == 'anonref':
                return self.source(ast)
            return super().build(ast)

    return Builder()


def has_anon(ast) -> bool:
    if isinstance(ast, tuple):
        if len(ast) == 3 and ast[0] == 'anonref':
            return True
        return any(has_anon(a) for a in ast)
    return False


def forget_idents(ast):
    """the recipe with the creations of anonymous references made indistinguishable"""
    if isinstance(ast, tuple):
        if len(ast) == 3 and ast[0] == 'anonref':
            return ('anonref', forget_idents(ast[1]), '*')
        return tuple(forget_idents(a) for a in ast)
    return ast


def _make(recipes) -> list:
    """[{'pickle': b64 | raises, 'cloudpickle': ...}] — the objects of a maker, serialised (one builder: an ident is
    one object however many recipes mention it)"""
    builder = meet_builder()
    out = []
    for ast in recipes:
        obj = _guard(lambda ast=ast: builder.build(ast))
        if isinstance(obj, str):
            out.append({'error': obj})
        else:
            out.append({'pickle': dumps_with('pickle', obj), 'cloudpickle': dumps_with('cloudpickle', obj)})
    return out


def _meet(spec: dict) -> dict:
    """Unpickle what the makers shipped, make the local objects, compare everything pairwise; self-join every two
    anonymous references to one source."""
    from forml.io.dsl._struct import series

    from props import dslgen

    out: dict = {}
    for codec in ('pickle', 'cloudpickle'):
        reset_caches()
        builder = meet_builder()
        objs, asts, errors = [], [], []
        for k, item in enumerate(spec['items']):
            if 'error' in item['blobs']:  # the maker could not build it (the DSL refused the recipe)
                errors.append([k, 'build:' + item['blobs']['error']])
                continue
            blob = item['blobs'].get(codec, 'raises:missing')
            if blob.startswith('raises:'):
                errors.append([k, 'dump:' + blob])
                continue
            z = _guard(lambda blob=blob: pickle.loads(base64.b64decode(blob)))
            if isinstance(z, str):
                errors.append([k, 'load:' + z])
                continue
            objs.append((k, z))
        base = len(spec['items'])
        for k, ast in enumerate(spec['local']):
            z = _guard(lambda ast=ast: builder.build(ast))
            if isinstance(z, str):
                errors.append([base + k, 'build:' + z])
            else:
                objs.append((base + k, z))
        recipes = [it['ast'] for it in spec['items']] + list(spec['local'])
        bad = []
        for a in range(len(objs)):
            for b in range(a, len(objs)):
                (ia, xa), (ib, xb) = objs[a], objs[b]
                same = recipes[ia] == recipes[ib]
                obs = [_truth(lambda: xa == xb), _truth(lambda: xb == xa), _guard(lambda: hash(xa) == hash(xb)),
                       _truth(lambda: xb in {xa: 1}), _truth(lambda: xa in {xb})]
                if (same and obs != ['true', 'true', True, 'true', 'true']) or \
                        (not same and 'true' in (obs[0], obs[1], obs[3], obs[4])):
                    bad.append([ia, ib, obs])
        for ia, xa in objs:
            if recipes[ia][0] == 'anonref':
                asts.append([ia, _guard(lambda xa=xa: dslgen.to_ast(xa))])
        joins = []
        anon = [(i, x) for i, x in objs if recipes[i][0] == 'anonref']
        for a in range(len(anon)):
            for b in range(a + 1, len(anon)):
                (ia, xa), (ib, xb) = anon[a], anon[b]
                if recipes[ia][1] != recipes[ib][1] or recipes[ia] == recipes[ib]:
                    continue

                def join(xa=xa, xb=xb):
                    name = xa.features[0].name
                    j = xa.inner_join(xb, xa[name] == xb[name])
                    return [_truth(lambda: j.left == j.right), len(set(j.features)), len(xa.features) + len(xb.features),
                            len(series.Element.dissect(xa[name], xb[name])),
                            _truth(lambda: j.select(xa[name], xb[name]).selection[0] == j.select(xa[name], xb[name]).selection[1])]
                got = _guard(join)
                if got != ['false', len(xa.features) + len(xb.features), len(xa.features) + len(xb.features), 2, 'false']:
                    joins.append([ia, ib, got])
        keys = {}
        for i, x in objs:
            try:
                keys.setdefault(x, i)
            except Exception:  # pylint: disable=broad-except
                pass
        out[codec] = {'n': len(objs), 'errors': errors, 'bad': bad, 'nbad': len(bad), 'asts': asts, 'joins': joins[:6],
                      'keys': len(keys), 'distinct': len({recipes[i] for i, _ in objs})}
    return out


# ---- fresh interpreter ---------------------------------------------------------------------------------------
def _fresh_main() -> None:
    """Executes one job (JSON on stdin) in a new interpreter: `ops` in the given order, then the comparisons."""
    import logging
    import warnings

    warnings.simplefilter('ignore')
    logging.disable(logging.CRITICAL)
    job = tuplify_json(json.load(sys.stdin))
    from forml.io import dsl
    from forml.io.dsl._struct import kind as kindmod

    from props import dslgen

    out: dict = {'ops': [], 'blobs': []}
    made: list = []  # (kind ast requested, object)
    ids: dict = {}
    for op in job.get('ops', ()):
        tag = op[0]
        try:
            if tag == 'kind':
                k = build_kind(op[1])
                made.append((op[1], k))
                rec = {'got': kind_ast(k), 'cls': type(k).__name__}
                if isinstance(op[1], str):
                    rec['id'] = ids.setdefault(id(k), len(ids))
                out['ops'].append(rec)
            elif tag == 'reflect':
                k = kindmod.reflect(value_of(op[1]))
                made.append((kind_ast(k), k))
                out['ops'].append({'got': kind_ast(k)})
            elif tag == 'literal':
                lit = dsl.Literal(value_of(op[1]))
                made.append((kind_ast(lit.kind), lit.kind))
                out['ops'].append({'got': kind_ast(lit.kind)})
            elif tag == 'hier':
                reset_caches()
                h = Hier(op[1])
                out['ops'].append({'outcome': h.outcome,
                                   'fields': [None if s is None else _guard(lambda s=s: read_fields(s)) for s in h.schema]})
            else:
                out['ops'].append({'error': 'bad-op'})
        except RecursionError:
            out['ops'].append({'raises': 'RecursionError'})
        except Exception as e:  # pylint: disable=broad-except
            out['ops'].append({'raises': type(e).__name__})
    # every two kinds made here: equal, hash-equal, one dict key exactly when they are the same kind
    bad = []
    for a in range(len(made)):
        for b in range(a, len(made)):
            (ka, xa), (kb, xb) = made[a], made[b]
            same = ka == kb
            obs = [_truth(lambda: xa == xb), _truth(lambda: xb == xa), _guard(lambda: hash(xa) == hash(xb)), _truth(lambda: xb in {xa: 1})]
            if same and obs != ['true', 'true', True, 'true'] or not same and ('true' in (obs[0], obs[1], obs[3])):
                bad.append([ka, kb, obs])
    out['kind_pairs'] = {'n': len(made) * (len(made) + 1) // 2, 'bad': bad[:5]}
    repickled = []
    for ka, xa in made:
        z = _guard(lambda: pickle.loads(pickle.dumps(xa)))
        if isinstance(z, str) or kind_ast(z) != ka or not z == xa or hash(z) != hash(xa):
            repickled.append([ka, z if isinstance(z, str) else kind_ast(z)])
    out['kind_pickle_bad'] = repickled[:5]
    # objects shipped from the process that built them vs the ones built here
    for blob in job.get('blobs', ()):
        prog, target = blob['prog'], blob['target']
        reset_caches()
        h = Hier(prog)
        rec: dict = {'outcome': h.outcome[target]}
        if h.outcome[target] == 'ok':
            want = spec_fields(prog, target)
            entries = spec_entries(prog, target)
            tab_ast = stmt_table_ast(prog, target)
            builder = _stmt_builder(h, dslgen)
            stmts = statements(tab_ast) if tab_ast is not None and not ambiguous(entries) else []
            for tag, codecs in blob['objs'].items():
                if tag == 'schema':
                    local, ast_of, want_ast, ents = h.schema[target], read_fields, want, None
                elif tag == 'table':
                    local, ast_of, want_ast, ents = h.table[target], read_table, ('table', table_name(prog, target), want), entries
                else:
                    ast = stmts[int(tag[4:])]
                    local, ast_of, want_ast, ents = _guard(lambda ast=ast: builder.build(ast)), dslgen.to_ast, ast, None
                    if prog[target][0] != 'decl':
                        ast_of, want_ast = (lambda o: relabel(dslgen.to_ast(o))), relabel(ast)
                    if isinstance(local, str):
                        rec[tag] = local
                        continue
                for codec, data in codecs.items():
                    if data.startswith('raises:'):
                        continue
                    try:
                        z = pickle.loads(base64.b64decode(data))
                    except RecursionError:
                        rec[f'{tag}/{codec}'] = 'raises:RecursionError'
                        continue
                    except Exception as e:  # pylint: disable=broad-except
                        rec[f'{tag}/{codec}'] = f'raises:{type(e).__name__}'
                        continue
                    rec[f'{tag}/{codec}'] = compare_copy(z, local, ast_of, want_ast, ents)
        out['blobs'].append(rec)
    if job.get('make'):
        out['made'] = _make(job['make'])
    if job.get('meet'):
        out['meet'] = _meet(job['meet'])
    json.dump(out, sys.stdout)


def run_fresh(jobs: list, timeout: float = 600.0, parallel: int = 16) -> list:
    """Run every job in its own new interpreter; results in order ({'error': ...} when the process failed)."""
    results: list = [None] * len(jobs)
    env = dict(os.environ)
    env['PYTHONDONTWRITEBYTECODE'] = '1'
    env.pop('PYTHONHASHSEED', None)  # every interpreter salts its str hashes anew
    sem = threading.Semaphore(parallel)
    tmp = tempfile.mkdtemp(prefix='c08fresh-')

    def one(i, job):
        with sem:
            try:
                p = subprocess.run([sys.executable, '-W', 'ignore', os.path.abspath(__file__), '--fresh'], input=json.dumps(job),
                                   capture_output=True, text=True, env=env, timeout=timeout, cwd=tmp)
                if p.returncode != 0:
                    results[i] = {'error': p.stderr[-600:]}
                else:
                    results[i] = tuplify_json(json.loads(p.stdout))
            except Exception as e:  # pylint: disable=broad-except
                results[i] = {'error': repr(e)}

    threads = [threading.Thread(target=one, args=(i, j)) for i, j in enumerate(jobs)]
    for t in threads:
        t.start()
    for t in threads:
        t.join()
    try:
        import shutil

        shutil.rmtree(tmp, ignore_errors=True)
    except Exception:  # pylint: disable=broad-except
        pass
    return results


def tuplify_json(x):
    """lists -> tuples inside a decoded JSON document (dict keys stay)"""
    if isinstance(x, dict):
        return {k: tuplify_json(v) for k, v in x.items()}
    if isinstance(x, list):
        return tuple(tuplify_json(i) for i in x)
    return x


# ---- generation ----------------------------------------------------------------------------------------------
class HGen:
    """Random class hierarchies the way schemas are really written."""

    def __init__(self, rng):
        self.rng = rng

    def kind(self, compound: float = 0.12):
        r = self.rng
        if r.random() >= compound:
            return r.choice(PRIMITIVES)
        c = r.random()
        if c < 0.4:
            return ('array', r.choice(PRIMITIVES))
        if c < 0.7:
            return ('map', 'string', r.choice(PRIMITIVES))
        return ('struct', ('p', r.choice(PRIMITIVES)), ('q', ('array', r.choice(PRIMITIVES))))

    def prog(self, size: typing.Optional[int] = None, risky: float = 0.15):
        """`risky`: probability (per field) of a name chosen without regard to the names already in use."""
        r = self.rng
        n = size or r.choice((1, 2, 2, 3, 3, 4, 5))
        prog: list = []
        for i in range(n):
            vias = [prog[b][0] for b in range(i)]
            c = r.random()
            if i and c < 0.8:
                nb = 1 if r.random() < 0.7 else 2 if r.random() < 0.85 else 3
                bases = tuple(r.sample(range(i), min(nb, i)))
            else:
                bases = ()
            if len(bases) <= 1 and all(vias[b] == 'decl' for b in bases) and r.random() < 0.7:
                via = 'decl'
            elif not bases and r.random() < 0.35:
                via = r.choice(('fields', 'fields', 'record'))
            else:
                via = 'meta'
            name = r.choice(CLASS_POOL) if r.random() < 0.25 else f'C{i}'
            # what the bases bring (by the documentation), to steer names
            inherited: list = []
            trial = tuple(prog) + ((via, name, bases, ()),)
            ent = spec_entries(trial, i)
            if ent:
                inherited = ent
            used_names = {nm for _, nm, _ in inherited}
            used_keys = {k for k, _, _ in inherited}
            ns: list = []
            for _ in range(r.choice((0, 1, 1, 2, 2, 3, 4)) if bases else r.choice((1, 2, 3, 4))):
                over = inherited and r.random() < 0.4
                if over and via in ('decl', 'meta'):
                    key, old_name, old_kind = r.choice(inherited)
                    if key in {k for k, _, _ in ns}:
                        continue
                    c = r.random()
                    if c < 0.35:
                        fname = None if old_name == key else old_name  # same name as the overridden field
                    elif c < 0.5:
                        fname = old_name
                    else:
                        fname = self._fresh(NAME_POOL, used_names) if r.random() >= risky else r.choice(NAME_POOL)
                    kind = old_kind if r.random() < 0.3 else self.kind()
                else:
                    key = self._fresh(KEY_POOL, used_keys | {k for k, _, _ in ns})
                    if key is None:
                        continue
                    c = r.random()
                    if via == 'record':
                        fname = self._fresh(NAME_POOL, used_names) if c < 0.8 else None
                    elif c < 0.55:
                        fname = None
                    elif c < 0.6:
                        fname = key
                    elif r.random() < risky:
                        fname = r.choice(NAME_POOL + KEY_POOL)
                    else:
                        fname = self._fresh(NAME_POOL, used_names | used_keys | {k for k, _, _ in ns})
                    kind = r.choice(PRIMITIVES) if via == 'record' else self.kind()
                    if fname is None and key in used_names and r.random() >= risky:
                        continue
                if fname is not None and not fname:
                    fname = None
                ns.append((key, fname, kind))
                used_names.add(fname or key)
            if via in ('fields', 'record'):
                ns = [(f'_{p}', fname, kind) for p, (_, fname, kind) in enumerate(ns)]
            prog.append((via, name, bases, tuple(ns)))
        return tuple(prog)

    def _fresh(self, pool, used):
        cands = [p for p in pool if p not in used]
        return self.rng.choice(cands) if cands else None

    def value(self, depth: int = 1):
        r = self.rng
        prim = [('int', r.choice((0, 1, -1, 7, 2 ** 61))), ('bool', r.choice((True, False))), ('str', r.choice(('a', '', 'x y'))),
                ('float', r.choice(('1.0', '0.5', '-2.5'))), ('decimal', r.choice(('1', '2.50'))), ('date', '2020-01-02'),
                ('datetime', '2020-01-02T03:04:05')]
        if depth <= 0 or r.random() < 0.6:
            return r.choice(prim)
        c = r.random()
        if c < 0.4:
            v = self.value(depth - 1)
            return ('list', v) + tuple(self._like(v) for _ in range(r.randint(0, 2)))
        k = r.choice((('str', 'p'), ('int', 1)))
        k2 = ('str', 'q') if k[0] == 'str' else ('int', 2)
        v = self.value(depth - 1)
        if c < 0.7:
            return ('dict', (k, v), (k2, self._like(v)))
        w = r.choice([p for p in prim if p[0] != v[0] and {p[0], v[0]} != {'int', 'bool'} and {p[0], v[0]} != {'date', 'datetime'}])
        return ('dict', (k, v), (k2, w))

    def _like(self, v):
        """another value of the same shape"""
        return v


def mutations(prog, rng, limit: int = 4) -> list:
    """[(label, mutated program)] — one leaf of the target hierarchy changed."""
    out = []
    for i, (via, name, bases, ns) in enumerate(prog):
        for j, (key, fname, kind) in enumerate(ns):
            def put(entry, i=i, j=j, via=via, name=name, bases=bases, ns=ns):
                return prog[:i] + ((via, name, bases, ns[:j] + (entry,) + ns[j + 1:]),) + prog[i + 1:]
            other = rng.choice([k for k in PRIMITIVES if k != kind])
            out.append(('field-kind', put((key, fname, other))))
            new = rng.choice([n for n in ('zz', 'yy', 'ww') if n != (fname or key)])
            out.append(('field-name', put((key, new, kind))))
            if via in ('decl', 'meta') and not any(i in b for _, _, b, _ in prog):  # (leaf classes: see finding C08-F4)
                out.append(('field-key', put((rng.choice([k for k in ('q1', 'q2') if k != key]), fname or key, kind))))
        if len(ns) >= 2 and via in ('decl', 'meta'):
            j = rng.randrange(len(ns) - 1)
            out.append(('field-order', prog[:i] + ((via, name, bases, ns[:j] + (ns[j + 1], ns[j]) + ns[j + 2:]),) + prog[i + 1:]))
        if via in ('decl', 'meta'):
            out.append(('field-added', prog[:i] + ((via, name, bases, ns + (('zq', None, 'integer'),)),) + prog[i + 1:]))
        out.append(('class-name', prog[:i] + ((via, name + 'x', bases, ns),) + prog[i + 1:]))
    if limit and len(out) > limit:
        out = rng.sample(out, limit)
    return out


def prog_sexp(prog):
    """wire format of lean/ForML/Model/DslSchema.lean: ((via name (bases...) ((key noname|(name s) kind)...))...)"""
    return tuple((via, name, tuple(bases), tuple((key, 'noname' if fname is None else ('name', fname), kind)
                                                 for key, fname, kind in ns)) for via, name, bases, ns in prog)


if __name__ == '__main__' and '--fresh' in sys.argv:
    sys.path.insert(0, os.path.dirname(os.path.dirname(os.path.abspath(__file__))))
    # this file runs as `__main__`: make the relative names above resolvable the way the package does
    from props import c08schema as _self  # noqa: E402

    _self._fresh_main()  # pylint: disable=protected-access
