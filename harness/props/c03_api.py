"""C03 - operators written against the PUBLIC composition API, the way user code does (the property text: "... or from
operators written against the public composition API").

AST (extends the grammar of props/pipegen.py; pipegen itself is shared with C04/C12 and does not know these kinds, so
this module provides `build / retag / shape / kinds / leaves / to_library / composition` that handle them and delegate
everything else to pipegen):

    ['api', 'extend', apply_tag|'none', train_tag|'none', label_tag|'none', 'true'|'false']
        one `left.extend(apply=..., train=..., label=...)` call supplying a fresh stateless 1:1 `flow.Worker` for exactly
        the given subset of segments (as bare nodes; the other arguments are omitted), or - last field 'true' -
        `left.use(apply=left.apply.extend(worker), ...)`
    ['api', 'labelmix', tag]
        labels rewritten from the labels and the TRAIN-MODE FEATURES: a 2:1 worker fed by a `Future` head (port 0) and,
        as an untrained side branch, by the tail of the train segment (port 1); `left.extend(label=Segment(head, mixer))`
        - the train and apply segments are not supplied
    ['api', 'monitor', [tag, True]]
        a trained side branch: a stateful worker trained on the train / label tails; the trunk is returned as it is
    ['api', 'tee', tag]
        an untrained side branch (sink) subscribed to the tail of the train segment; the trunk is returned as it is
    ['api', 'branch', split_tag, szout, [[arm_tag, output_port], ...], merge_tag]
        a MULTI-OUTPUT worker: splitter 1 -> szout, one stateless arm per listed output port of the splitter, a k:1 merger;
        on the apply and the train path. Not in the Lean expansion model (evaluated against the oracle and the copy check only)

Hand-written denotations: `denote_api` (used by the oracle in c03.py); Lean twin: `Compose.ApiOp` / `denoteApi`.
"""
from __future__ import annotations

import itertools

from . import pipegen as pg

NONE = pg.NONE


# ---- real operators ----------------------------------------------------------------------------------
def _classes():
    if 'c03api' in pg._CACHE:  # pylint: disable=protected-access
        return pg._CACHE['c03api']  # pylint: disable=protected-access
    from forml import flow

    class Extend(flow.Operator):
        """`left.extend(...)` / `left.use(...)` with a subset of the three segments supplied."""

        def __init__(self, apply, train, label, via_use):
            self._builders = (apply, train, label)
            self._via_use = via_use

        def compose(self, scope):
            left = scope.expand()
            apply, train, label = self._builders
            if self._via_use:
                return left.use(
                    apply=left.apply.extend(flow.Worker(apply, 1, 1)) if apply else None,
                    train=left.train.extend(flow.Worker(train, 1, 1)) if train else None,
                    label=left.label.extend(flow.Worker(label, 1, 1)) if label else None,
                )
            kwargs = {}
            if apply:
                kwargs['apply'] = flow.Worker(apply, 1, 1)
            if train:
                kwargs['train'] = flow.Worker(train, 1, 1)
            if label:
                kwargs['label'] = flow.Worker(label, 1, 1)
            return left.extend(**kwargs)

    class LabelMix(flow.Operator):
        """labels' = mix(labels, train-mode features); the feature paths are not touched."""

        def __init__(self, mixer):
            self._mixer = mixer

        def compose(self, scope):
            left = scope.expand()
            head = flow.Future()
            mixer = flow.Worker(self._mixer, 2, 1)
            mixer[0].subscribe(head[0])
            mixer[1].subscribe(left.train.publisher)
            return left.extend(label=flow.Segment(head, mixer))

    class Monitor(flow.Operator):
        """A trained side branch; nothing is extended."""

        def __init__(self, builder):
            self._builder = builder

        def compose(self, scope):
            left = scope.expand()
            flow.Worker(self._builder, 1, 1).train(left.train.publisher, left.label.publisher)
            return left

    class Tee(flow.Operator):
        """An untrained side branch (sink) on the tail of the train segment; nothing is extended."""

        def __init__(self, builder):
            self._builder = builder

        def compose(self, scope):
            left = scope.expand()
            flow.Worker(self._builder, 1, 1)[0].subscribe(left.train.publisher)
            return left

    class Branch(flow.Operator):
        """split (1 -> n outputs) -> one 1:1 arm per chosen OUTPUT PORT of the splitter -> merge (k -> 1), put on the apply
        and on the train path (fresh workers per mode): subscriptions published from output ports > 0."""

        def __init__(self, splitter, szout, arms, merger):
            self._splitter, self._szout, self._arms, self._merger = splitter, szout, arms, merger

        def compose(self, scope):
            def mode(segment):
                split = flow.Worker(self._splitter, 1, self._szout)
                merge = flow.Worker(self._merger, len(self._arms), 1)
                for i, (builder, out) in enumerate(self._arms):
                    arm = flow.Worker(builder, 1, 1)
                    arm[0].subscribe(split[out])
                    merge[i].subscribe(arm[0])
                return segment.extend(flow.Segment(split, merge))

            left = scope.expand()
            return left.use(apply=mode(left.apply), train=mode(left.train))

    pg._CACHE['c03api'] = (Extend, LabelMix, Monitor, Tee)  # pylint: disable=protected-access
    pg._CACHE['c03branch'] = Branch  # pylint: disable=protected-access
    return pg._CACHE['c03api']  # pylint: disable=protected-access


def _build_api(ast):
    Extend, LabelMix, Monitor, Tee = _classes()
    form = ast[1]
    if form == 'extend':
        builders = [None if t == NONE else pg.actor_builder([t, False]) for t in ast[2:5]]
        return Extend(*builders, ast[5] == 'true')
    if form == 'labelmix':
        return LabelMix(pg.actor_builder([ast[2], False]))
    if form == 'monitor':
        return Monitor(pg.actor_builder(ast[2]))
    if form == 'tee':
        return Tee(pg.actor_builder([ast[2], False]))
    if form == 'branch':
        _, _, split, szout, arms, merge = ast
        return pg._CACHE['c03branch'](  # pylint: disable=protected-access
            pg.actor_builder([split, False], szout=int(szout)), int(szout),
            [(pg.actor_builder([t, False]), int(o)) for t, o in arms], pg.actor_builder([merge, False]))
    raise ValueError(f'unknown api operator {form!r}')


def has_api(ast) -> bool:
    k = ast[0]
    if k == 'api':
        return True
    if k == 'seq':
        return has_api(ast[1]) or has_api(ast[2])
    if k == 'stack':
        return any(has_api(b) for b in ast[1])
    return False


def build(ast):
    """Fresh real composable for the AST (pipegen.build + the api kinds, at any depth)."""
    if not has_api(ast):
        return pg.build(ast)
    k = ast[0]
    if k == 'api':
        return _build_api(ast)
    if k == 'seq':
        return build(ast[1]) >> build(ast[2])
    if k == 'stack':
        from forml.pipeline import ensemble

        _, bases, nsplits, splitter, appender, stacker, reducer = ast
        return ensemble.FullStack(
            *(build(b) for b in bases),
            splitter=pg.actor_builder([splitter, True], szout=2 * int(nsplits)),
            nsplits=int(nsplits),
            appender=pg.actor_builder([appender, False]),
            stacker=pg.actor_builder([stacker, False]),
            reducer=pg.actor_builder([reducer, False]),
        )
    raise ValueError(k)


def composition(ast):
    from forml import flow

    return flow.Composition(pg.source(), build(ast))


# ---- AST utilities -----------------------------------------------------------------------------------
def retag(ast, counter=None):
    counter = counter or itertools.count(1)
    k = ast[0]
    if k == 'api':
        form = ast[1]
        if form == 'extend':
            return ['api', 'extend'] + [NONE if t == NONE else next(counter) for t in ast[2:5]] + [ast[5]]
        if form == 'monitor':
            return ['api', 'monitor', [next(counter), bool(ast[2][1])]]
        if form == 'branch':
            split = next(counter)
            arms = [[next(counter), int(o)] for _, o in ast[4]]
            return ['api', 'branch', split, int(ast[3]), arms, next(counter)]
        return ['api', form, next(counter)]
    if k == 'seq':
        left = retag(ast[1], counter)
        return ['seq', left, retag(ast[2], counter)]
    if k == 'stack':
        tags = [next(counter) for _ in range(4)]
        return ['stack', [retag(b, counter) for b in ast[1]], int(ast[2])] + tags
    return pg.retag(ast, counter)


def to_library(ast):
    k = ast[0]
    if k == 'api':
        return ast
    if k == 'seq':
        return ['seq', to_library(ast[1]), to_library(ast[2])]
    if k == 'stack':
        return ['stack', [to_library(b) for b in ast[1]]] + list(ast[2:])
    return pg.to_library(ast)


def leaves(ast) -> int:
    if ast[0] == 'seq':
        return leaves(ast[1]) + leaves(ast[2])
    if ast[0] == 'stack':
        return 1 + sum(leaves(b) for b in ast[1])
    return 1


def kinds(ast) -> set:
    if ast[0] == 'seq':
        return kinds(ast[1]) | kinds(ast[2])
    if ast[0] == 'stack':
        return {'stack'}.union(*(kinds(b) for b in ast[1]))
    return {ast[0]}


def shape(ast) -> str:
    k = ast[0]
    if k == 'api':
        form = ast[1]
        if form == 'extend':
            return 'x' + ('u' if ast[5] == 'true' else 'e') + '[' + ''.join('-' if t == NONE else c for t, c in zip(ast[2:5], 'atl')) + ']'
        if form == 'branch':
            return f'br{ast[3]}[' + ''.join(str(o) for _, o in ast[4]) + ']'
        return {'labelmix': 'lmix', 'monitor': 'mon', 'tee': 'tee'}[form]
    if k == 'seq':
        return f'({shape(ast[1])}>{shape(ast[2])})'
    if k == 'stack':
        return f'stk{ast[2]}[' + ','.join(shape(b) for b in ast[1]) + ']'
    return pg.shape(ast)


def maps_train(ast) -> bool:
    """Some worker is put on the train path."""
    k = ast[0]
    if k == 'api':
        return ast[1] == 'branch' or (ast[1] == 'extend' and ast[3] != NONE)
    if k == 'seq':
        return maps_train(ast[1]) or maps_train(ast[2])
    if k == 'wrap':
        return ast[3] != NONE
    return k in ('mapreduce', 'stack', 'custom')


# ---- denotation (hand-written, from the operators' intent) -------------------------------------------
def denote_api(ast, scope, Sem):
    form = ast[1]

    def fn(tag, *xs):
        return ('apply', tag, None, tuple(xs))

    if form == 'extend':
        oa, ot, ol = ast[2:5]

        def extend(xa, xt, xl):
            s = scope(xa, xt, xl)
            return Sem(s.apply if oa == NONE else fn(oa, s.apply), s.train if ot == NONE else fn(ot, s.train),
                       s.label if ol == NONE else fn(ol, s.label), s.states)

        return extend
    if form == 'labelmix':

        def labelmix(xa, xt, xl):
            s = scope(xa, xt, xl)
            return Sem(s.apply, s.train, fn(ast[2], s.label, s.train), s.states)

        return labelmix
    if form == 'monitor':
        tag = ast[2][0]

        def monitor(xa, xt, xl):
            s = scope(xa, xt, xl)
            return Sem(s.apply, s.train, s.label, s.states + ((tag, ('state', tag, None, s.train, s.label)),))

        return monitor
    if form == 'tee':
        return scope
    if form == 'branch':
        _, _, split, _, arms, merge = ast

        def through(x):
            return fn(merge, *(fn(t, ('proj', int(o), fn(split, x))) for t, o in arms))

        def branch(xa, xt, xl):
            s = scope(xa, xt, xl)
            return Sem(through(s.apply), through(s.train), s.label, s.states)

        return branch
    raise ValueError(form)


# ---- generation --------------------------------------------------------------------------------------
def api_leaves() -> list:
    """Every api operator form (tags are placeholders): all 7 non-empty subsets x extend/use, the three side-branch forms."""
    out = []
    for via in ('false', 'true'):
        for mask in itertools.product([False, True], repeat=3):
            if any(mask):
                out.append(['api', 'extend'] + [0 if m else NONE for m in mask] + [via])
    out += [['api', 'labelmix', 0], ['api', 'monitor', [0, True]], ['api', 'tee', 0]]
    return out


def has_branch(ast) -> bool:
    k = ast[0]
    if k == 'api':
        return ast[1] == 'branch'
    if k == 'seq':
        return has_branch(ast[1]) or has_branch(ast[2])
    if k == 'stack':
        return any(has_branch(b) for b in ast[1])
    return False


def branch_leaf(rng) -> list:
    """A multi-output operator: splitter with 2-4 output ports, 1-3 arms on random output ports (at least one > 0)."""
    szout = rng.choice([2, 2, 3, 4])
    arms = [[0, rng.randrange(szout)] for _ in range(rng.choice([1, 2, 2, 3]))]
    if all(o == 0 for _, o in arms):
        arms[rng.randrange(len(arms))][1] = rng.randrange(1, szout)
    return ['api', 'branch', 0, szout, arms, 0]
