"""C15 — served entries reach the pipeline in the query's schema; Dense/Frame matrix semantics; Slicer.

Real code driven: `Reader.__call__` (a concrete subclass, `layout.Entry`, both `layout.Dense` and `layout.Frame`),
`Reader._match_entry` directly for name arrangements that `dsl.Schema` itself refuses (duplicates),
`Dense/Frame.to_rows/to_columns/take_rows/take_columns`, `extract.Slicer` (via `from_columns`), `extract.RowDriver`,
`extract.TableDriver`, and the serving path `layout.get_decoder(...).loads(request) -> Entry -> Reader`.
Model: lean/ForML/Model/Entry.lean through drv_c15.
"""
from __future__ import annotations

import datetime
import itertools
import numbers

from core import framework as fw
from core import sexp

KIND_NAMES = ['boolean', 'integer', 'float', 'decimal', 'string', 'date', 'timestamp']
KIND_CLASS = {'boolean': 'Boolean', 'integer': 'Integer', 'float': 'Float', 'decimal': 'Decimal', 'string': 'String',
              'date': 'Date', 'timestamp': 'Timestamp'}
SIG_D16 = 'cast-kind-paired-with-unpermuted-entry-schema'


# ---- canonical form of a payload cell: (type class, value) -----------------------------------------------
def canon(v):
    import numpy
    import pandas

    if isinstance(v, (bool, numpy.bool_)):
        return ['bool', bool(v)]
    if isinstance(v, numbers.Integral):
        return ['int', int(v)]
    if isinstance(v, (float, numpy.floating)):
        return ['float', int(v)] if float(v).is_integer() else ['float', repr(float(v))]
    if isinstance(v, str):
        return ['str', str(v)]
    if isinstance(v, (pandas.Timestamp, datetime.datetime)):
        return ['ts', v.isoformat()]
    if isinstance(v, datetime.date):
        return ['date', v.isoformat()]
    return ['other', type(v).__name__]


def read_columns(tab):
    """Cells column by column (never row-wise: a pandas row of mixed dtypes is up-cast)."""
    cols = tab.to_columns()
    return [[canon(v) for v in cols[j]] for j in range(len(cols))]


def read_rows(tab_rows):
    return [[canon(v) for v in tab_rows[i]] for i in range(len(tab_rows))]


class CastFailed(Exception):
    pass


def materialise(case):
    """The entry payload as Python values: cases stay JSON-able, so columns whose *entry* kind is date / timestamp are
    written as ISO strings in the case and turned into `datetime.date` / `datetime.datetime` objects here."""
    out = []
    for (_, kind), col in zip(case['e'], case['data']):
        if kind == 'date':
            out.append([datetime.date.fromisoformat(v) for v in col])
        elif kind == 'timestamp':
            out.append([datetime.datetime.fromisoformat(v) for v in col])
        else:
            out.append(list(col))
    return out + [list(c) for c in case['data'][len(case['e']):]]


def model_cast(kind: str, v):
    """Python half of the model: interpretation of the uninterpreted `cast k v` of Entry.lean, mirroring
    `Primitive.cast` (instance short-cut, then the constructor). Written here, forml is not called."""
    import pandas

    try:
        if kind == 'integer':
            return v if isinstance(v, numbers.Integral) else int(v)
        if kind == 'float':
            return v if isinstance(v, numbers.Real) else float(v)
        if kind == 'string':
            return v if isinstance(v, str) else str(v)
        if kind == 'date':
            return v if isinstance(v, datetime.date) else pandas.to_datetime(v).date()
        if kind == 'timestamp':
            return v if isinstance(v, datetime.datetime) else pandas.to_datetime(v)
    except (ValueError, TypeError) as err:
        raise CastFailed(kind) from err
    raise fw.MachineryError(f'kind {kind} is not interpreted by the harness')


def eval_term(t, cols):
    if t[0] == 'c':
        return cols[int(t[2])][int(t[1])]
    if t[0] == 'k':
        return model_cast(t[1], eval_term(t[2], cols))
    raise fw.MachineryError(f'bad model term {t}')


# ---- spec (oracle) side, written from the property text -----------------------------------------------------
def _number(s):
    """The number a source cell denotes (None if it denotes none)."""
    if isinstance(s, bool):
        return None
    if isinstance(s, (int, float)):
        return s
    if isinstance(s, str):
        try:
            return int(s)
        except ValueError:
            try:
                return float(s)
            except ValueError:
                return None
    return None


def spec_castable(kind: str, s) -> bool:
    """Does the source cell denote a value of the declared kind?"""
    if kind in ('integer', 'float'):
        n = _number(s)
        return n is not None and (kind == 'float' or float(n).is_integer())
    if kind == 'string':
        return True
    if kind in ('date', 'timestamp'):
        if isinstance(s, datetime.date):  # a date or a timestamp (a timestamp is a date, a date is a timestamp at midnight)
            return True
        if not isinstance(s, str):
            return False
        try:
            datetime.datetime.fromisoformat(s)
            return True
        except ValueError:
            return False
    return False


def _moment(s):
    """The date / point in time a source cell denotes (dates as midnight)."""
    if isinstance(s, datetime.datetime):
        return s
    if isinstance(s, datetime.date):
        return datetime.datetime.combine(s, datetime.time())
    return datetime.datetime.fromisoformat(s)


def spec_conforms(kind: str, s, o) -> bool:
    """Is the delivered cell `o` the source cell `s` as a value of the declared kind?"""
    import numpy

    if kind == 'integer':
        return isinstance(o, numbers.Integral) and not isinstance(o, (bool, numpy.bool_)) and o == _number(s)
    if kind == 'float':  # the numeric tower: an integral value is a real
        return isinstance(o, numbers.Real) and not isinstance(o, (bool, numpy.bool_)) and o == _number(s)
    if kind == 'string':
        if not isinstance(o, str):
            return False
        if isinstance(s, str):
            return o == s
        if isinstance(s, datetime.date):  # some text denoting the same date / moment
            try:
                return _moment(o.strip()) == _moment(s)
            except ValueError:
                return False
        return _number(o) == s
    if kind == 'date':  # forml's kind lattice: a timestamp is a date (Timestamp subclasses Date, datetime subclasses date)
        if not isinstance(o, datetime.date):
            return False
        if isinstance(o, datetime.datetime):
            return isinstance(s, datetime.datetime) and o == s
        return o == _moment(s).date()
    if kind == 'timestamp':
        return isinstance(o, datetime.datetime) and o == _moment(s)
    return False


def norm_index(n: int, i: int):
    """Plain positional indexing of a length-n axis (Python/numpy convention for negatives)."""
    if 0 <= i < n:
        return i
    if -n <= i < 0:
        return n + i
    return None


class C15(fw.Check):
    ID = 'C15'
    LEAN_MODULES = ['ForML.Props.C15']
    DRIVER = 'drv_c15'
    RULE = ('(1) Reader._match_entry on name lists: every entry arrangement over the query names plus one foreign name '
            '(all permutations, supersets, missing, duplicates; exhaustive up to the stated sizes, random for 5 fields); '
            '(2) Reader.__call__ with layout.Entry: query schemas of 1..5 fields x every permutation of the entry columns '
            '(+ extra / missing / duplicate-name / malformed arrangements) x kinds integer/float/string/date/timestamp drawn so '
            'that casts are needed x random data of 0..3 rows x Dense and Frame; every 7th delivered case again through '
            'RowDriver, every 5th through Slicer.from_columns + TableDriver + Slicer.apply; '
            '(2b) serving path: request bodies (csv, json records/columns/instances/inputs) -> real decoder -> Entry -> Reader; '
            '(3) Dense/Frame views and take_rows/take_columns for every index list up to the stated length over '
            '[-n-1, n] (repeats, negatives, out of range) on r x c matrices of distinct cells; (4) Slicer via from_columns. '
            'A case is distinct by its full input and non-trivial when the entry is not the identical arrangement / '
            'the index list is non-empty. Compared: refused vs delivered cells with their exact type class '
            '(int/float/str/date/ts); not the exception class, not Dense-vs-Frame of the result.')
    TRUSTED = [
        'pandas/numpy: DataFrame construction, iloc, ndarray.take, dtype coercion when a mixed-dtype row is materialised '
        '(cells are read column-wise; row-wise reads compare values only); functools.lru_cache on _match_entry',
        'harness/props/c15.py model_cast: the Python interpretation of the model\'s uninterpreted partial value cast, and the '
        'list of un-castable cells computed with it and sent to the model',
        'dsl.Schema refuses duplicate field names (observed on every run); duplicates reach _match_entry only when it is '
        'called directly',
        'the request decoders (layout.get_decoder, pandas schema inference) are exercised end to end but not modelled',
    ]
    ASSUMPTIONS = ['query field names are unique (dsl.Schema construction enforces it)',
                   'payload values are Python int/float/str/date/datetime (integral floats, decimal integer strings, ISO dates); '
                   'Boolean and Decimal kinds are not generated',
                   'compound kinds (Array/Map/Struct) are not cast-able in forml and are outside the model',
                   'serving requests have homogeneous columns (the decoder infers one kind per column from a sample)']

    # ---- generated table: the live kind lattice -----------------------------------------------------------
    def gen_tables(self):
        import sys
        if fw.REPO not in sys.path:
            sys.path.insert(0, fw.REPO)
        from forml.io.dsl._struct import kind as kindmod

        live = sorted(k.__name__ for k in kindmod.Primitive.__subkinds__)
        lines = ['/- GENERATED by harness/props/c15.py from the live classes of forml/io/dsl/_struct/kind.py — do not edit. -/',
                 'import ForML.Model.Entry', 'namespace ForML.Generated.C15Kinds', 'open ForML.Entry', '',
                 '/-- names of the non-abstract primitive kinds found in the imported module (sorted; informational) -/',
                 'def primitiveKinds : List String := [' + ', '.join(f'"{n}"' for n in live) + ']', '',
                 '/-- `X().match(Y())` evaluated on the live singletons (kinds the model does not know are left out) -/',
                 'def liveMatch : Kind → Kind → Bool']
        pairs = []
        for a in KIND_NAMES:
            for b in KIND_NAMES:
                ka, kb = getattr(kindmod, KIND_CLASS[a], None), getattr(kindmod, KIND_CLASS[b], None)
                if ka is None or kb is None:
                    continue
                if bool(ka().match(kb())):
                    lines.append(f'  | .{a}, .{b} => true')
                    pairs.append((a, b))
        lines += ['  | _, _ => false', '', 'end ForML.Generated.C15Kinds', '']
        snapshot = {(k, k) for k in KIND_NAMES} | {('date', 'timestamp')}
        if set(pairs) != snapshot or live != sorted(KIND_CLASS.values()):
            self.notes.append(f'the live kind lattice differs from the snapshot in Model/Entry.lean (kmatch): match pairs '
                              f'{sorted(set(pairs) ^ snapshot)}, primitive kinds {live}; the model runs with the live relation')
        return {'ForML/Generated/C15Kinds.lean': '\n'.join(lines)}

    # ---- real-code adapters -----------------------------------------------------------------------------
    _reader = None
    _shrunk: set = set()

    def reader(self):
        if self._reader is None:
            from forml.io._input import _producer

            class Reader(_producer.Reader):
                """Concrete reader: only the entry branch is exercised."""

                @classmethod
                def parser(cls, sources, features):
                    raise AssertionError('extraction mode is not part of C15')

                @classmethod
                def read(cls, statement, **kwargs):
                    raise AssertionError('extraction mode is not part of C15')

            self._reader = Reader({}, {})
        return self._reader

    @staticmethod
    def _kind(name: str):
        from forml.io import dsl
        return getattr(dsl, KIND_CLASS[name])()

    def _fields(self, fs):
        from forml.io import dsl
        return tuple(dsl.Field(self._kind(k), name=f'f{n}') for n, k in fs)

    def _tabular(self, impl: str, cols, names=None):
        import pandas
        from forml.io import layout
        if impl == 'dense':
            return layout.Dense.from_columns([list(c) for c in cols])
        names = names or list(range(len(cols)))
        return layout.Frame(pandas.DataFrame({n: list(c) for n, c in zip(names, cols)}))

    def run_match(self, q, e):
        """`Reader._match_entry` called directly on tuples of fields (kinds are irrelevant to it)."""
        fq = self._fields([(n, 'integer') for n in q])
        fe = self._fields([(n, 'integer') for n in e])
        try:
            complete, idx = self.reader()._match_entry(fq, fe)  # pylint: disable=protected-access
        except Exception as err:  # pylint: disable=broad-except
            return ['error', type(err).__name__]
        if not complete:
            return ['false']
        return ['true', 'none' if idx is None else [int(i) for i in idx]]

    def run_reader(self, case, via_driver=False):
        """The public path. case = {q, e, impl, data, query?}. Returns
        ['schema-error', cls] | ['error', cls] | ['data', 'dense'|'frame', columns of canonical cells]."""
        from forml.io import dsl, layout
        from forml.io._input import extract
        try:
            eschema = dsl.Schema.from_fields(*self._fields(case['e']))
        except Exception as err:  # pylint: disable=broad-except
            return ['schema-error', type(err).__name__]
        if case.get('query'):
            # the statement is a query selecting (in the query's order) from a wider base table
            base = sorted(case['q'])
            table = dsl.Table(dsl.Schema.from_fields(*self._fields(base)))
            statement = table.select(*(getattr(table, f'f{n}') for n, _ in case['q']))
        else:
            statement = dsl.Table(dsl.Schema.from_fields(*self._fields(case['q'])))
        entry = layout.Entry(eschema, self._tabular(case['impl'], materialise(case), [f'f{n}' for n, _ in case['e']]))
        try:
            if via_driver:
                rows = extract.RowDriver(self.reader(), extract.Statement.prepare(statement, None)).apply(entry)
                return ['rows', read_rows(rows)]
            out = extract.TableDriver(self.reader(), extract.Statement.prepare(statement, None)).apply(entry) \
                if case.get('table_driver') else self.reader()(statement, entry)
        except Exception as err:  # pylint: disable=broad-except
            return ['error', type(err).__name__]
        tag = 'dense' if isinstance(out, layout.Dense) else 'frame' if isinstance(out, layout.Frame) else type(out).__name__
        return ['data', tag, read_columns(out)]

    def run_sliced(self, case, nf, scalar):
        """The train-mode source path: `Slicer.from_columns(features, labels)` fixes the statement's columns, the
        `TableDriver` reads the entry through the real reader, the real `Slicer` splits the result.
        Returns ['ok', feature rows, label column | label rows] (cell values only) or ['error', cls]."""
        from forml.io import dsl, layout
        from forml.io._input import extract
        table = dsl.Table(dsl.Schema.from_fields(*self._fields(sorted(case['q']))))
        cols = [getattr(table, f'f{n}') for n, _ in case['q']]
        columns, builder = extract.Slicer.from_columns(cols[:nf], cols[nf] if scalar else cols[nf:])
        try:
            entry = layout.Entry(dsl.Schema.from_fields(*self._fields(case['e'])),
                                 self._tabular(case['impl'], materialise(case), [f'f{n}' for n, _ in case['e']]))
            data = extract.TableDriver(self.reader(), extract.Statement.prepare(table.select(*columns), None)).apply(entry)
            feats, labels = builder().apply(data)
            feats = [[v[1] for v in r] for r in read_rows(feats)]
            labels = [canon(v)[1] for v in labels] if scalar else [[v[1] for v in r] for r in read_rows(labels)]
            return ['ok', feats, labels]
        except Exception as err:  # pylint: disable=broad-except
            return ['error', type(err).__name__]

    # ---- oracle for the reader, from the property text ---------------------------------------------------------
    @staticmethod
    def oracle_reader(case, res):
        """[(what, signature-class)] — empty when the property holds on this case."""
        q, e, data = case['q'], case['e'], materialise(case)
        enames = [n for n, _ in e]
        if res[0] == 'schema-error':
            return []  # the entry never came into being: refused
        lacking = [n for n, _ in q if n not in enames]
        if lacking:
            if res[0] == 'error':
                return []
            return [(f'entry lacks required column(s) {lacking} but data was delivered', 'missing-column-not-refused')]
        ambiguous = {n for n, _ in q if enames.count(n) > 1}
        uncastable = [(n, k) for n, k in q if n not in ambiguous
                      and not all(spec_castable(k, v) for v in data[enames.index(n)])]
        if res[0] == 'error':
            if uncastable:
                return []
            return [(f'complete entry refused with {res[1]}', 'complete-entry-refused')]
        if uncastable:
            return [(f'values not denoting a {uncastable[0][1]} were delivered for column f{uncastable[0][0]}', 'uncastable-delivered')]
        raw = case.get('_raw')
        if len(raw) != len(q):
            return [(f'{len(raw)} columns delivered for a query of {len(q)}', 'delivered-column-count')]
        out = []
        for j, (n, k) in enumerate(q):
            if n in ambiguous:
                continue
            src = data[enames.index(n)]
            if len(raw[j]) != len(src):
                out.append((f'column {j} (f{n}) has {len(raw[j])} rows, the entry has {len(src)}', 'delivered-row-count'))
                continue
            for r, (s, o) in enumerate(zip(src, raw[j])):
                if not spec_conforms(k, s, o):
                    out.append((f'column {j} (f{n}:{k}) row {r}: entry value {s!r} delivered as {o!r} ({type(o).__name__})',
                                'wrong-cell'))
                    break
        return out

    def _reader_outcome(self, case, entry=None):
        """Run the real code once, keep the raw delivered cells for the oracle. `entry`: a ready-made `layout.Entry`
        (the serving path hands in what the real decoder produced) instead of one built from the case."""
        from forml.io import dsl, layout
        try:
            eschema = entry.schema if entry is not None else dsl.Schema.from_fields(*self._fields(case['e']))
        except Exception as err:  # pylint: disable=broad-except
            return ['schema-error', type(err).__name__]
        if case.get('query'):
            base = sorted(case['q'])
            table = dsl.Table(dsl.Schema.from_fields(*self._fields(base)))
            statement = table.select(*(getattr(table, f'f{n}') for n, _ in case['q']))
        else:
            statement = dsl.Table(dsl.Schema.from_fields(*self._fields(case['q'])))
        if entry is None:
            entry = layout.Entry(eschema, self._tabular(case['impl'], materialise(case), [f'f{n}' for n, _ in case['e']]))
        try:
            out = self.reader()(statement, entry)
            cols = out.to_columns()
            raw = [list(cols[j]) for j in range(len(cols))]
        except Exception as err:  # pylint: disable=broad-except
            return ['error', type(err).__name__]
        case['_raw'] = raw
        tag = 'dense' if isinstance(out, layout.Dense) else 'frame' if isinstance(out, layout.Frame) else type(out).__name__
        return ['data', tag, [[canon(v) for v in c] for c in raw]]

    @staticmethod
    def _bad_cells(case):
        """The cells on which the model's (uninterpreted, partial) value cast is undefined: `[kind, row, col]` for every
        entry cell that `model_cast` cannot turn into the kind the query declares for a column of that name."""
        qkind = {n: k for n, k in case['q']}
        bad = []
        for col, (n, _) in enumerate(case['e']):
            k = qkind.get(n)
            if k is None or col >= len(case['data']):
                continue
            for r, v in enumerate(materialise(case)[col]):
                try:
                    model_cast(k, v)
                except CastFailed:
                    bad.append([k, r, col])
        return bad

    def _model_reader(self, cases, variant='fixed'):
        lines = [sexp.dumps(['reader', variant, c['impl'], len(c['data'][0]) if c['data'] else 0,
                             [[n, k] for n, k in c['q']], [[n, k] for n, k in c['e']], self._bad_cells(c)]) for c in cases]
        out = []
        for c, ans in zip(cases, self.model(lines)):
            m = sexp.loads(ans)
            if m == 'missing':
                out.append(['error', 'MissingError'])
            elif m == 'cast-error':
                out.append(['error', 'CastError'])
            elif isinstance(m, list) and m and m[0] == 'data':
                try:
                    out.append(['data', m[1], [[canon(eval_term(t, materialise(c))) for t in col] for col in m[2]]])
                except CastFailed as err:
                    raise fw.MachineryError(f'the model delivered a term whose cast fails: {m} on {c}') from err
            else:
                out.append(['model', m])
        return out

    def check_reader_case(self, case, legacy_model=None):
        """Oracle on the real code; returns (impl result, [(what, signature)])."""
        res = self._reader_outcome(case)
        problems = self.oracle_reader(case, res) if res[0] != 'data' or '_raw' in case else []
        out = []
        for what, cls in problems:
            sig = cls
            if cls == 'wrong-cell' and legacy_model is not None and self.behaviour(res) == self.behaviour(legacy_model):
                sig = SIG_D16
            out.append((what, sig))
        return res, out

    @staticmethod
    def _public(case):
        return {k: v for k, v in case.items() if not k.startswith('_')}

    @staticmethod
    def behaviour(res):
        """What the property talks about: the entry was refused (whatever the exception class) or data was delivered
        (the cells, column by column; *not* whether the payload came back as a Dense or a Frame)."""
        if res[0] == 'error':
            return ['refused']
        if res[0] == 'data':
            return ['data', res[2]]
        return res

    # ---- generators -------------------------------------------------------------------------------------------------
    def _column(self, kind: str, nrows: int, target: str = None, malformed=False):
        rng = self.rng

        def day():
            return f'20{rng.randint(10, 29)}-{rng.randint(1, 12):02d}-{rng.randint(1, 28):02d}'

        if kind == 'integer':
            return [rng.randint(-99, 999) for _ in range(nrows)]
        if kind == 'float':
            return [float(rng.randint(-99, 999)) for _ in range(nrows)]
        if kind == 'date':  # ISO text in the case, `datetime.date` objects in the payload (see `materialise`)
            return [day() for _ in range(nrows)]
        if kind == 'timestamp':
            return [f'{day()}T{rng.randint(0, 23):02d}:{rng.randint(0, 59):02d}:{rng.randint(0, 59):02d}' for _ in range(nrows)]
        if kind == 'string':
            if target in ('date', 'timestamp'):
                return [day() for _ in range(nrows)]
            col = [str(rng.randint(-99, 999)) for _ in range(nrows)]
            if malformed and nrows:
                col[rng.randrange(nrows)] = 'x' + col[0]
            return col
        raise fw.MachineryError(kind)

    def _reader_case(self, qnames, arrangement, impl, nrows=None, force_cast=None, malformed=False, query=False):
        """Entry arrangement over the query names: a list of names (may repeat / lack / add)."""
        rng = self.rng
        nrows = nrows if nrows is not None else rng.choice([0, 1, 1, 2, 2, 3, 3, 3])
        q = []
        for n in qnames:
            q.append((n, rng.choice(['integer', 'float', 'string', 'integer', 'string', 'date', 'timestamp']
                                    if rng.random() < 0.25 else ['integer', 'float', 'string'])))
        qkind = dict(q)
        e, data = [], []
        for n in arrangement:
            target = qkind.get(n)
            if target in ('date', 'timestamp'):  # from ISO text, or between the two temporal kinds (date ⊇ timestamp)
                k = rng.choice(['string', 'string', 'date', 'timestamp'])
            elif target is not None and not (force_cast if force_cast is not None else rng.random() < 0.6):
                k = target
            elif target == 'string' and rng.random() < 0.15:
                k = rng.choice(['date', 'timestamp'])
            elif target is None and rng.random() < 0.1:
                k = rng.choice(['date', 'timestamp'])
            elif malformed and target in ('integer', 'float') and rng.random() < 0.2:
                k = rng.choice(['date', 'timestamp'])  # a temporal value is no number: refused
            else:
                k = rng.choice(['integer', 'float', 'string'])
            e.append((n, k))
            data.append(self._column(k, nrows, target, malformed and target in ('integer', 'float') and k == 'string'))
        return {'kind': 'reader', 'q': [list(x) for x in q], 'e': [list(x) for x in e], 'impl': impl, 'data': data,
                'query': bool(query)}

    def _reader_cases(self):
        rng = self.rng
        cases = []
        # corpus: the D16 witness shape and its neighbours
        corpus = [
            {'q': [[0, 'string'], [1, 'integer']], 'e': [[1, 'string'], [0, 'integer']], 'data': [['5', '6'], [7, 8]]},
            {'q': [[0, 'string'], [1, 'integer']], 'e': [[1, 'integer'], [0, 'integer']], 'data': [[5, 6], [7, 8]]},
            {'q': [[0, 'integer'], [1, 'float'], [2, 'string']], 'e': [[2, 'integer'], [0, 'string'], [1, 'string']],
             'data': [[1], ['2'], ['3']]},
            {'q': [[0, 'integer']], 'e': [[0, 'integer']], 'data': [[4, 5]]},
            {'q': [[0, 'integer']], 'e': [[0, 'string']], 'data': [['4', '5']]},
            {'q': [[0, 'integer'], [1, 'string']], 'e': [[0, 'integer'], [1, 'string'], [2, 'float']],
             'data': [[1], ['a'], [2.0]]},
            {'q': [[0, 'integer'], [1, 'string']], 'e': [[2, 'float'], [1, 'integer'], [0, 'float']],
             'data': [[2.0], [3], [4.0]]},
            {'q': [[0, 'integer'], [1, 'string']], 'e': [[1, 'string']], 'data': [['a']]},
            {'q': [[0, 'integer'], [1, 'string']], 'e': [[1, 'string'], [2, 'integer']], 'data': [['a'], [1]]},
            {'q': [[0, 'date'], [1, 'timestamp']], 'e': [[1, 'string'], [0, 'string']],
             'data': [['2021-03-04'], ['2020-01-02']]},
            {'q': [[0, 'integer'], [1, 'integer']], 'e': [[0, 'integer'], [0, 'integer'], [1, 'integer']],
             'data': [[1], [2], [3]]},
            # the temporal kinds: timestamp entry for a date query (no cast: a timestamp is a date), date entry for a
            # timestamp query (cast to midnight), both to text, and a date where a number is declared (refused)
            {'q': [[0, 'date'], [1, 'timestamp']], 'e': [[1, 'date'], [0, 'timestamp']],
             'data': [['2021-03-04'], ['2020-01-02T03:04:05']]},
            {'q': [[0, 'string'], [1, 'string']], 'e': [[1, 'date'], [0, 'timestamp']],
             'data': [['2021-03-04'], ['2020-01-02T03:04:05']]},
            {'q': [[0, 'integer'], [1, 'string']], 'e': [[1, 'string'], [0, 'date']], 'data': [['a'], ['2021-03-04']]},
            # payloads without rows keep the query's columns (identical, re-ordered + cast, superset)
            {'q': [[0, 'integer'], [1, 'string']], 'e': [[0, 'integer'], [1, 'string']], 'data': [[], []]},
            {'q': [[0, 'string'], [1, 'integer']], 'e': [[1, 'string'], [0, 'integer']], 'data': [[], []]},
            {'q': [[0, 'float']], 'e': [[2, 'float'], [0, 'integer'], [1, 'string']], 'data': [[], [], []]},
            # a value that cannot be cast: refused (identical and re-ordered arrangement)
            {'q': [[0, 'integer']], 'e': [[0, 'string']], 'data': [['4', 'x5']]},
            {'q': [[0, 'integer'], [1, 'string']], 'e': [[1, 'integer'], [0, 'string']], 'data': [[1, 2], ['4', 'x5']]},
        ]
        for c in corpus:
            for impl in ('dense', 'frame'):
                cases.append(dict(c, kind='reader', impl=impl, query=False))
        draws = self.n(5, 12)
        for k in range(1, 6):
            names = list(range(k))
            for perm in itertools.permutations(names):
                for _ in range(draws if k < 5 else max(1, draws // 4)):
                    qn = rng.sample(range(6), k)
                    arr = [qn[i] for i in perm]
                    for impl in ('dense', 'frame'):
                        cases.append(self._reader_case(qn, arr, impl, query=rng.random() < 0.3))
        for _ in range(self.n(1200, 6000)):
            k = rng.randint(1, 5)
            qn = rng.sample(range(6), k)
            others = [n for n in range(7) if n not in qn]
            arr = list(qn)
            style = rng.choice(['extra', 'extra-perm', 'missing', 'missing-extra', 'dup', 'perm-cast', 'malformed'])
            if style in ('extra', 'extra-perm', 'missing-extra'):
                for n in rng.sample(others, rng.randint(1, min(2, len(others)))):
                    arr.insert(rng.randint(0, len(arr)), n)
            if style in ('missing', 'missing-extra'):
                del arr[rng.randrange(len(arr))]
            if style in ('extra-perm', 'perm-cast', 'malformed'):
                rng.shuffle(arr)
            if style == 'dup':
                arr.insert(rng.randint(0, len(arr)), rng.choice(arr + others[:1]))
                rng.shuffle(arr)
            if not arr:
                arr = [others[0]]
            c = self._reader_case(qn, arr, rng.choice(['dense', 'frame']), force_cast=True if style == 'perm-cast' else None,
                                  malformed=style == 'malformed', query=rng.random() < 0.2)
            c['_style'] = style
            cases.append(c)
        return cases

    # ---- (1) _match_entry ---------------------------------------------------------------------------------
    @staticmethod
    def oracle_match(q, e, res):
        complete = all(n in e for n in q)
        if res[0] == 'error':  # an exception is a refusal too (the caller never gets data)
            return f'_match_entry raised {res[1]} although all query names are present' if complete else None
        if (res[0] == 'true') != complete:
            return f'complete={res[0]} but the query names are {"" if complete else "not "}all present'
        if complete:
            # `None` (identical) means "take the entry as it is", i.e. the identity positions; whether the reader then
            # really delivers just the query's columns is judged where the property lives (oracle_reader)
            idx = list(range(len(q))) if res[1] == 'none' else list(res[1])
            if [e[i] if 0 <= i < len(e) else None for i in idx] != list(q):
                return f'positions {idx} do not pick the query names in order'
        return None

    @staticmethod
    def match_behaviour(q, e, r):
        """Canonical form of a `_match_entry` answer: `None` (identical) is the identity index list; where the entry
        repeats a name the property only speaks of *a* column of that name, so the names picked are compared
        (which of the equally named columns — the last, as coded — is reported in the evidence notes, not diffed)."""
        if r[0] != 'true':
            return ['refused']  # `(False, None)` as coded, or an exception
        idx = list(range(len(q))) if r[1] == 'none' else list(r[1])
        if len(set(e)) < len(e):
            return ['true', 'names', [e[i] if 0 <= i < len(e) else ['out-of-range', i] for i in idx]]
        return ['true', idx]

    def _match(self):
        rng = self.rng
        cases = []
        kmax, lmax = self.n(3, 4), self.n(5, 6)
        for k in range(0, kmax + 1):
            q = list(range(k))
            for ln in range(0, min(lmax, k + 2) + 1):
                for e in itertools.product(range(k + 1), repeat=ln):
                    cases.append((q, list(e)))
        for _ in range(self.n(600, 6000)):
            k = rng.randint(1, 5)
            q = rng.sample(range(7), k)
            pool = q + rng.sample([n for n in range(8) if n not in q], 1)
            style = rng.random()
            if style < 0.4:
                e = rng.sample(q, k) + ([pool[-1]] if rng.random() < 0.4 else [])
                rng.shuffle(e)
            else:
                e = [rng.choice(pool) for _ in range(rng.randint(0, k + 2))]
            cases.append((q, e))
        answers = self.model([sexp.dumps(['match', q, e]) for q, e in cases])
        for (q, e), ans in zip(cases, answers):
            m = sexp.num(sexp.loads(ans))
            impl = self.run_match(q, e)
            dup = len(set(e)) < len(e)
            shape = ('identical' if e == q else 'permutation' if sorted(e) == sorted(q) and not dup else
                     'duplicate-names' if dup else 'superset' if set(q) < set(e) else 'missing')
            self.case(('match', tuple(q), tuple(e)), f'match k={len(q)} {shape}', nontrivial=e != q,
                      sample={'match': {'q': q, 'e': e, 'impl': impl}} if shape == 'permutation' and len(q) > 2 and len(self.samples) < 2 else None)
            if dup and impl[0] == 'true':
                self.extra.setdefault('duplicate_names', {'cases': 0, 'last_occurrence_taken': 0})
                self.extra['duplicate_names']['cases'] += 1
                self.extra['duplicate_names']['last_occurrence_taken'] += int(impl == m)
            if self.match_behaviour(q, e, impl) != self.match_behaviour(q, e, m):
                self.diverge('_match_entry result', {'kind': 'match', 'q': q, 'e': e}, impl, m)
            bad = self.oracle_match(q, e, impl)
            if bad:
                self.violate(f'_match_entry({q}, {e}): {bad}', {'kind': 'match', 'q': q, 'e': e}, 'match-entry-wrong')

    # ---- (2) Reader.__call__ ----------------------------------------------------------------------------------
    def _reader_part(self, cases=None, account=True):
        cases = cases if cases is not None else self._reader_cases()
        fixed = self._model_reader(cases, 'fixed')
        legacy = self._model_reader(cases, 'legacy')
        for i, (c, mf, ml) in enumerate(zip(cases, fixed, legacy)):
            res, problems = self.check_reader_case(c, ml)
            enames = [n for n, _ in c['e']]
            qnames = [n for n, _ in c['q']]
            shape = ('refused-at-schema' if res[0] == 'schema-error' else
                     'missing' if any(n not in enames for n in qnames) else
                     'identical' if enames == qnames else
                     'permutation' if sorted(enames) == sorted(qnames) else 'superset')
            needs_cast = any(k != dict(map(tuple, c['e'])).get(n, k) for n, k in c['q'])
            if account:
                self.case(('reader', repr(self._public(c))), f'reader k={len(qnames)} {shape} {c["impl"]}'
                          + (' cast' if needs_cast else ''), nontrivial=shape != 'identical' or needs_cast,
                          sample={'reader': self._public(c), 'delivered': res} if shape == 'permutation' and needs_cast and len(self.samples) < 5 else None)
                self.extra.setdefault('reader_outcomes', {})
                key = res[0] + (':' + res[1] if res[0] != 'data' else '')
                self.extra['reader_outcomes'][key] = self.extra['reader_outcomes'].get(key, 0) + 1
            if res[0] == 'schema-error':
                continue  # the model has no notion of an entry schema that cannot be built
            if self.behaviour(res) != self.behaviour(mf):
                self.diverge('Reader.__call__(statement, entry)', self._public(c), res, mf)
            for what, sig in problems:
                if sig in self._shrunk:  # the verdict keeps one witness per signature: shrink only the first
                    self.violate(what, self._public(c), sig)
                    continue
                self._shrunk.add(sig)
                w = self._shrink_reader(c, sig)
                self.violate(what if w is c else self._describe(w, sig) or what, self._public(w), sig)
            # the same entry through the row driver (values only: a mixed-dtype pandas row is up-cast)
            if account and res[0] == 'data' and not problems and i % 7 == 0:
                rows = self.run_reader(c, via_driver=True)
                want = [list(r) for r in zip(*res[2])] if res[2] and res[2][0] else []
                if rows[0] != 'rows' or [[v[1] for v in r] for r in rows[1]] != [[v[1] for v in r] for r in want]:
                    self.violate(f'RowDriver rows differ from the reader\'s columns transposed: {rows}',
                                 self._public(c), 'rowdriver-not-transposed')

            # ... and through the train-mode path: statement columns from Slicer.from_columns, TableDriver, Slicer.apply
            if account and res[0] == 'data' and not problems and i % 5 == 0 and len(c['q']) >= 2 and len(res[2]) == len(c['q']) \
                    and res[2][0]:
                nf = self.rng.randint(0, len(c['q']) - 1)
                scalar = nf == len(c['q']) - 1 and self.rng.random() < 0.7
                got = self.run_sliced(c, nf, scalar)
                rows = [[v[1] for v in r] for r in zip(*res[2])]
                want = ['ok', [r[:nf] for r in rows], [r[nf] for r in rows] if scalar else [r[nf:] for r in rows]]
                self.case(('sliced', repr(self._public(c)), nf, scalar), f'reader+slicer nf={nf} labels={"scalar" if scalar else len(c["q"]) - nf}')
                if got != want:
                    self.violate(f'features/labels after the slicer are not the query\'s first {nf} / remaining columns: {got} != {want}',
                                 dict(self._public(c), kind='sliced', nf=nf, scalar=scalar), 'reader-slicer-wrong-split')

    def _describe(self, case, sig):
        _, problems = self.check_reader_case(case, self._model_reader([case], 'legacy')[0])
        for what, s in problems:
            if s == sig:
                return what
        return None

    def _shrink_reader(self, case, sig):
        """Greedy: fewer rows, fewer entry columns, fewer query fields — while the same signature fails."""
        def fails(c):
            ml = self._model_reader([c], 'legacy')[0]
            _, problems = self.check_reader_case(c, ml)
            return any(s == sig for _, s in problems)

        cur = self._public(case)
        cur['impl'] = case['impl']
        progress = True
        while progress:
            progress = False
            cands = []
            nrows = len(cur['data'][0]) if cur['data'] else 0
            if nrows > 1:
                cands.append(dict(cur, data=[col[:1] for col in cur['data']]))
            for j in range(len(cur['e'])):
                cands.append(dict(cur, e=cur['e'][:j] + cur['e'][j + 1:], data=cur['data'][:j] + cur['data'][j + 1:]))
            for j in range(len(cur['q'])):
                cands.append(dict(cur, q=cur['q'][:j] + cur['q'][j + 1:]))
            for cand in cands:
                if cand['q'] and cand['e'] and fails(cand):
                    cur = {k: v for k, v in cand.items() if not k.startswith('_')}
                    progress = True
                    break
        return cur if fails(cur) else case

    # ---- (2b) the serving path end to end: request payload -> real decoder -> layout.Entry -> Reader ---------------
    ENCODINGS = ('csv', 'json-records', 'json-columns', 'json-instances', 'json-inputs')

    @staticmethod
    def encode_payload(fmt, names, cols):
        """A request body as a client would write it (independent of forml's encoders)."""
        import json
        nrows = len(cols[0]) if cols else 0
        if fmt == 'csv':
            def cell(v):
                return json.dumps(v) if isinstance(v, str) else repr(v)
            lines = [','.join(names)] + [','.join(cell(c[r]) for c in cols) for r in range(nrows)]
            return 'text/csv', ('\n'.join(lines) + '\n').encode()
        records = [{n: c[r] for n, c in zip(names, cols)} for r in range(nrows)]
        columns = {n: list(c) for n, c in zip(names, cols)}
        body = {'json-records': records, 'json-columns': columns, 'json-instances': {'instances': records},
                'json-inputs': {'inputs': columns}}[fmt]
        return 'application/json', json.dumps(body).encode()

    @staticmethod
    def _pyvalue(v):
        return v.item() if hasattr(v, 'item') else v

    def _serving_case(self):
        """Query schema + a request carrying its columns in some arrangement. Payload values are chosen so that the
        decoder's kind inference is unambiguous (ints, integral floats written with a fraction digit, non-numeric or —
        JSON only — numeric-looking strings) and so that casts are needed (int<->float<->string)."""
        rng = self.rng
        k = rng.randint(1, 5)
        qn = rng.sample(range(6), k)
        fmt = rng.choice(self.ENCODINGS)
        others = [n for n in range(7) if n not in qn]
        arr = list(qn)
        style = rng.choice(['perm', 'perm', 'extra-perm', 'extra-perm', 'identical', 'missing'])
        if style == 'extra-perm':
            for n in rng.sample(others, rng.randint(1, min(2, len(others)))):
                arr.insert(rng.randint(0, len(arr)), n)
        if style == 'missing':
            del arr[rng.randrange(len(arr))]
            if rng.random() < 0.5 or not arr:
                arr.insert(rng.randint(0, len(arr)), others[0])
        if style != 'identical':
            rng.shuffle(arr)
        nrows = rng.randint(1, 3)
        q, cols = [], []
        sent = {}
        for n in arr:
            kind = rng.choice(['int', 'float', 'word'] + (['numstr'] if fmt != 'csv' else []))
            sent[n] = kind
            if kind == 'int':
                cols.append([rng.randint(-99, 999) for _ in range(nrows)])
            elif kind == 'float':
                cols.append([float(rng.randint(-99, 999)) for _ in range(nrows)])
            elif kind == 'word':
                cols.append([rng.choice('abcdefgh') + str(rng.randint(0, 99)) for _ in range(nrows)])
            else:
                cols.append([str(rng.randint(-99, 999)) for _ in range(nrows)])
        for n in qn:
            have = sent.get(n)
            pool = {'int': ['integer', 'float', 'string'], 'float': ['float', 'integer', 'string'],
                    'word': ['string'], 'numstr': ['string', 'integer', 'float'], None: ['integer', 'float', 'string']}[have]
            q.append([n, rng.choice(pool)])
        return {'kind': 'serving', 'fmt': fmt, 'q': q, 'names': arr, 'payload': cols}

    def run_serving(self, case):
        """Real decoder, then the real reader. Returns (entry-or-None, reader case for the model, outcome)."""
        from forml.io import layout
        ctype, body = self.encode_payload(case['fmt'], [f'f{n}' for n in case['names']], case['payload'])
        try:
            entry = layout.get_decoder(layout.Encoding(ctype)).loads(body)
            enames = [int(f.name[1:]) for f in entry.schema]
            ekinds = [type(f.kind).__name__.lower() for f in entry.schema]
            cols = entry.data.to_columns()
            decoded = [[self._pyvalue(v) for v in cols[j]] for j in range(len(cols))]
        except Exception as err:  # pylint: disable=broad-except
            return None, None, ['decode-error', type(err).__name__]
        rcase = {'kind': 'reader', 'q': case['q'], 'e': [[n, k] for n, k in zip(enames, ekinds)], 'impl': 'frame',
                 'data': decoded, 'query': False}
        return entry, rcase, self._reader_outcome(rcase, entry)

    def oracle_serving(self, case, rcase, res):
        """End to end, from the request as sent: the property on (query, request columns) -> delivered data."""
        sent = {'kind': 'reader', 'q': case['q'], 'e': [[n, None] for n in case['names']], 'data': case['payload']}
        if res[0] == 'decode-error':
            return [(f'request not decoded: {res[1]}', 'request-not-decoded')]
        if rcase is not None and '_raw' in rcase:
            sent['_raw'] = rcase['_raw']
        return self.oracle_reader(sent, res)

    def _serving_part(self):
        cases = [self._serving_case() for _ in range(self.n(1000, 6000))]
        ran = [(c,) + self.run_serving(c) for c in cases]
        tied = [(c, rc, res) for c, _, rc, res in ran if rc is not None]
        models = self._model_reader([rc for _, rc, _ in tied], 'fixed') if tied else []
        by_case = {id(c): m for (c, _, _), m in zip(tied, models)}
        for c, _, rc, res in ran:
            complete = all(n in c['names'] for n, _ in c['q'])
            identical = [n for n, _ in c['q']] == c['names']
            self.case(('serving', repr(c)), f'serving {c["fmt"]} k={len(c["q"])} '
                      + ('missing' if not complete else 'identical' if identical else 'rearranged'),
                      nontrivial=not identical,
                      sample={'serving': c, 'delivered': res} if complete and not identical and len(c['q']) > 2 else None)
            self.extra.setdefault('serving_outcomes', {})
            key = res[0] + (':' + res[1] if res[0] != 'data' else '')
            self.extra['serving_outcomes'][key] = self.extra['serving_outcomes'].get(key, 0) + 1
            m = by_case.get(id(c))
            if m is not None and self.behaviour(res) != self.behaviour(m):
                self.diverge('Reader.__call__(statement, decoded entry)', self._public(rc), res, m)
            for what, sig in self.oracle_serving(c, rc, res):
                self.violate(f'{c["fmt"]} request {c["names"]}: {what}', self._public(c), 'serving-' + sig)

    # ---- (3) Dense / Frame --------------------------------------------------------------------------------------
    def _mk(self, impl, rows, ncols):
        import numpy
        import pandas
        from forml.io import layout
        if impl == 'dense':
            return layout.Dense.from_rows(numpy.array(rows, dtype=object).reshape(len(rows), ncols))
        return layout.Frame(pandas.DataFrame(rows, columns=list(range(ncols))))

    @staticmethod
    def _ints(matrix):
        return [[v[1] if v[0] == 'int' else v for v in r] for r in matrix]

    def _take_impl(self, impl, rows, ncols, axis, idx):
        t = self._mk(impl, rows, ncols)
        try:
            r = t.take_rows(idx) if axis == 'rows' else t.take_columns(idx)
            rr, cc = r.to_rows(), r.to_columns()
            return ['ok', self._ints(read_rows(rr)), self._ints(read_rows(cc)), len(rr), len(cc), type(r).__name__]
        except Exception:  # pylint: disable=broad-except
            return 'index-error'  # refused, whatever the exception class (IndexError as coded)

    @staticmethod
    def oracle_take(rows, ncols, axis, idx):
        """Plain matrix semantics."""
        n = len(rows) if axis == 'rows' else ncols
        ks = [norm_index(n, i) for i in idx]
        if any(k is None for k in ks):
            return 'index-error'
        if axis == 'rows':
            out = [list(rows[k]) for k in ks]
            width = ncols
        else:
            out = [[r[k] for k in ks] for r in rows]
            width = len(ks)
        return ['ok', out, [[r[j] for r in out] for j in range(width)]]

    def _tabular_part(self):
        rng = self.rng
        dims = [(r, c) for r in range(1, 4) for c in range(1, 4)]
        lmax = self.n(3, 4)
        cases = []
        for r, c in dims:
            rows = [[10 * (i + 1) + (j + 1) for j in range(c)] for i in range(r)]
            for axis in ('rows', 'cols'):
                n = r if axis == 'rows' else c
                alphabet = list(range(-n - 1, n + 1))
                for ln in range(0, lmax + 1):
                    for idx in itertools.product(alphabet, repeat=ln):
                        if self.quick and ln == 3 and n == 3 and rng.random() < 0.5:
                            continue
                        for impl in ('dense', 'frame'):
                            cases.append((impl, rows, c, axis, list(idx)))
        for _ in range(self.n(200, 2000)):  # larger matrices / longer lists, random
            r, c = rng.randint(1, 5), rng.randint(1, 5)
            rows = [[rng.randint(-999, 999) for _ in range(c)] for _ in range(r)]
            axis = rng.choice(['rows', 'cols'])
            n = r if axis == 'rows' else c
            idx = [rng.randint(-n - (rng.random() < 0.15), n - (rng.random() > 0.15)) for _ in range(rng.randint(0, 6))]
            cases.append((rng.choice(['dense', 'frame']), rows, c, axis, idx))
        answers = self.model([sexp.dumps(['take', axis, impl, c, rows, idx]) for impl, rows, c, axis, idx in cases])
        for (impl, rows, c, axis, idx), ans in zip(cases, answers):
            m = sexp.num(sexp.loads(ans))
            got = self._take_impl(impl, rows, c, axis, idx)
            want = self.oracle_take(rows, c, axis, idx)
            self.case(('take', impl, tuple(map(tuple, rows)), axis, tuple(idx)),
                      f'take_{axis} {impl} {len(rows)}x{c} len={len(idx)}' + (' error' if want == 'index-error' else ''),
                      nontrivial=bool(idx))
            view = got[:3] if isinstance(got, list) and got[0] == 'ok' else got
            if view != m:
                self.diverge(f'take_{axis}', {'kind': 'take', 'impl': impl, 'rows': rows, 'ncols': c, 'axis': axis, 'idx': idx},
                             view, m)
            bad = None
            if view != want:
                bad = f'{impl}.take_{axis}({idx}) of {rows}: got {view}, matrix semantics give {want}'
            elif isinstance(got, list) and got[0] == 'ok' and (got[3] != len(want[1]) or got[4] != len(want[2])):
                bad = f'{impl}.take_{axis}({idx}): len(to_rows())={got[3]}, len(to_columns())={got[4]}'
            if bad:
                self.violate(bad, {'kind': 'take', 'impl': impl, 'rows': rows, 'ncols': c, 'axis': axis, 'idx': idx},
                             f'take-{axis}-not-matrix-semantics')
        # views of the untouched payload (both constructors of Dense)
        from forml.io import layout
        for r, c in dims + [(rng.randint(1, 6), rng.randint(1, 6)) for _ in range(self.n(20, 200))]:
            rows = [[rng.randint(-999, 999) for _ in range(c)] for _ in range(r)]
            cols = [[row[j] for row in rows] for j in range(c)]
            for name, t in (('dense.from_rows', self._mk('dense', rows, c)), ('dense.from_columns', layout.Dense.from_columns(cols)),
                            ('frame', self._mk('frame', rows, c))):
                gr, gc = self._ints(read_rows(t.to_rows())), self._ints(read_rows(t.to_columns()))
                self.case(('views', name, tuple(map(tuple, rows))), f'views {name}', nontrivial=r > 1 and c > 1)
                if gr != rows or gc != cols or len(t.to_rows()) != r or len(t.to_columns()) != c:
                    self.violate(f'{name}: to_rows={gr} to_columns={gc} for rows {rows}',
                                 {'kind': 'views', 'impl': name, 'rows': rows, 'ncols': c}, 'views-not-transposed')

    # ---- (4) Slicer ------------------------------------------------------------------------------------------
    def _slicer_impl(self, impl, rows, ncols, nf, nl):
        from forml.io import dsl
        from forml.io._input import extract
        table = dsl.Table(dsl.Schema.from_fields(*self._fields([(j, 'integer') for j in range(ncols + 3)])))
        feats = [getattr(table, f'f{j}') for j in range(nf)]
        labels = getattr(table, f'f{nf}') if nl is None else [getattr(table, f'f{nf + j}') for j in range(nl)]
        columns, builder = extract.Slicer.from_columns(feats, labels)
        names = [c.name for c in columns]
        actor = builder()
        try:
            f, lab = actor.apply(self._mk(impl, rows, ncols))
            f = self._ints(read_rows(f))
            if nl is None:
                return ['ok', f, ['scalar', [canon(v)[1] for v in lab]]], names
            return ['ok', f, ['vector', self._ints(read_rows(lab))]], names
        except Exception:  # pylint: disable=broad-except
            return 'index-error', names

    def _slicer_part(self):
        rng = self.rng
        cases = []
        for r in (1, 2, 3):
            for c in range(1, 5):
                rows = [[10 * (i + 1) + (j + 1) for j in range(c)] for i in range(r)]
                for nf in range(0, c + 1):
                    for nl in [None] + list(range(0, c - nf + 2)):
                        for impl in ('dense', 'frame'):
                            cases.append((impl, rows, c, nf, nl))
        for _ in range(self.n(50, 500)):
            r, c = rng.randint(1, 4), rng.randint(2, 6)
            rows = [[rng.randint(-99, 99) for _ in range(c)] for _ in range(r)]
            nf = rng.randint(0, c - 1)
            nl = rng.choice([None, rng.randint(1, c - nf)])
            cases.append((rng.choice(['dense', 'frame']), rows, c, nf, nl))
        answers = self.model([sexp.dumps(['slicer', impl, c, rows, nf, nl]) for impl, rows, c, nf, nl in cases])
        for (impl, rows, c, nf, nl), ans in zip(cases, answers):
            m = sexp.num(sexp.loads(ans))
            got, names = self._slicer_impl(impl, rows, c, nf, nl)
            width = 1 if nl is None else nl
            fits = nf + width <= c
            # spec: the combined column list is features then labels; the slicer splits it back positionally
            if fits:
                feats = [r_[:nf] for r_ in rows]
                want = ['ok', feats, ['scalar', [r_[nf] for r_ in rows]] if nl is None
                        else ['vector', [r_[nf:nf + nl] for r_ in rows]]]
            else:
                want = None  # the dataset is narrower than the statement's columns: not the property's business
            self.case(('slicer', impl, tuple(map(tuple, rows)), nf, nl),
                      f'slicer {impl} nf={nf} labels={"scalar" if nl is None else nl}' + ('' if fits else ' too-narrow'),
                      nontrivial=fits and nf > 0)
            if got != m:
                self.diverge('Slicer.apply', {'kind': 'slicer', 'impl': impl, 'rows': rows, 'ncols': c, 'nf': nf, 'nl': nl}, got, m)
            if names != [f'f{j}' for j in range(nf + width)]:
                self.violate(f'from_columns combined {names}', {'kind': 'slicer', 'impl': impl, 'rows': rows, 'ncols': c,
                                                                'nf': nf, 'nl': nl}, 'slicer-columns')
            if want is not None and got != want:
                self.violate(f'Slicer({nf}, {nl}) on {rows}: got {got}, positional split gives {want}',
                             {'kind': 'slicer', 'impl': impl, 'rows': rows, 'ncols': c, 'nf': nf, 'nl': nl}, 'slicer-wrong-split')

    # ---- framework hooks -----------------------------------------------------------------------------------------
    def correspondence(self):
        from forml.io import dsl
        self._shrunk = set()
        try:
            dsl.Schema.from_fields(*self._fields([(0, 'integer'), (0, 'string')]))
            self.notes.append('dsl.Schema accepted duplicate field names (it used to refuse them)')
        except Exception as err:  # pylint: disable=broad-except
            self.notes.append(f'duplicate entry field names are refused by dsl.Schema itself ({type(err).__name__}); '
                              'last-wins in _match_entry is reachable only by calling it directly (C15_duplicates)')
        self._selftest()
        self._match()
        self._reader_part()
        self._serving_part()
        self._tabular_part()
        self._slicer_part()

    def _selftest(self):
        """Planted divergence: on the D16 witness the *legacy* variant of the model must differ from the code in the
        compared (behavioural) form, and the model must reject an unparsable line — otherwise the tie is blind."""
        w = {'kind': 'reader', 'q': [[0, 'string']], 'e': [[1, 'string'], [0, 'integer']], 'impl': 'dense',
             'data': [['5'], [7]], 'query': False}
        fixed, legacy = self._model_reader([w], 'fixed')[0], self._model_reader([w], 'legacy')[0]
        if self.behaviour(fixed) == self.behaviour(legacy):
            raise fw.MachineryError('self-test: the comparison cannot tell the released from the repaired reader model')
        if self.model([sexp.dumps(['reader', 'fixed', 'dense', 1, [[0, 'string']], [[0, 'nokind']], []])])[0].strip() != 'bad-op':
            raise fw.MachineryError('self-test: the model driver accepted an unparsable case')
        self.notes.append('self-test: a planted model divergence (released vs repaired cast pairing) is visible to the comparison; '
                          'an unparsable case is rejected by the driver')

    def search(self, reason):
        """Widen around the diverging reader cases: every permutation of the entry columns, both payload
        implementations, all-cast and no-cast kind assignments; oracle on the real code."""
        seeds = [d.case for d in self.divergences if isinstance(d.case, dict) and d.case.get('kind') in ('reader', 'match')]
        tried = 0
        cases = []
        for s in seeds[:15]:
            if s['kind'] == 'match':
                qn, en = s['q'], s['e']
                for impl in ('dense', 'frame'):
                    for _ in range(4):
                        cases.append(self._reader_case(qn, en, impl))
                continue
            for perm in itertools.islice(itertools.permutations(range(len(s['e']))), 120):
                for impl in ('dense', 'frame'):
                    cases.append({'kind': 'reader', 'q': s['q'], 'e': [s['e'][i] for i in perm],
                                  'data': [s['data'][i] for i in perm], 'impl': impl, 'query': False})
        cases = [c for c in cases if c['q'] and c['e']][:3000]
        tried = len(cases)
        if cases:
            self._reader_part(cases, account=False)
        self.notes.append(f'failing-input search ({reason}): {tried} neighbouring entry arrangements run through the oracle')

    def replay_finding(self, entry):
        w = dict(entry['witness'])
        kind = w.get('kind')
        if kind == 'reader':
            w.setdefault('query', False)
            ml = self._model_reader([w], 'legacy')[0] if self.DRIVER else None
            _, problems = self.check_reader_case(w, ml)
            for what, sig in problems:
                return fw.Violation(what, self._public(w), sig)
            return None
        if kind == 'sliced':
            rc = dict(w, kind='reader')
            res = self._reader_outcome(rc)
            if res[0] != 'data':
                return fw.Violation(f'reader did not deliver: {res}', w, 'reader-slicer-wrong-split')
            rows = [[v[1] for v in r] for r in zip(*res[2])]
            nf, scalar = w['nf'], w['scalar']
            want = ['ok', [r[:nf] for r in rows], [r[nf] for r in rows] if scalar else [r[nf:] for r in rows]]
            got = self.run_sliced(rc, nf, scalar)
            return fw.Violation(f'slicer after reader: {got} != {want}', w, 'reader-slicer-wrong-split') if got != want else None
        if kind == 'serving':
            _, rc, res = self.run_serving(w)
            for what, sig in self.oracle_serving(w, rc, res):
                return fw.Violation(f'{w["fmt"]} request {w["names"]}: {what}', self._public(w), 'serving-' + sig)
            return None
        if kind == 'match':
            bad = self.oracle_match(w['q'], w['e'], self.run_match(w['q'], w['e']))
            return fw.Violation(bad, w, 'match-entry-wrong') if bad else None
        if kind == 'take':
            got = self._take_impl(w['impl'], w['rows'], w['ncols'], w['axis'], w['idx'])
            view = got[:3] if isinstance(got, list) and got[0] == 'ok' else got
            want = self.oracle_take(w['rows'], w['ncols'], w['axis'], w['idx'])
            if view != want:
                return fw.Violation(f'take_{w["axis"]}: got {view}, want {want}', w, f'take-{w["axis"]}-not-matrix-semantics')
            return None
        if kind == 'slicer':
            got, _ = self._slicer_impl(w['impl'], w['rows'], w['ncols'], w['nf'], w['nl'])
            nf, nl = w['nf'], w['nl']
            want = ['ok', [r[:nf] for r in w['rows']], ['scalar', [r[nf] for r in w['rows']]] if nl is None
                    else ['vector', [r[nf:nf + nl] for r in w['rows']]]]
            return fw.Violation(f'Slicer: got {got}, want {want}', w, 'slicer-wrong-split') if got != want else None
        return None


if __name__ == '__main__':
    raise SystemExit(fw.run(C15))
