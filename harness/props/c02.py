"""C02 — every runner executes a compiled table with identical results.

Back-ends (real code, each in a watched worker process so that a dead-lock is *observed* as `timeout`):
    ref                  the harness's own dependency-ordered interpreter on the real instruction objects
    ref-shipped          the same on instruction objects and argument values rebuilt from their cloudpickle, task by task
                         (the pickling contract of instructions observed without dask; not a back-end of the property:
                         a difference sends the case to the real `processes` scheduler and is a model divergence)
    dask-synchronous     forml.provider.runner.dask.Runner.run under scheduler=synchronous
    dask-threads         ... scheduler=threads
    dask-processes       ... scheduler=processes (re-used spawn pool handed over through dask's `pool` option)
    dask-processes-fresh ... scheduler=processes exactly as the runner configures it (own pool per run)
    pyfunc-call          forml.provider.runner.pyfunc.Expression(symbols)(x), then (y) on the same object (serving re-uses it)
    pyfunc-recover       the same object called with x while one actor raises, then with y
    pyfunc-run           forml.provider.runner.pyfunc.Runner.run(symbols)            (= Expression(symbols)(None))

For a case with a 'segment' (a real flow graph) the dask runners and `pyfunc.Runner` are driven through
`Runner._exec(segment, assets)` (forml/runtime/_agent.py: compile, then `run`).

Actors: parameterless symbolic actors, and classes with hyper-parameters (`HyA`, `HyB`, `HyC` of c02_rt) whose full
parameter assignment is stamped on every output and state; actors whose outputs / states are falsy payloads; stored
states b'', 0 and falsy provenance terms.

Models (lean/ForML/Model/{Dask,PyFunc,Symbols,Builder}.lean through drv_c02): `run`, `mkjob`+`evalDask`,
`expression`+`eval`, `Spec.new/call/roundtrip`, `runDaskProcesses`.

Oracle (independent of all of them): `Oracle` below — direct dependency-ordered evaluation of the table *spec*
written from the property statement; a back-end that accepts a valid table must deliver exactly the oracle's sink
outputs and commits, a crash / time-out on a valid table is a violation.
"""
from __future__ import annotations

import atexit
import collections
import itertools
import multiprocessing
import multiprocessing.connection
import os
import shutil
import signal
import sys
import tempfile
import time

from core import framework as fw
from core import sexp

NOARG = object()
TREE_LIMIT = 2500  # tree size of the largest sink value that is sent through the line protocol


def rt():
    """The runtime half (imports forml): only importable once the framework has set sys.path."""
    from props import c02_rt

    return c02_rt


# --------------------------------------------------------------------------------------------------
# oracle: dependency-ordered evaluation of a table spec
# --------------------------------------------------------------------------------------------------


class Invalid(Exception):
    """The spec is not a valid table (the property says nothing about it)."""


class Uninstantiable(Invalid):
    """A builder of the table cannot make its actor (missing required argument): no evaluation of the table exists."""


def bind_call(sig, args, kw):
    """The parameter assignment of `cls(*args, **kw)` for the signature `sig` = [(name, default | NODEFAULT, kw-only)]:
    positional arguments to the leading positional parameters, keywords by name, defaults for the rest. Written from
    the Python call semantics; TypeError where the call raises."""
    nodefault = rt().NODEFAULT
    positional = [n for n, _, kwonly in sig if not kwonly]
    if len(args) > len(positional):
        raise TypeError('too many positional arguments')
    bound = dict(zip(positional, args))
    for k, v in kw.items():
        if k in bound:
            raise TypeError(f'multiple values for {k}')
        if k not in [n for n, _, _ in sig]:
            raise TypeError(f'unexpected keyword {k}')
        bound[k] = v
    out = []
    for n, d, _ in sig:
        if n in bound:
            out.append((n, bound[n]))
        elif not (isinstance(d, str) and d == nodefault):
            out.append((n, d))
        else:
            raise TypeError(f'missing {n}')
    return tuple(out)


def ident_of(spec, tag, key=None):
    """What the results of the actors of `tag` say about their maker: the tag, or - built with hyper-parameters - the
    tag together with the full parameter assignment. `key`: the functor may carry a builder of its own ('alt')."""
    b = (spec.get('alt') or {}).get(str(key)) or (spec.get('builders') or {}).get(str(tag))
    if b is None:
        return tag
    try:
        return ('actor', tag, bind_call(rt().signature_of(b['cls']), b.get('args', ()), b.get('kw', {})))
    except TypeError as e:
        raise Uninstantiable(f'builder of actor {tag}: {e}') from e


class Oracle:
    """Direct evaluation of the spec. `head`/`x`: the instruction `head` receives `x` as an extra last argument.
    `setfalsy`: which preset values the direct evaluation hands to the actor - every one that is truthy (False) or
    every one that is not None (True). The property does not say; the harness reads it off the direct evaluation of the
    real instruction objects and demands the same of every back-end."""

    def __init__(self, spec, head=None, x=NOARG, setfalsy=False):
        self.T = rt().Term
        self.spec = spec
        self.setfalsy = setfalsy
        self.falsy_presets = 0
        self.idents: dict = {}
        self.by = {}
        for key, ins, args in spec['syms']:
            if key in self.by:
                raise Invalid('duplicate key')
            self.by[key] = (ins, list(args))
        self.assets = spec.get('assets')
        self.head, self.x = head, x
        self.memo: dict = {}
        self.onstack: set = set()
        self.commits: list = []
        self.dumps: list = []
        self.uninstantiable = None
        for key in self.by:
            self.val(key)
        if self.uninstantiable is not None:  # the table is valid otherwise
            raise self.uninstantiable

    def stored(self, g):
        a = self.assets
        if a is None:
            raise Invalid('loader without assets')
        if g not in a['persistent']:
            raise Invalid('loader of a group that is not persistent')
        i = a['persistent'].index(g)
        prev = a.get('prev')
        if prev is None or i >= len(prev):
            return None
        if isinstance(prev[i], (list, tuple)):
            return rt().stored_payload(prev[i][1])
        return self.T('stored', i) if prev[i] else None

    def ident(self, tag, key=None):
        k = (tag, key if str(key) in (self.spec.get('alt') or {}) else None)
        if k not in self.idents:
            try:
                self.idents[k] = ident_of(self.spec, tag, key)
            except Uninstantiable as e:
                self.uninstantiable = self.uninstantiable or e
                self.idents[k] = tag
        return self.idents[k]

    def val(self, key):
        if key in self.memo:
            return self.memo[key]
        if key not in self.by:
            raise Invalid('unbound argument')
        if key in self.onstack:
            raise Invalid('cyclic')
        self.onstack.add(key)
        ins, args = self.by[key]
        vs = [self.val(a) for a in args]
        if key == self.head and self.x is not NOARG:
            vs.append(self.x)
        kind = ins[0]
        T = self.T
        if kind == 'functor':
            _, tag, action, npre = ins
            st = None
            for _ in range(npre):
                if not vs:
                    raise Invalid('preset without argument')
                v = vs.pop(0)
                if v is not None and not v:
                    self.falsy_presets += 1
                if v is not None and (v or self.setfalsy):
                    st = v
            if action == 'apply':
                res = T('apply', self.ident(tag, key), st, tuple(vs))
            else:
                if len(vs) != 2:
                    raise Invalid('train arity')
                res = T('state', self.ident(tag, key), st, vs[0], vs[1])
        elif kind == 'getter':
            if len(vs) != 1:
                raise Invalid('getter arity')
            res = T('proj', ins[1], vs[0])
        elif kind == 'loader':
            if vs:
                raise Invalid('loader arity')
            res = self.stored(ins[1])
        elif kind == 'dumper':
            if len(vs) != 1 or self.assets is None:
                raise Invalid('dumper')
            self.dumps.append(vs[0])
            res = T('dumped', vs[0])
        elif kind == 'committer':
            if self.assets is None or len(vs) != len(self.assets['persistent']):
                raise Invalid('committer')
            self.commits.append(tuple(vs))
            res = T('committed', tuple(vs))
        else:
            raise Invalid('unknown instruction')
        self.onstack.discard(key)
        self.memo[key] = res
        return res


def sinks_of(spec):
    used = {a for _, _, args in spec['syms'] for a in args}
    return [k for k, _, _ in spec['syms'] if k not in used]


def classify(spec):
    """Validity of the table and whether it is in the domain of the single-function runner."""
    info = {'valid': False, 'pyfunc': False, 'head': None, 'why': None, 'rank': {}}
    try:
        orc = Oracle(spec)
    except Invalid as e:
        info['why'] = str(e)
        return info
    info['valid'] = True
    info['oracle'] = orc
    by = orc.by
    # topological numbering (below the table size)
    rank: dict = {}

    def rk(k):
        if k not in rank:
            rank[k] = 1 + max([rk(a) for a in by[k][1]], default=-1)
        return rank[k]

    for k in by:
        rk(k)
    info['rank'] = rank
    info['sinks'] = sinks_of(spec)
    info['maxsize'] = max((rt().size(orc.memo[k]) for k in info['sinks']), default=1)
    # apply-mode table as `flow.compile(composition.apply, assets)` produces it for the serving runner:
    # apply functors (state preset fed by a loader), getters, loaders; one sink; one argument-free head
    ok = True
    heads = []
    for k, (ins, args) in by.items():
        kind = ins[0]
        if kind == 'functor':
            if ins[2] != 'apply' or ins[3] > len(args):
                ok = False
                break
            pre, rest = args[:ins[3]], args[ins[3]:]
            if any(by[a][0][0] != 'loader' for a in pre) or any(by[a][0][0] == 'loader' for a in rest):
                ok = False
                break
            if not rest:
                heads.append(k)
        elif kind == 'getter':
            if by[args[0]][0][0] not in ('functor', 'getter'):
                ok = False
                break
        elif kind == 'loader':
            pass
        else:
            ok = False
            break
    if ok and len(info['sinks']) == 1 and len(heads) == 1 and by[info['sinks'][0]][0][0] in ('functor', 'getter'):
        info['pyfunc'] = True
        info['head'] = heads[0]
    return info


# --------------------------------------------------------------------------------------------------
# spec generators
# --------------------------------------------------------------------------------------------------


def F(tag, action='apply', npre=0):
    return ['functor', tag, action, npre]


def table(*syms, assets=None, **kw):
    return dict({'syms': [[k, ins, list(args)] for k, ins, args in syms], 'assets': assets}, **kw)


CORPUS = [
    # the helloworld shape of tests/provider/runner: a chain
    ('chain', table((0, F(0), []), (1, F(1), [0]), (2, F(2), [1]))),
    # single instruction
    ('single', table((0, F(0), []))),
    # D1: fan-out at the source
    ('head-fanout', table((0, F(0), []), (1, F(1), [0]), (2, F(2), [0]), (3, F(3), [1, 2]))),
    ('head-fanout-same-consumer', table((0, F(0), []), (1, F(1), [0, 0]))),
    # D2: shared result, the shorter branch first / last in the consumer's argument order
    ('short-branch-first', table((0, F(0), []), (1, F(1), [0]), (2, F(2), [1]), (3, F(3), [1, 2]))),
    ('short-branch-last', table((0, F(0), []), (1, F(1), [0]), (2, F(2), [1]), (3, F(3), [2, 1]))),
    # diamond with equal branch lengths in both orders
    ('diamond', table((0, F(0), []), (1, F(1), [0]), (2, F(2), [1]), (3, F(3), [1]), (4, F(4), [2, 3]))),
    ('diamond-swapped', table((0, F(0), []), (1, F(1), [0]), (2, F(2), [1]), (3, F(3), [1]), (4, F(4), [3, 2]))),
    # a value used twice by one consumer, three-way fork of unequal depths
    ('twice', table((0, F(0), []), (1, F(1), [0]), (2, F(2), [1, 1]))),
    ('three-way', table((0, F(0), []), (1, F(1), [0]), (2, F(2), [1]), (3, F(3), [2]), (4, F(4), [1, 3, 2]))),
    ('three-way-rev', table((0, F(0), []), (1, F(1), [0]), (2, F(2), [1]), (3, F(3), [2]), (4, F(4), [3, 2, 1]))),
    # multi-output worker: getters, crossed, one port unused
    ('getters', table((0, F(0), []), (1, F(1), [0]), (10, ['getter', 0], [1]), (12, ['getter', 2], [1]),
                      (2, F(2), [12]), (3, F(3), [10, 2]))),
    ('getters-rev', table((0, F(0), []), (1, F(1), [0]), (10, ['getter', 0], [1]), (12, ['getter', 2], [1]),
                          (2, F(2), [12]), (3, F(3), [2, 10]))),
    # nested forks
    ('nested', table((0, F(0), []), (1, F(1), [0]), (2, F(2), [1]), (3, F(3), [2]), (4, F(4), [2, 3]), (5, F(5), [1, 4]),
                     (6, F(6), [5, 1]))),
    # state loaders: one loader shared by two forks of a group, stored and not stored, stateful head
    ('loaders', table((0, F(0, 'apply', 1), [20]), (20, ['loader', 7], []), (21, ['loader', 8], []),
                      (1, F(1, 'apply', 1), [21, 0]), (2, F(1, 'apply', 1), [21, 1]), (3, F(3), [2]),
                      assets={'persistent': [8, 9, 7], 'prev': [1, 1, 0]})),
    ('loaders-first-generation', table((0, F(0), []), (21, ['loader', 8], []), (1, F(1, 'apply', 1), [21, 0]),
                                       assets={'persistent': [8], 'prev': None})),
    # repeated equal builders with equal arguments (dask merges the two tasks into one key)
    ('equal-builders', table((0, F(0), []), (1, F(1), [0]), (2, F(1), [0]), (3, F(3), [1, 2]))),
    ('equal-builders-chain', table((0, F(0), []), (1, F(1), [0]), (2, F(1), [1]), (3, F(1), [2]))),
    # train mode: trainer + applied fork taking the fresh state, dump + commit, second group not persistent
    ('train', table((0, F(0), []), (1, F(1), [0]), (10, ['getter', 0], [1]), (11, ['getter', 1], [1]),
                    (2, F(2, 'train', 0), [10, 11]), (3, F(2, 'apply', 1), [2, 10]), (4, F(4, 'train', 0), [3, 11]),
                    (5, F(4, 'apply', 1), [4, 3]), (30, ['dumper'], [2]), (31, ['committer'], [30]),
                    assets={'persistent': [2], 'prev': None})),
    ('retrain', table((0, F(0), []), (1, F(1), [0]), (10, ['getter', 0], [1]), (11, ['getter', 1], [1]),
                      (20, ['loader', 2], []), (21, ['loader', 4], []),
                      (2, F(2, 'train', 1), [20, 10, 11]), (3, F(2, 'apply', 1), [2, 10]), (4, F(4, 'train', 1), [21, 3, 11]),
                      (30, ['dumper'], [2]), (32, ['dumper'], [4]), (31, ['committer'], [32, 30]),
                      assets={'persistent': [4, 2], 'prev': [1, 0]})),
    # two trainers with equal builders and equal inputs: equal states, dumped twice
    ('equal-trainers', table((0, F(0), []), (2, F(2, 'train', 0), [0, 0]), (4, F(2, 'train', 0), [0, 0]),
                             (30, ['dumper'], [2]), (32, ['dumper'], [4]), (31, ['committer'], [30, 32]),
                             assets={'persistent': [2, 4], 'prev': None})),
    # train mode without assets: several sinks
    ('train-no-assets', table((0, F(0), []), (2, F(2, 'train', 0), [0, 0]), (3, F(3), [0]))),
    # builders with hyper-parameters: an explicit None over a non-None default, falsy values, positional arguments,
    # keyword-only parameters; the trained group is dumped and committed, the applied fork takes the fresh state
    ('hyper-train', table((0, F(0), []), (1, F(1), [0]), (10, ['getter', 0], [1]), (11, ['getter', 1], [1]),
                          (2, F(2, 'train', 0), [10, 11]), (3, F(2, 'apply', 1), [2, 10]), (4, F(4), [3]),
                          (30, ['dumper'], [2]), (31, ['committer'], [30]),
                          assets={'persistent': [2], 'prev': None},
                          builders={'2': {'cls': 'HyA', 'args': [], 'kw': {'alpha': None}},
                                    '4': {'cls': 'HyB', 'args': [None, None], 'kw': {'flag': False}},
                                    '0': {'cls': 'HyC', 'args': [0], 'kw': {'mode': None}}})),
    ('hyper-serving', table((0, F(0, 'apply', 1), [20]), (20, ['loader', 7], []), (21, ['loader', 8], []),
                            (1, F(1, 'apply', 1), [21, 0]), (2, F(1, 'apply', 1), [21, 1]), (3, F(3), [2, 0]),
                            assets={'persistent': [8, 9, 7], 'prev': [1, 1, 1]},
                            builders={'0': {'cls': 'HyB', 'args': [], 'kw': {'lower': None, 'upper': 0}},
                                      '1': {'cls': 'HyA', 'args': [None, False, ''], 'kw': {'delta': None}},
                                      '3': {'cls': 'HyA', 'args': [], 'kw': {}}})),
    ('hyper-explicit-defaults', table((0, F(0), []), (1, F(1), [0]), (2, F(2), [0, 1]),
                                      builders={'0': {'cls': 'HyA', 'args': [100, None], 'kw': {'gamma': 'g', 'delta': 0}},
                                                '1': {'cls': 'HyA', 'args': [], 'kw': {}},
                                                '2': {'cls': 'HyB', 'args': [], 'kw': {'upper': None, 'lower': 0, 'flag': True}}})),
    # two builders of one class differing in one value only (None vs the default): never one task
    ('hyper-near-equal', table((0, F(0), []), (1, F(1), [0]), (2, F(2), [0]), (3, F(3), [1, 2]),
                               builders={'1': {'cls': 'HyB', 'args': [], 'kw': {'lower': None}},
                                         '2': {'cls': 'HyB', 'args': [], 'kw': {}}})),
    # falsy yet informative payloads in every role: stored state (b'', 0, falsy term), trained state, data on ports
    ('falsy-stored-bytes', table((0, F(0), []), (20, ['loader', 7], []), (1, F(1, 'apply', 1), [20, 0]), (2, F(2), [1]),
                                 assets={'persistent': [7], 'prev': [['f', 1000]]})),
    ('falsy-stored-zero', table((0, F(0, 'apply', 1), [20]), (20, ['loader', 7], []), (1, F(1), [0]),
                                assets={'persistent': [7], 'prev': [['f', 1001]]})),
    ('falsy-stored-term', table((0, F(0), []), (20, ['loader', 7], []), (21, ['loader', 8], []),
                                (1, F(1, 'apply', 1), [20, 0]), (2, F(2, 'apply', 1), [21, 1, 0]),
                                assets={'persistent': [8, 7], 'prev': [1, ['f', 1002]]})),
    ('falsy-trained-state', table((0, F(0), []), (1, F(1), [0]), (10, ['getter', 0], [1]), (11, ['getter', 1], [1]),
                                  (2, F(2002, 'train', 0), [10, 11]), (3, F(2002, 'apply', 1), [2, 10]), (4, F(4), [3]),
                                  (30, ['dumper'], [2]), (31, ['committer'], [30]),
                                  assets={'persistent': [2], 'prev': None})),
    ('falsy-retrain', table((0, F(0), []), (1, F(1), [0]), (10, ['getter', 0], [1]), (11, ['getter', 1], [1]),
                            (20, ['loader', 2], []), (21, ['loader', 4], []),
                            (2, F(2, 'train', 1), [20, 10, 11]), (3, F(2, 'apply', 1), [2, 10]),
                            (4, F(3004, 'train', 1), [21, 3, 11]), (5, F(3004, 'apply', 1), [4, 3]),
                            (30, ['dumper'], [2]), (32, ['dumper'], [4]), (31, ['committer'], [32, 30]),
                            assets={'persistent': [4, 2], 'prev': [['f', 1000], ['f', 1003]]})),
    ('falsy-data', table((0, F(1000), []), (1, F(1001), [0]), (10, ['getter', 0], [1]), (12, ['getter', 2], [1]),
                         (2, F(2), [12, 0]), (3, F(1003), [10, 2, 0]))),
    # builders that print the same and make different actors, in parallel branches over one shared result (and the
    # converse: one actor, builders printing differently)
    ('blind-fanout', table((0, F(0), []), (1, F(1), [0]), (2, F(2), [0]), (3, F(3), [1, 2]),
                           blind={'1': 'fn', '2': 'fn', '3': 'obj', '0': 'obj'})),
    ('blind-fanout-objects', table((0, F(0), []), (1, F(1), [0]), (2, F(2), [0]), (4, F(4), [0]), (3, F(3), [2, 4, 1]),
                                   blind={'1': 'obj', '2': 'obj', '4': 'obj'})),
    ('blind-train', table((0, F(0), []), (1, F(1), [0]), (10, ['getter', 0], [1]), (11, ['getter', 1], [1]),
                          (5, F(5), [10]), (6, F(6), [10]),
                          (2, F(2, 'train', 0), [5, 11]), (4, F(4, 'train', 0), [6, 11]),
                          (3, F(2, 'apply', 1), [2, 5]), (7, F(4, 'apply', 1), [4, 6]), (8, F(8), [3, 7]),
                          (30, ['dumper'], [2]), (32, ['dumper'], [4]), (31, ['committer'], [30, 32]),
                          assets={'persistent': [2, 4], 'prev': None},
                          blind={'5': 'fn', '6': 'fn', '2': 'obj', '4': 'obj'})),
    ('blind-none-vs-default', table((0, F(0), []), (1, F(1), [0]), (2, F(2), [0]), (3, F(3), [1, 2]),
                                    builders={'1': {'cls': 'HyB', 'args': [], 'kw': {'lower': None}},
                                              '2': {'cls': 'HyB', 'args': [], 'kw': {}}},
                                    blind={'1': 'obj', '2': 'obj'})),
    ('same-actor-printed-differently', table((0, F(0), []), (1, F(1), [0]), (2, F(1), [0]), (3, F(3), [1, 2]),
                                             builders={'1': {'cls': 'HyB', 'args': [], 'kw': {'upper': 5}}},
                                             alt={'2': {'cls': 'HyB', 'args': [], 'kw': {'upper': 5, 'flag': True}}})),
    ('falsy-and-hyper', table((0, F(0), []), (20, ['loader', 7], []), (1, F(1001, 'apply', 1), [20, 0]), (2, F(2), [1, 0]),
                              assets={'persistent': [7], 'prev': [['f', 1000]]},
                              builders={'1001': {'cls': 'HyB', 'args': [], 'kw': {'upper': None, 'flag': None}},
                                        '2': {'cls': 'HyA', 'args': [0], 'kw': {'beta': False}}})),
]

MALFORMED = [
    ('cyclic', table((0, F(0), [2]), (1, F(1), [0]), (2, F(2), [1]), (3, F(3), [2]))),
    ('cyclic-no-leaf', table((0, F(0), [1]), (1, F(1), [0]))),
    ('unbound-argument', table((0, F(0), []), (1, F(1), [0, 99]))),
    ('two-sinks', table((0, F(0), []), (1, F(1), [0]), (2, F(2), [0]))),
    ('two-heads', table((0, F(0), []), (1, F(1), []), (2, F(2), [0, 1]))),
    ('dependent-loader', table((0, F(0), []), (20, ['loader', 7], [0]), (1, F(1, 'apply', 1), [20, 0]),
                               assets={'persistent': [7], 'prev': [1]})),
    ('loader-not-persistent', table((0, F(0), []), (20, ['loader', 7], []), (1, F(1, 'apply', 1), [20, 0]),
                                    assets={'persistent': [8], 'prev': [1]})),
    ('loader-as-plain-argument', table((0, F(0), []), (20, ['loader', 7], []), (1, F(1), [0, 20]),
                                       assets={'persistent': [7], 'prev': [1]})),
    ('preset-without-argument', table((0, F(0, 'apply', 1), []))),
    ('getter-arity', table((0, F(0), []), (1, F(1), [0]), (10, ['getter', 0], [0, 1]), (2, F(2), [10]))),
    ('short-commit', table((0, F(0), []), (2, F(2, 'train', 0), [0, 0]), (30, ['dumper'], [2]), (31, ['committer'], [30]),
                           assets={'persistent': [2, 4], 'prev': None})),
    ('train-arity', table((0, F(0), []), (2, F(2, 'train', 0), [0]))),
    # a builder that `Spec.__new__` accepts but that cannot make its actor (required argument missing)
    ('uninstantiable-builder', table((0, F(0), []), (1, F(1), [0]), builders={'1': {'cls': 'HyC', 'args': [], 'kw': {'offset': None}}})),
]


def gen_apply(rng, n, *, loaders=None, getters=None, equal=None, fan_head=None):
    """Direct apply-mode table with `n` workers: one head, one sink; fan-out, unequal branch depths in any argument
    order, shared results, multi-output workers (getters only for used ports), stateful groups with a shared
    loader, repeated equal builders."""
    loaders = rng.random() < 0.35 if loaders is None else loaders
    getters = rng.random() < 0.4 if getters is None else getters
    equal = rng.random() < 0.15 if equal is None else equal
    fan_head = rng.random() < 0.5 if fan_head is None else fan_head
    syms = []
    pubs = []  # (worker, port) available
    free = []  # publishers not yet consumed
    nout = {}
    tags = {}
    groups = {}  # tag -> loader key
    persistent = []

    def new_worker(w, szin, final=False):
        szout = 1 if (final or not getters) else rng.choice([1, 1, 2, 3])
        if w == 0 and not fan_head:
            szout = 1
        args = []
        if w > 0:
            pool = list(pubs)
            for i in range(szin):
                if free and (final or rng.random() < 0.6):
                    p = free.pop(rng.randrange(len(free))) if not final else free.pop(0)
                else:
                    p = rng.choice(pool)
                    if p in free:
                        free.remove(p)
                args.append(p)
            if final:
                rng.shuffle(args)
        tag = w
        if equal and w > 1 and rng.random() < 0.3:
            tag = rng.choice([t for t in tags.values()] or [w])
        tags[w] = tag
        nout[w] = szout
        return szout, args

    plan = []
    for w in range(n):
        final = w == n - 1 and n > 1
        szin = 0 if w == 0 else rng.choice([1, 1, 2, 2, 3])
        if final:
            szin = max(1, min(len(free), 6))
        if w == 1 and fan_head and n > 2:
            szin = rng.choice([1, 2])
        szout, args = new_worker(w, szin, final)
        plan.append((w, args))
        for o in range(szout):
            pubs.append((w, o))
            free.append((w, o))
        if w == 0 and fan_head:
            pass
    # the final worker must leave nothing dangling (a second sink): hand the leftovers to it
    w_last, args_last = plan[-1]
    if n > 1:
        leftovers = [p for p in free if p[0] != w_last]
        args_last.extend(leftovers)
    used_ports = {p for _, args in plan for p in args}
    stateful = {}
    for w, args in plan:
        tag = tags[w]
        is_stateful = stateful.get(tag, loaders and rng.random() < 0.5)
        stateful[tag] = is_stateful

    def pub_key(p):
        w, o = p
        return w if nout[w] == 1 else 1000 + 10 * w + o

    for w, args in plan:
        tag = tags[w]
        keys = [pub_key(p) for p in args]
        if stateful[tag]:
            if tag not in groups:
                groups[tag] = 2000 + tag
                persistent.append(tag)
                syms.append([groups[tag], ['loader', tag], []])
            syms.append([w, F(tag, 'apply', 1), [groups[tag]] + keys])
        else:
            syms.append([w, F(tag), keys])
        if nout[w] > 1:
            for o in range(nout[w]):
                if (w, o) in used_ports:
                    syms.append([1000 + 10 * w + o, ['getter', o], [w]])
    assets = None
    if persistent:
        rng.shuffle(persistent)
        extra = [5000] if rng.random() < 0.3 else []
        pers = persistent + extra
        rng.shuffle(pers)
        prev = None if rng.random() < 0.2 else [int(rng.random() < 0.8) for _ in pers][:rng.choice([len(pers), len(pers), max(0, len(pers) - 1)])]
        assets = {'persistent': pers, 'prev': prev}
    if rng.random() < 0.5:
        rng.shuffle(syms)  # symbol order is not dependency order
    return {'syms': syms, 'assets': assets}


def gen_train(rng, stages=None):
    """Direct train-mode table: source -> feature/label split -> `stages` trained groups in a row (trainer fed by the
    current features and the labels, one or two applied forks taking the fresh state, optional stateless worker in
    between) -> sink; any subset of the trained groups persistent (dumper per group, one committer), optionally a
    previous generation (the trainer then presets the loaded state). Several leaves (sink, committer, trainers of
    groups without an applied fork) share upstream instructions - the trainer above all."""
    stages = stages or rng.choice([1, 1, 2, 2, 3])
    syms = [[0, F(0), []], [1, F(1), [0]], [10, ['getter', 0], [1]], [11, ['getter', 1], [1]]]
    cur, label = 10, 11
    key = 20
    trained = []
    use_assets = rng.random() < 0.85
    retrain = use_assets and rng.random() < 0.5
    pers_flags = {}
    for i in range(stages):
        g = 100 + i
        pers_flags[g] = use_assets and rng.random() < 0.75
        tkey, key = key, key + 1
        targs = [cur, label]
        npre = 0
        if retrain and pers_flags[g]:
            syms.append([key, ['loader', g], []])
            targs = [key] + targs
            npre, key = 1, key + 1
        syms.append([tkey, F(g, 'train', npre), targs])
        trained.append((g, tkey))
        forks = rng.choice([0, 1, 1, 1, 2]) if i < stages - 1 or rng.random() < 0.3 else rng.choice([1, 1, 2])
        outs = []
        for _ in range(forks):
            syms.append([key, F(g, 'apply', 1), [tkey, cur]])
            outs.append(key)
            key += 1
        if len(outs) == 2:
            syms.append([key, F(200 + i), outs if rng.random() < 0.5 else outs[::-1]])
            cur, key = key, key + 1
        elif len(outs) == 1:
            cur = outs[0]
        if rng.random() < 0.3:
            syms.append([key, F(300 + i), [cur]])
            cur, key = key, key + 1
    syms.append([key, F(999), [cur] + ([label] if rng.random() < 0.3 else [])])
    key += 1
    assets = None
    if use_assets:
        pers = [g for g, _ in trained if pers_flags[g]]
        rng.shuffle(pers)
        tk = dict(trained)
        dumpers = []
        for g in pers:
            syms.append([key, ['dumper'], [tk[g]]])
            dumpers.append(key)
            key += 1
        if pers:
            syms.append([key, ['committer'], dumpers])
        prev = [int(rng.random() < 0.8) for _ in pers] if retrain else None
        assets = {'persistent': pers, 'prev': prev}
    if rng.random() < 0.5:
        rng.shuffle(syms)
    return {'syms': syms, 'assets': assets}


HYPER_VALUES = [None, False, True, 0, 1, 5, 100, '', 'g', 'x']


def gen_builder(rng, cls=None, malformed=False):
    """A builder description for one of the parametric actor classes: every parameter is left to its default, given
    its default explicitly, given None, given a falsy value or given another value - positionally (a prefix of the
    positional parameters) or by keyword. `malformed`: may also carry what `Spec.__new__` refuses (too many positional
    arguments, an unknown keyword, a parameter given twice)."""
    R = rt()
    cls = cls or rng.choice(['HyA', 'HyA', 'HyB', 'HyB', 'HyC'])
    sig = R.signature_of(cls)

    def value(default):
        nod = isinstance(default, str) and default == R.NODEFAULT
        r = rng.random()
        if r < 0.3:
            return None
        if r < 0.5 and not nod:
            return default
        if r < 0.75:
            return rng.choice([False, 0, ''])
        return rng.choice(HYPER_VALUES)

    positional = [p for p in sig if not p[2]]
    npos = rng.choice([0, 0, 0, 1, 2, len(positional)]) if positional else 0
    npos = min(npos, len(positional))
    args = [value(d) for _, d, _ in positional[:npos]]
    kw = {}
    for n, d, _ in sig[npos:]:
        required = isinstance(d, str) and d == R.NODEFAULT
        if rng.random() < (0.9 if required else 0.5):
            kw[n] = value(d)
    if malformed:
        r = rng.random()
        if r < 0.3:
            args = args + [value(None) for _ in range(len(positional) - len(args) + 1)]
        elif r < 0.6:
            kw['omega'] = value(None)
        elif npos and r < 0.9:
            kw[positional[0][0]] = value(None)
    keys = list(kw)
    rng.shuffle(keys)
    return {'cls': cls, 'args': args, 'kw': {k: kw[k] for k in keys}}


def tags_of(spec):
    return sorted({ins[1] for _, ins, _ in spec['syms'] if ins[0] == 'functor'})


def retag(spec, mapping):
    """The spec with the actor tags renamed."""
    out = dict(spec)
    out['syms'] = [[k, ([ins[0], mapping.get(ins[1], ins[1])] + list(ins[2:])) if ins[0] == 'functor' else list(ins), list(args)]
                   for k, ins, args in spec['syms']]
    if spec.get('stateful'):
        out['stateful'] = {str(mapping.get(int(t), int(t))): v for t, v in spec['stateful'].items()}
    if spec.get('builders'):
        out['builders'] = {str(mapping.get(int(t), int(t))): v for t, v in spec['builders'].items()}
    if spec.get('blind'):
        out['blind'] = {str(mapping.get(int(t), int(t))): v for t, v in spec['blind'].items()}
    if spec.get('fail') is not None:
        out['fail'] = mapping.get(spec['fail'], spec['fail'])
    return out


def explicit_default(rng, b):
    """A builder that configures the same actor as `b` and prints differently: one more parameter is given its
    constructor default explicitly (None if nothing is left to spell out)."""
    R = rt()
    sig = R.signature_of(b['cls'])
    free = [(n, d) for i, (n, d, _) in enumerate(sig)
            if i >= len(b.get('args', ())) and n not in b.get('kw', {}) and not (isinstance(d, str) and d == R.NODEFAULT)]
    if not free:
        return None
    n, d = rng.choice(free)
    return {'cls': b['cls'], 'args': list(b.get('args', ())), 'kw': dict(b.get('kw', {}), **{n: d})}


def blinded(rng, spec, p=1.0):
    """The spec whose builders do not print what tells them apart: the tag of (a share `p` of) the actors is handed over
    as an object / a closure with a constant printed form - behaviourally different builders then print the same."""
    blind = {str(t): rng.choice(['obj', 'fn']) for t in tags_of(spec) if rng.random() < p}
    return dict(spec, blind=blind) if blind else spec


def decorate(rng, spec, hyper=0.5, falsy=0.5, blind=0.35):
    """Payload / configuration widening of any table spec (the shape is untouched):
      * builders that print the same although they make different actors (`blinded`), and functors of one actor whose
        builders print differently although they make the same actor (`explicit_default`);
      * builders with hyper-parameters for some of the actor tags (`gen_builder`);
      * actors whose outputs and / or trained states are falsy payloads (tag bits, see c02_rt.falsy_term);
      * falsy stored states in the previous generation (b'', 0, falsy provenance terms)."""
    R = rt()
    tags = tags_of(spec)
    if not tags or max(tags) >= R.FALSY_BASE:
        return spec
    out = spec
    if rng.random() < falsy:
        trained = {ins[1] for _, ins, _ in spec['syms'] if ins[0] == 'functor' and ins[2] == 'train'}
        mapping = {}
        for t in tags:
            bits = 0
            if rng.random() < 0.35:
                bits += R.FALSY_BASE
            if t in trained and rng.random() < 0.5:
                bits += 2 * R.FALSY_BASE
            if bits:
                mapping[t] = t + bits
        out = retag(out, mapping)
        a = out.get('assets')
        if a is not None and a.get('prev'):
            prev = [['f', rng.choice([R.FALSY_BASE, R.FALSY_BASE, R.FALSY_BASE + 1, R.FALSY_BASE + 2 + i])]
                    if rng.random() < 0.5 else b for i, b in enumerate(a['prev'])]
            out = dict(out, assets={'persistent': list(a['persistent']), 'prev': prev})
    if rng.random() < hyper:
        builders = dict(out.get('builders') or {})
        for t in tags_of(out):
            if rng.random() < 0.6:
                b = gen_builder(rng)
                if b['cls'] == 'HyC' and 'scale' not in b['kw'] and not b['args'] and rng.random() < 0.8:
                    b['kw']['scale'] = rng.choice(HYPER_VALUES)
                builders[str(t)] = b
        out = dict(out, builders=builders)
        alt = {}
        for k, ins, _ in out['syms']:
            b = builders.get(str(ins[1])) if ins[0] == 'functor' else None
            if b is not None and ins[2] == 'apply' and ins[3] == 0 and rng.random() < 0.3:
                e = explicit_default(rng, b)
                if e is not None:
                    alt[str(k)] = e
        if alt:
            out = dict(out, alt=alt)
    if rng.random() < blind:
        out = blinded(rng, out, rng.choice([0.5, 1.0]))
    return out


def gen_segment(rng, mode=None):
    """A real flow segment (description, see c02_rt.build_segment) in the shape of a pipeline: source -> stages -> sink.
    Train mode: the source yields features and labels; a stage is a stateless mapper, a trained group (trainer fed by
    the current features and the labels, one or two applied forks taking the fresh state), or a fan-out into two
    branches of different depth joined by a 2-input worker (optionally through a 2-output worker and its getters).
    Apply mode: the same with every group being one stateful worker whose state the compiler loads."""
    mode = mode or rng.choice(['train', 'apply'])
    nodes, subs, train, stateful = [], [], [], []
    nid = [0]

    def node(tag, szin, szout, fork=None):
        nodes.append([nid[0], tag, szin, szout, fork])
        nid[0] += 1
        return nid[0] - 1

    src = node(0, 0, 2 if mode == 'train' else 1)
    cur, label = (src, 0), (src, 1)
    groups = []
    tag = 1
    for _ in range(rng.choice([1, 2, 2, 3, 4])):
        kind = rng.choice(['map', 'group', 'group', 'fan', 'split'])
        if kind == 'map':
            n = node(tag, 1, 1)
            subs.append([n, 0, cur[0], cur[1]])
            cur = (n, 0)
        elif kind == 'group':
            stateful.append(tag)
            if mode == 'train':
                t = node(tag, 1, 1)
                train.append([t, list(cur), list(label)])
                groups.append(t)
                forks = [node(tag, 1, 1, fork=t) for _ in range(rng.choice([1, 1, 2]))]
                for f in forks:
                    subs.append([f, 0, cur[0], cur[1]])
                if len(forks) == 2:
                    tag += 1
                    j = node(tag, 2, 1)
                    order = forks if rng.random() < 0.5 else forks[::-1]
                    subs.extend([[j, 0, order[0], 0], [j, 1, order[1], 0]])
                    cur = (j, 0)
                else:
                    cur = (forks[0], 0)
            else:
                n = node(tag, 1, 1)
                groups.append(n)
                subs.append([n, 0, cur[0], cur[1]])
                cur = (n, 0)
        elif kind == 'fan':
            a = node(tag, 1, 1)
            subs.append([a, 0, cur[0], cur[1]])
            b = node(tag + 1, 1, 1)
            subs.append([b, 0, a, 0])
            j = node(tag + 2, 2, 1)
            first, second = ((cur, (b, 0)) if rng.random() < 0.5 else ((b, 0), cur))
            subs.extend([[j, 0, first[0], first[1]], [j, 1, second[0], second[1]]])
            tag += 2
            cur = (j, 0)
        else:
            sp = node(tag, 1, 2)
            subs.append([sp, 0, cur[0], cur[1]])
            j = node(tag + 1, 2, 1)
            ports = [0, 1] if rng.random() < 0.5 else [1, 0]
            subs.extend([[j, 0, sp, ports[0]], [j, 1, sp, ports[1]]])
            tag += 1
            cur = (j, 0)
        tag += 1
    sink = node(999, 1, 1)
    subs.append([sink, 0, cur[0], cur[1]])
    assets = None
    if groups and (mode == 'apply' or rng.random() < 0.85):
        pers = [g for g in groups if rng.random() < 0.8]
        rng.shuffle(pers)
        prev = None
        if mode == 'apply' or rng.random() < 0.5:
            prev = [rng.choice([1, 1, 1, 0]) for _ in pers][:rng.choice([len(pers), len(pers), max(0, len(pers) - 1)])]
        assets = {'persistent': pers, 'prev': prev}
    return {'nodes': nodes, 'subs': subs, 'train': train, 'head': src, 'tail': sink, 'stateful': stateful, 'assets': assets}


def segment_case(rng, seg):
    """The case of a real segment: decorated (builders with hyper-parameters, falsy payloads), compiled and described
    in the parent; the workers rebuild the segment and hand it to `Runner._exec`."""
    R = rt()
    tags = sorted({n[1] for n in seg['nodes']})
    builders = {}
    if rng.random() < 0.7:
        for t in tags:
            if rng.random() < 0.5:
                b = gen_builder(rng)
                if b['cls'] == 'HyC' and 'scale' not in b['kw'] and not b['args']:
                    b['kw']['scale'] = rng.choice(HYPER_VALUES)
                builders[str(t)] = b
    if rng.random() < 0.5:  # falsy outputs / states / stored payloads
        mapping = {}
        for t in tags:
            bits = (R.FALSY_BASE if rng.random() < 0.3 else 0) + (2 * R.FALSY_BASE if t in seg['stateful'] and rng.random() < 0.5 else 0)
            if bits:
                mapping[t] = t + bits
        seg = dict(seg, nodes=[[n[0], mapping.get(n[1], n[1])] + n[2:] for n in seg['nodes']],
                   stateful=[mapping.get(t, t) for t in seg['stateful']])
        builders = {str(mapping.get(int(t), int(t))): b for t, b in builders.items()}
        a = seg.get('assets')
        if a and a.get('prev'):
            seg['assets'] = {'persistent': a['persistent'], 'prev': [['f', rng.choice([R.FALSY_BASE, R.FALSY_BASE + 1, R.FALSY_BASE + 2 + i])]
                                                                      if rng.random() < 0.5 else b for i, b in enumerate(a['prev'])]}
    blinds = {}
    if rng.random() < 0.5:
        blinds = {str(n[1]): rng.choice(['obj', 'fn']) for n in seg['nodes'] if rng.random() < 0.7}
    d = R.describe_segment(seg, builders, blinds)
    if d is None:
        return None
    return {'syms': d['syms'], 'assets': d['assets'], 'segment': seg, 'builders': builders, 'blind': blinds,
            'stateful': {str(t): True for t in seg['stateful']}}


def enum_apply(n, max_args=2):
    """Every apply-mode DAG of `n` stateless single-output workers, each non-head worker taking 1..max_args ordered
    arguments among the earlier workers, exactly one sink (the last worker)."""
    choices = []
    for i in range(1, n):
        opts = []
        for k in range(1, max_args + 1):
            opts.extend(itertools.product(range(i), repeat=k))
        choices.append(opts)
    for combo in itertools.product(*choices):
        used = {a for args in combo for a in args}
        if any(i not in used for i in range(n - 1)):
            continue
        yield {'syms': [[0, F(0), []]] + [[i + 1, F(i + 1), list(args)] for i, args in enumerate(combo)], 'assets': None}


def from_segment(c01spec):
    """Compile a C01 segment spec with the real compiler and describe the table as a C02 spec (None if the graph
    API / compiler refuses it)."""
    from forml import flow

    from props import c01

    built = c01.build(c01spec)
    if built.error:
        return None
    try:
        ex = c01.export(c01spec, built)
        assets = c01.make_assets(c01spec, ex, c01.Recorder())
        symbols = flow.compile(built.segment, assets)
    except Exception:  # pylint: disable=broad-except
        return None
    gid_index = {v: k for k, v in ex['gids'].items()}
    ngroups = len(c01spec['groups'])
    ids: dict = {}
    for s in symbols:
        ids.setdefault(id(s.instruction), len(ids))
    syms = []
    for s in symbols:
        d = c01.describe(s.instruction, gid_index)
        if d[0] == 'functor':
            chain = d[2:]
            ins = ['functor', d[1], chain[-1], sum(1 for c in chain[:-1] if c == 'setstate')]
            if len(chain) - 1 != ins[3]:
                return None
        elif d[0] == 'loader':
            if d[1] == 'foreign':
                return None
            ins = ['loader', d[1]]
        elif d[0] in ('getter',):
            ins = ['getter', d[1]]
        elif d[0] in ('dumper', 'committer'):
            ins = [d[0]]
        else:
            return None
        syms.append([ids[id(s.instruction)], ins, [ids.setdefault(id(a), len(ids)) for a in s.arguments]])
    a = c01spec.get('assets')
    aspec = None
    if a is not None:
        pers = [p if isinstance(p, int) else ngroups + 100 + int(p[1:]) for p in a['persistent']]
        prev = a.get('prev')
        aspec = {'persistent': pers, 'prev': None if prev is None else [int(bool(b)) for b in prev]}
    stateful = {}
    for g in c01spec['groups']:
        stateful[str(g['actor'])] = stateful.get(str(g['actor']), False) or bool(g['stateful'])
    return {'syms': syms, 'assets': aspec, 'stateful': stateful}


# --------------------------------------------------------------------------------------------------
# S-expressions for the model driver
# --------------------------------------------------------------------------------------------------


STRS = ['', 'g', 'x', 'y']  # the strings among the hyper-parameter values (`Hyper.str n`)
_PNAMES: list = []


def pnames():
    """Names of all hyper-parameters of the symbolic actor classes (`Param.name` = position in this list)."""
    if not _PNAMES:
        for c in sorted(rt().HYPER):
            for n, _, _ in rt().signature_of(c):
                if n not in _PNAMES:
                    _PNAMES.append(n)
    return _PNAMES


def hyper_sexp(v):
    if v is None:
        return None
    if isinstance(v, bool):
        return 'true' if v else 'false'
    if isinstance(v, int):
        return ['int', v]
    if isinstance(v, str):
        return ['str', STRS.index(v)]
    raise ValueError(f'not a hyper-parameter value: {v!r}')


def hyper_py(c):
    if c in (None, 'none'):
        return None
    if c in ('true', 'false'):
        return c == 'true'
    if c[0] == 'int':
        return int(c[1])
    if c[0] == 'str':
        return STRS[int(c[1])]
    raise ValueError(f'not a hyper-parameter value: {c!r}')


def class_sexp(tag, cls):
    nodefault = rt().NODEFAULT
    return [tag, [[pnames().index(n), 'none' if isinstance(d, str) and d == nodefault else ['some', hyper_sexp(d)],
                   'true' if kwonly else 'false'] for n, d, kwonly in rt().signature_of(cls)]]


def builder_sexp(tag, b):
    """spec ::= (class (hyper*) ((name hyper)*)); a tag without builder entry is the bare number"""
    if b is None:
        return tag
    return [class_sexp(tag, b['cls']), [hyper_sexp(v) for v in b.get('args', ())],
            [[pnames().index(k), hyper_sexp(v)] for k, v in b.get('kw', {}).items()]]


def instr_sexp(ins, builders=None, alt=None):
    if ins[0] == 'functor':
        return ['functor', builder_sexp(ins[1], alt or (builders or {}).get(str(ins[1]))), ins[2], ['setstate'] * ins[3]]
    if ins[0] in ('getter', 'loader'):
        return [ins[0], ins[1]]
    return ins[0]


def prev_sexp(i, b):
    if isinstance(b, (list, tuple)):
        return ['stored', b[1]]
    return ['stored', i] if b else None


def case_sexp(spec, info, x):
    syms = [[['uid', k], instr_sexp(ins, spec.get('builders'), (spec.get('alt') or {}).get(str(k))), [['uid', a] for a in args]]
            for k, ins, args in spec['syms']]
    a = spec.get('assets')
    if a is None:
        assets = None
    else:
        prev = a.get('prev')
        assets = [list(a['persistent']), [] if prev is None else [prev_sexp(i, b) for i, b in enumerate(prev)]]
    head = None if info.get('head') is None else ['uid', info['head']]
    rank = [[['uid', k], r] for k, r in sorted(info.get('rank', {}).items())]
    return sexp.dumps(['all', assets, syms, x, head, rank])


# --------------------------------------------------------------------------------------------------
# watched worker processes
# --------------------------------------------------------------------------------------------------


def _worker_main(conn, recdir):
    os.setsid()  # own process group: a hung worker is killed together with its dask process pool
    os.dup2(os.open(os.devnull, os.O_WRONLY), 2)  # dask / multiprocessing / forml-logging chatter (also of spawned pool processes)
    R = rt()
    rec = os.path.join(recdir, f'rec-{os.getpid()}.jsonl')
    try:
        while True:
            msg = conn.recv()
            if msg is None:
                break
            idx, spec, backends = msg
            for b in backends:
                try:
                    out = R.run_backend(spec, b, rec)
                except BaseException as e:  # pylint: disable=broad-except
                    out = {'backend': b, 'status': 'harness-error', 'error': f'{type(e).__name__}: {e}', 'records': []}
                conn.send((idx, b, out))
            conn.send((idx, None, None))
    except (EOFError, KeyboardInterrupt):
        pass
    finally:
        R.shutdown_pool()
        os._exit(0)  # pylint: disable=protected-access


class Farm:
    """N forked workers; every (case, back-end) has its own deadline; a worker that misses it is killed (with its
    process group) and the back-end is reported as `timeout` — behaviour, not a machinery error."""

    def __init__(self, nproc, timeout):
        self.nproc, self.timeout = nproc, timeout
        self.dir = tempfile.mkdtemp(prefix='verif-c02-')
        self.ctx = multiprocessing.get_context('fork')
        self.workers: list = []
        atexit.register(self.close)

    def _spawn(self):
        parent, child = self.ctx.Pipe()
        p = self.ctx.Process(target=_worker_main, args=(child, self.dir), daemon=False)  # dask's process pool needs children
        p.start()
        child.close()
        return {'proc': p, 'conn': parent, 'task': None}

    @staticmethod
    def _kill(w):
        try:
            os.killpg(w['proc'].pid, signal.SIGKILL)
        except (ProcessLookupError, PermissionError):
            pass
        w['proc'].join(5)
        w['conn'].close()

    def run(self, tasks):
        """tasks: [(idx, spec, [backends])] -> {idx: {backend: outcome}}"""
        rt()  # import forml / dask once in the parent; the forked workers inherit the modules
        import dask  # noqa: F401  pylint: disable=unused-import
        import dask.multiprocessing  # noqa: F401  pylint: disable=unused-import
        import dask.threaded  # noqa: F401  pylint: disable=unused-import

        queue = collections.deque(tasks)
        results: dict = collections.defaultdict(dict)
        while len(self.workers) < min(self.nproc, max(1, len(tasks))):
            self.workers.append(self._spawn())
        pending = len(tasks)
        while pending:
            for w in self.workers:
                if w['task'] is None and queue:
                    idx, spec, backends = queue.popleft()
                    w['task'] = [idx, spec, list(backends), time.time()]
                    w['conn'].send((idx, spec, backends))
            busy = [w for w in self.workers if w['task'] is not None]
            ready = multiprocessing.connection.wait([w['conn'] for w in busy], timeout=0.5)
            now = time.time()
            for w in busy:
                if w['conn'] in ready:
                    try:
                        idx, b, out = w['conn'].recv()
                    except (EOFError, OSError):
                        idx, b, out = w['task'][0], w['task'][2][0], {'backend': w['task'][2][0], 'status': 'died', 'records': []}
                        results[idx][b] = out
                        rest = w['task'][2][1:]
                        spec = w['task'][1]
                        self._kill(w)
                        self.workers[self.workers.index(w)] = self._spawn()
                        if rest:
                            queue.appendleft((idx, spec, rest))
                        else:
                            pending -= 1
                        continue
                    if b is None:
                        w['task'] = None
                        pending -= 1
                    else:
                        results[idx][b] = out
                        w['task'][2].remove(b)
                        w['task'][3] = now
                elif now - w['task'][3] > self.timeout:
                    idx, spec, backends, _ = w['task']
                    results[idx][backends[0]] = {'backend': backends[0], 'status': 'timeout', 'records': []}
                    self._kill(w)
                    self.workers[self.workers.index(w)] = self._spawn()
                    if backends[1:]:
                        queue.appendleft((idx, spec, backends[1:]))
                    else:
                        pending -= 1
        return results

    def close(self):
        for w in self.workers:
            try:
                w['conn'].send(None)
            except (OSError, ValueError):
                pass
        deadline = time.time() + 3
        for w in self.workers:
            w['proc'].join(max(0.1, deadline - time.time()))
            self._kill(w)  # always: the process group also holds the worker's dask process pool
        self.workers = []
        shutil.rmtree(self.dir, ignore_errors=True)


# --------------------------------------------------------------------------------------------------
# the check
# --------------------------------------------------------------------------------------------------

ERRMAP = {'AssertionError': 'assertion', 'KeyError': 'keyError', 'IndexError': 'indexError', 'TypeError': 'typeError',
          'ValueError': 'valueError', 'UnexpectedError': 'unexpected', 'RecursionError': 'recursion'}
DASK = ('dask-synchronous', 'dask-threads', 'dask-processes', 'dask-processes-fresh')
INPUT_SEXP = ['input', 0]


def features(spec, info):
    by = {k: (ins, args) for k, ins, args in spec['syms']}
    kinds = collections.Counter(ins[0] for ins, _ in by.values())
    consumers = collections.Counter(a for _, args in by.values() for a in args)
    f = []
    f.append('train' if any(ins[0] == 'functor' and ins[2] == 'train' for ins, _ in by.values()) else 'apply')
    if kinds['getter']:
        f.append('getters')
    if kinds['loader']:
        f.append('loaders')
    if kinds['committer']:
        f.append('commit')
    if any(c > 1 for k, c in consumers.items() if k in by and by[k][0][0] != 'loader'):
        f.append('shared')
    if info.get('head') is not None and consumers[info['head']] > 1:
        f.append('head-fanout')
    if spec.get('builders'):
        f.append('hyper')
    if spec.get('blind'):
        f.append('blind')
    a = spec.get('assets') or {}
    if any(t >= rt().FALSY_BASE for t in tags_of(spec)) or any(isinstance(b, list) for b in a.get('prev') or ()):
        f.append('falsy')
    return f


class C02(fw.Check):
    ID = 'C02'
    LEAN_MODULES = ['ForML.Props.C02']
    DRIVER = 'drv_c02'
    RULE = ('symbol tables (a) compiled by the real flow.compile from the C01 segment generator (random DAG segments of '
            '2..12 workers: fan-out/fan-in, M:N workers + getters, stateful groups with trained and applied forks, '
            'repeated equal builders, assets absent / partial / full with and without a previous generation), '
            '(b) direct apply-mode tables of 2..9 workers aimed at the serving runner (fan-out at the source, branches '
            'of unequal depth in both argument orders, shared results, values used twice, multi-output getters, shared '
            'state loaders, equal builders, shuffled symbol order), (c) a hand-picked corpus and a malformed stream '
            '(cycles, unbound arguments, several sinks / heads, dependent loaders, arity errors), (d) every apply-mode '
            'DAG of up to 4 (quick) / 6 (thorough) single-output workers with 1..2 ordered arguments. Each table is '
            're-materialised per back-end from its spec over real instruction objects and run by: harness interpreter, '
            'dask synchronous / threads / processes (subset), pyfunc Expression called twice and pyfunc Runner.run '
            '(apply-mode single-sink tables). A case is distinct by its spec and non-trivial when it is valid and has '
            '>= 3 instructions. Compared with the oracle: sink outputs (actor results, by structural digest), commits, '
            'executions per instruction class (exactly once; execution nonces: every consumer served by the same execution); '
            'with the Lean models: outcome class and sink values. Round 4: (e) payload / configuration widening of streams '
            '(a)-(c) (`decorate`: 35-50 % of the cases) and a stream of small tables of its own, every one also under the '
            'processes scheduler - actor builders with hyper-parameters (three classes; every parameter left out, given its '
            'default explicitly, None, a falsy value or another value, positionally or by keyword, keyword-only, one '
            'required) stamped on every output and state; actors whose outputs / trained states are falsy payloads; stored '
            "states b'', 0, falsy provenance terms; (f) builder descriptions incl. what Spec.__new__ refuses against the real "
            'flow.Spec (creation, instantiation, pickle and cloudpickle round trip) and the Lean Spec model; (g) real flow '
            'segments (pipelines with trained groups, forks, fan-out, multi-output workers) handed to Runner._exec of the '
            'dask runner under every scheduler and of the pyfunc runner; (h) every table also evaluated directly on '
            'instructions rebuilt from their cloudpickle (ref-shipped); (i) builders that print the same although they make different '
            'actors (tag handed over as a repr-blind object / closure, also with None vs non-None default) and builders of one '
            'actor printing differently, in parallel branches over equal arguments: every small enumerated shape blinded, 35 % of '
            'the decorated cases, corpus; the dask key of every instruction object is checked to differ for different content.')
    TRUSTED = [
        'symbolic actors/payloads (provenance terms, structural digests): runners are assumed payload-agnostic except for '
        'the truthiness of a payload, which the payloads carry (falsy outputs / states / stored states; the convention is the '
        'one of Val.truthy in the shared Symbols.lean and is checked against the driver on every run)',
        'Python pickling of everything but flow.Spec (Functor named tuple, action objects, system instructions, asset '
        'accessor, payload terms): the model takes it as the identity; observed on every table by ref-shipped',
        'the fake generation behind the real asset.State and the per-invocation record file (one JSON line per actor '
        'call / dump / commit / load, O_APPEND) through which sink outputs and persisted states are observed, also across '
        'the processes scheduler',
        'dask itself (graph optimisation, tokenisation of pure tasks, schedulers, cloudpickle): exercised, not modelled; the '
        'model assumes a scheduler evaluates the linked graph in dependency order, each task once',
        'the table spec -> real instruction objects step (`materialise`); tables of stream (a) are described from the real '
        'compiler output and re-materialised',
    ]
    ASSUMPTIONS = [
        'which preset values reach the actor (truthy ones only, or every one that is not None) is read off the direct '
        'evaluation of the real instruction objects per case and demanded of every back-end; the Lean model has the truthy '
        'rule of the code that exists (a consistent change of the rule is a model divergence, not a violation)',
        'builders: positional-or-keyword and keyword-only constructor parameters, values None / bool / int / str; the meaning '
        'of a table is that every functor is applied by the actor `cls(*args, **kwargs)` makes (Python call semantics)',
        'valid table: unique instructions, every argument bound, acyclic, arities as the compiler emits them (train: '
        'features+labels after the presets, getter/dumper one argument, committer one state per persistent group), '
        'loaders/dumpers/committer only with an asset accessor and only for persistent groups',
        'domain of the single-function runner: apply-mode tables (apply functors whose state presets are fed by loaders, '
        'getters, loaders) with exactly one sink and exactly one argument-free head; outside it nothing is claimed',
        'the external input of the single-function runner is an additional last argument of the head (the feed source '
        'actors declare `apply(self, entry=None)`), so `Runner.run` = input None',
        'CPython recursion limit not modelled (dask `link` and pyfunc `walk` recurse once per level)',
        'equal persisted data = equal commit lists of symbolic state ids; how often a state is dumped is not compared '
        '(dask merges equal pure tasks)',
    ]

    BACKEND_TIMEOUT = 60

    def __init__(self, tier, seed):
        super().__init__(tier, seed)
        self.farm = None
        self.outcomes = collections.Counter()
        self.found = collections.Counter()
        self.suspects: list = []  # builder descriptions on which the real pickling and the model disagree

    # ---- one batch ---------------------------------------------------------------------------
    def _backends_for(self, spec, info, procs):
        bs = ['ref', 'ref-shipped', 'dask-synchronous', 'dask-threads']
        if procs == 'pool':
            bs.append('dask-processes')
        elif procs == 'fresh':
            bs.append('dask-processes-fresh')
        bs += ['pyfunc-call', 'pyfunc-run']
        if info.get('pyfunc') and spec.get('fail') is not None:
            bs.append('pyfunc-recover')
        return bs

    def _batch(self, items, stream, procs_plan=None, pyfunc_only=False):
        """items: [(name, spec)]"""
        if self.farm is None:
            self.farm = Farm(min(12, max(2, (os.cpu_count() or 4) - 2)), self.BACKEND_TIMEOUT)
        infos, tasks, lines = [], [], []
        for i, (name, spec) in enumerate(items):
            info = classify(spec)
            infos.append(info)
            if info['pyfunc'] and 'fail' not in spec and not pyfunc_only:
                tags = sorted({ins[1] for _, ins, _ in spec['syms'] if ins[0] == 'functor'})
                spec['fail'] = tags[(len(spec['syms']) * 7 + i) % len(tags)]
            procs = (procs_plan or {}).get(i)
            backends = ['pyfunc-call'] if pyfunc_only else self._backends_for(spec, info, procs)
            tasks.append((i, spec, backends))
            small = info.get('maxsize', 1) <= TREE_LIMIT
            info['modelled'] = small
            if small:
                lines.append(case_sexp(spec, info, INPUT_SEXP))
        results = self.farm.run(tasks)
        for i, (name, spec) in enumerate(items):
            for b, o in list(results[i].items()):
                if o['status'] in ('timeout', 'died'):
                    # a loaded machine is not a dead-lock: once more, alone, with a generous limit
                    solo = Farm(1, 4 * self.BACKEND_TIMEOUT)
                    try:
                        again = solo.run([(0, spec, [b])])[0][b]
                    finally:
                        solo.close()
                    self.outcomes[(b, f're-run after {o["status"]}: {again["status"]}')] += 1
                    results[i][b] = again
        # the pickling contract of instructions, observed without dask (`ref-shipped`: the direct evaluation on copies
        # rebuilt from their cloudpickle): a table on which that changes anything also runs behind the real process
        # boundary, whatever the plan says
        again = []
        for i, (name, spec) in enumerate(items):
            a, b = results[i].get('ref'), results[i].get('ref-shipped')
            if a and b and a['status'] == 'ok' and not any(p in results[i] for p in ('dask-processes', 'dask-processes-fresh')):
                if b['status'] != 'ok' or {r[3] for r in a['records'] if r[0] == 'call'} != {r[3] for r in b['records'] if r[0] == 'call'} \
                        or sorted(r[1] for r in a['records'] if r[0] == 'commit') != sorted(r[1] for r in b['records'] if r[0] == 'commit'):
                    again.append((i, spec, ['dask-processes']))
        if again:
            self.outcomes[('ref-shipped', 'differs from ref: case sent to the processes scheduler')] += len(again)
            for i, out in self.farm.run(again[:40]).items():
                results[i].update(out)
        answers = iter(self.model(lines))
        for i, (name, spec) in enumerate(items):
            info = infos[i]
            m = sexp.num(sexp.loads(next(answers))) if info['modelled'] else None
            self._judge(name, spec, info, results[i], m, stream)

    # ---- judging one case -----------------------------------------------------------------------
    def _expected(self, spec, info, x):
        """(sink functor digests, all functor digests by (tag, action), commits) with the head fed `x`."""
        R = rt()
        orc = self._oracle(spec, info, x)
        by = orc.by
        sink = {}
        for k in info['sinks']:
            if by[k][0][0] == 'functor':
                sink[k] = R.digest(orc.memo[k])
        allv = collections.defaultdict(set)
        for k, (ins, _) in by.items():
            if ins[0] == 'functor':
                allv[(ins[1], ins[2])].add(R.digest(orc.memo[k]))
        commits = sorted([R.digest(s) for s in c] for c in orc.commits)
        return orc, sink, allv, commits

    @staticmethod
    def _oracle(spec, info, x=NOARG):
        """The direct evaluation of the spec (head fed `x`) under the preset policy observed for this case."""
        setfalsy = info.get('setfalsy', False)
        if x is NOARG and not setfalsy:
            return info['oracle']
        cache = info.setdefault('oracles', {})
        key = (None if x is NOARG else 'none' if x is None else rt().digest(x), setfalsy)
        if key not in cache:
            cache[key] = Oracle(spec, None if x is NOARG else info['head'], x, setfalsy=setfalsy)
        return cache[key]

    @staticmethod
    def _explains(orc, out):
        """Does the evaluation `orc` account for exactly the actor results the back-end recorded?"""
        R = rt()
        want = {R.digest(orc.memo[k]) for k, (ins, _) in orc.by.items() if ins[0] == 'functor'}
        return want == {r[3] for r in out['records'] if r[0] == 'call'}

    @staticmethod
    def _classes(orc):
        """Expected executions: {(tag, action, value digest): number of instructions}, {dumped state digest: number}"""
        R = rt()
        execs, dumps = collections.Counter(), collections.Counter()
        for k, (ins, args) in orc.by.items():
            if ins[0] == 'functor':
                execs[(ins[1], ins[2], R.digest(orc.memo[k]))] += 1
            elif ins[0] == 'dumper':
                dumps[R.digest(orc.memo[args[0]])] += 1
        return execs, dumps

    def _executions(self, spec, info, backend, out, orcs, witness, sigprefix):
        """Every instruction of the table executes exactly once per run, and every consumer of a result receives the
        product of that one execution (instructions of equal content and equal arguments form one class: dask may
        collapse a class into a single pure task, every other back-end executes each member)."""
        expect, dexpect = collections.Counter(), collections.Counter()
        for orc in orcs:
            e, d = self._classes(orc)
            expect.update(e)
            dexpect.update(d)
        got = collections.Counter((r[1], r[2], r[3]) for r in out['records'] if r[0] == 'call')
        dgot = collections.Counter(r[1] for r in out['records'] if r[0] == 'dump')
        briefs = {r[3]: r[4] for r in out['records'] if r[0] == 'call'}
        collapsing = backend in DASK
        for what, want, have in (('actor', expect, got), ('dumper', dexpect, dgot)):
            for cls, size in want.items():
                n = have.get(cls, 0)
                ok = (1 <= n <= size) if collapsing else n == size
                if not ok:
                    name = f'actor {cls[0]} ({cls[1]})' if what == 'actor' else 'the dumper'
                    self.violate(f'{backend}: {name} is executed {n} time(s) on the same arguments where the '
                                 f'dependency-ordered evaluation executes {size} instruction(s) once each'
                                 + (f': {briefs.get(cls[2])}' if what == 'actor' else ''), witness,
                                 f'{sigprefix}:execution-count')
                    return False
            for cls in have:
                if cls not in want:
                    name = f'actor {cls[0]} ({cls[1]}) invoked with {briefs.get(cls[2])}' if what == 'actor' else 'a state dumped'
                    self.violate(f'{backend}: {name} which no instruction of the table computes', witness,
                                 f'{sigprefix}:extra-execution')
                    return False
        # one execution behind every reference
        produced = collections.defaultdict(set)
        for r in out['records']:
            if r[0] == 'call':
                produced[r[3]].add(r[5])
            elif r[0] == 'dump':
                produced[r[5]].add(r[3])
        refs = collections.defaultdict(set)
        for r in out['records']:
            for d, n in (r[6] if r[0] == 'call' else r[4] if r[0] == 'dump' else r[3] if r[0] == 'commit' else []):
                refs[d].add(n)
        sizes = collections.Counter()  # how many instructions produce a value of this digest
        for orc in orcs:
            for k, (ins, _) in orc.by.items():
                if ins[0] in ('functor', 'dumper'):
                    sizes[rt().digest(orc.memo[k])] += 1
        for d, ns in refs.items():
            if not ns <= produced.get(d, set()):
                self.violate(f'{backend}: a consumer received a result that no execution of this run produced', witness,
                             f'{sigprefix}:foreign-execution')
                return False
            if sizes.get(d, 1) == 1 and len(ns) > 1:
                self.violate(f'{backend}: the consumers of one instruction received the results of {len(ns)} different '
                             f'executions of it ({briefs.get(d, "state")}): sink output and persisted state do not stem '
                             f'from the same run of the shared instruction', witness, f'{sigprefix}:split-execution')
                return False
        return True

    def _observe(self, spec, info, backend, out, x, witness, sigprefix):
        """The oracle on one back-end outcome of a valid table that the back-end must accept."""
        R = rt()
        orc, sink, allv, commits = self._expected(spec, info, x)
        by = orc.by
        feats = features(spec, info)
        shape_sig = ':head-fanout' if 'head-fanout' in feats else ''
        if out['status'] == 'timeout':
            self.violate(f'{backend} does not finish within {self.BACKEND_TIMEOUT}s on a valid table that other back-ends run',
                         witness, f'{sigprefix}:deadlock')
            return
        if out['status'] != 'ok':
            stage = out.get('stage', 'run')
            self.violate(f'{backend} raises {out.get("error")} ({stage}: {out.get("message", "")}) on a valid table that the '
                         f'dependency-ordered evaluation runs', witness,
                         f'{sigprefix}:{stage if sigprefix == "pyfunc" else "run"}:{out.get("error")}{shape_sig if sigprefix == "pyfunc" else ""}')
            return
        if backend == 'pyfunc-recover':
            orc2 = self._oracle(spec, info, R.Term(*R.INPUT2))
            want2 = R.digest(orc2.memo[info['sinks'][0]])
            if out.get('result2', [None])[0] != want2:
                self.violate(f'pyfunc Expression returns {out.get("result2", [None, None])[1]} on the call following one on '
                             f'which actor {spec.get("fail")} raised; dependency-ordered evaluation: '
                             f'{R.show(orc2.memo[info["sinks"][0]], 300)}', witness, 'pyfunc:return-value-after-failure')
            return
        orcs = [orc]
        if backend == 'pyfunc-call':
            orcs.append(self._oracle(spec, info, R.Term(*R.INPUT2)))  # the record holds both requests
        calls = collections.defaultdict(set)
        briefs = {}
        for r in out['records']:
            if r[0] == 'call':
                calls[(r[1], r[2])].add(r[3])
                briefs[r[3]] = r[4]
        for k, d in sink.items():
            ins = by[k][0]
            got = calls.get((ins[1], ins[2]), set())
            if d not in got:
                other = sorted(got - allv[(ins[1], ins[2])])
                self.violate(f'{backend}: sink actor {ins[1]} ({ins[2]}) delivers '
                             f'{briefs.get(other[0]) if other else "nothing"} where the dependency-ordered evaluation yields '
                             f'{R.show(orc.memo[k], 300)}', witness, f'{sigprefix}:sink-output')
                return
            extra = got - allv[(ins[1], ins[2])]
            if backend == 'pyfunc-call':
                extra = set()  # the record also holds the second request
            if extra:
                e = sorted(extra)[0]
                self.violate(f'{backend}: sink actor {ins[1]} additionally invoked with other data: {briefs.get(e)}', witness,
                             f'{sigprefix}:sink-extra-output')
                return
        if not self._executions(spec, info, backend, out, orcs, witness, sigprefix):
            return
        got_commits = sorted(r[1] for r in out['records'] if r[0] == 'commit')
        if got_commits != commits:
            self.violate(f'{backend}: committed states {[r[2] for r in out["records"] if r[0] == "commit"]} differ from the '
                         f'dependency-ordered evaluation ({len(commits)} commit(s) expected)', witness, f'{sigprefix}:commit')
            return
        if backend == 'pyfunc-call':
            want = R.digest(orc.memo[info['sinks'][0]])
            if out.get('result', [None])[0] != want:
                self.violate(f'pyfunc Expression returns {out.get("result", [None, None])[1]}; dependency-ordered '
                             f'evaluation: {R.show(orc.memo[info["sinks"][0]], 300)}', witness, 'pyfunc:return-value')
                return
            orc2 = self._oracle(spec, info, R.Term(*R.INPUT2))
            want2 = R.digest(orc2.memo[info['sinks'][0]])
            if out.get('result2', [None])[0] != want2:
                self.violate(f'pyfunc Expression returns {out.get("result2", [None, None])[1]} on the second call; '
                             f'dependency-ordered evaluation: {R.show(orc2.memo[info["sinks"][0]], 300)}', witness,
                             'pyfunc:return-value-second-call')
                return

    def _judge(self, name, spec, info, res, m, stream):
        R = rt()
        witness = {'spec': spec, 'name': name, 'backends': [b for b in R.BACKENDS if b in res]}
        feats = features(spec, info) if info['valid'] else ['invalid:' + str(info['why'])]
        nsym = len(spec['syms'])
        shape = f'{stream}: {"+".join(feats)} n={nsym if nsym < 8 else "8+"}' + ('' if info['valid'] else '')
        key = repr((spec['syms'], spec.get('assets'), spec.get('builders'), spec.get('blind'), spec.get('alt')))
        sample = None
        if info['valid'] and nsym >= 4:
            sample = {'table': spec['syms'], 'assets': spec.get('assets'), 'backends': {b: o['status'] for b, o in res.items()}}
        self.case(key, shape, nontrivial=info['valid'] and nsym >= 3, sample=sample)
        for b, o in res.items():
            self.outcomes[(b, o['status'] if o['status'] != 'crash' else 'crash:' + str(o.get('error')))] += 1
            if o['status'] == 'harness-error':
                raise fw.MachineryError(f'worker failed on {name}: {o.get("error")}')
        unbuildable = any(o['status'] == 'unbuildable' for o in res.values())
        # ---- which preset values does the direct evaluation of the real instructions hand to the actor? ----
        info['setfalsy'] = False
        ref = res.get('ref')
        if info['valid'] and not unbuildable and info['oracle'].falsy_presets and ref and ref['status'] == 'ok' \
                and not self._explains(info['oracle'], ref):
            alt = Oracle(spec, setfalsy=True)
            if self._explains(alt, ref):
                info['setfalsy'] = True
                self.outcomes[('ref', 'the direct evaluation hands falsy preset values to the actor')] += 1
        # ---- oracle on the real code (valid tables only) ------------------------------------------
        if info['valid'] and not unbuildable:
            for b, o in res.items():
                if b == 'ref':
                    self._observe(spec, info, b, o, NOARG, witness, 'interpreter')
                elif b in DASK:
                    self._observe(spec, info, b, o, NOARG, witness, b.replace('-fresh', ''))
                elif b == 'pyfunc-call' and info['pyfunc']:
                    self._observe(spec, info, b, o, R.Term(*R.INPUT), witness, 'pyfunc')
                elif b == 'pyfunc-run' and info['pyfunc']:
                    self._observe(spec, info, b, o, None, witness, 'pyfunc')
                elif b == 'pyfunc-recover' and info['pyfunc']:
                    self._observe(spec, info, b, o, R.Term(*R.INPUT), witness, 'pyfunc')
        # ---- the names dask gives the pure tasks: different instruction content, different name -----
        names = (ref or {}).get('names')
        if info['valid'] and not unbuildable and names and 'error' not in names:
            orc = info['oracle']
            content = {}
            for k, (ins, _) in orc.by.items():
                if ins[0] == 'functor':
                    content[k] = ('functor', R.digest(orc.ident(ins[1], k)), ins[2], ins[3])
                elif ins[0] in ('getter', 'loader'):
                    content[k] = (ins[0], ins[1])
                else:
                    content[k] = (ins[0],)
            seen = {}
            for k in orc.by:
                n = names.get(str(k))
                if n is None:
                    continue
                if n in seen and content[seen[n]] != content[k]:
                    self.diverge('dask names two instructions of different content alike (Lean: Table.namesInjective of the '
                                 'content naming)', witness, [orc.by[seen[n]][0], orc.by[k][0], n], 'different names')
                    break
                seen.setdefault(n, k)
        # ---- model vs implementation ------------------------------------------------------------
        if m is None or unbuildable:
            return
        uninst = str(info.get('why') or '').startswith('builder of actor')
        if isinstance(m, list) and m and m[0] == 'uninstantiable':
            # some builder cannot make its actor: on a table that is valid otherwise every instruction is executed by
            # the direct evaluation and by dask, which raise TypeError when they get there
            if info['valid']:
                self.diverge('Spec.call (Lean) vs the call semantics of the harness: instantiable?', witness, 'ok', m)
            elif uninst:
                for b, o in res.items():
                    if (b == 'ref' or b in DASK) and o['status'] != 'timeout' and (o['status'] == 'ok' or o.get('error') != 'TypeError'):
                        self.diverge(f'{b} outcome on a table with an uninstantiable builder', witness,
                                     o.get('error', o['status']), 'TypeError')
            return
        if not (isinstance(m, list) and m and m[0] == 'all'):
            raise fw.MachineryError(f'model driver rejected a case: {m!r:.200}')
        if uninst:
            self.diverge('Spec.call (Lean) vs the call semantics of the harness: instantiable?', witness, info.get('why'), 'ok')
            return
        _, mrun, mdask, mpf, mpf2, mvin, mwf, mam, mproc, mactors, mexec = m
        actors = {a[0]: ('actor', a[1], tuple((pnames()[n], hyper_py(v)) for n, v in a[2])) for a in mactors}
        info['actors'] = actors

        def dc(c):  # digests of model values: actor symbols stand for configured instances
            return R.digest_canon(c, actors)

        if info['valid'] and (mam == 'true') != info['pyfunc']:
            self.diverge('Table.applyMode vs harness classification of the pyfunc domain', witness, info['pyfunc'], mam)
        if (mwf == 'true') != info['valid'] and info['why'] in (None, 'duplicate key', 'unbound argument', 'cyclic'):
            self.diverge('Table.ranked vs harness validity', witness, info['valid'], mwf)
        calls = {b: {r[3] for r in o['records'] if r[0] == 'call'} for b, o in res.items()}
        by = {k: ins for k, ins, _ in spec['syms']}

        def model_vals(kvs):
            return {kv[0][1]: kv[1] for kv in kvs}

        # reference interpreter `run` vs the harness interpreter on the real instructions
        if 'ref' in res and res['ref']['status'] == 'ok' and info['valid']:
            for k, v in model_vals(mrun).items():
                if by[k][0] == 'functor' and dc(v) not in calls['ref']:
                    self.diverge('Lean `run` sink value vs real instructions under the harness interpreter', witness,
                                 sorted(calls['ref'])[:3], v)
        # dask
        for b in DASK:
            if b not in res:
                continue
            o = res[b]
            if o['status'] == 'timeout':
                self.diverge(f'{b} outcome', witness, 'timeout', mdask[0])
                continue
            if mdask[0] == 'ok':
                if o['status'] != 'ok':
                    if info['valid']:
                        self.diverge(f'{b} outcome', witness, o.get('error'), 'ok')
                    continue  # invalid tables: the model embeds the error in the value, Python raises somewhere
                if not info['valid']:
                    continue
                for k, v in model_vals(mdask[1]).items():
                    if by[k][0] == 'functor' and dc(v) not in calls[b]:
                        self.diverge(f'{b} sink value', witness, sorted(calls[b])[:3], v)
                if mdask[2] != 'true':
                    self.diverge('model: dask job does not run every task exactly once', witness, None, mdask[2])
            else:
                want = {'duplicated': 'AssertionError', 'notAcyclic': 'AssertionError', 'recursion': 'RecursionError'}[mdask[1]]
                # a cycle reachable from a leaf: `link` never returns - in which frame (forml's, dask's, a tokeniser's)
                # CPython's recursion limit strikes, and as what it surfaces, is incidental
                if o['status'] == 'ok' or (o.get('error') != want and mdask[1] != 'recursion'):
                    self.diverge(f'{b} outcome', witness, o.get('error', o['status']), mdask)
        # the `processes` scheduler: every instruction executed on a copy rebuilt from its pickle
        for b in ('dask-processes', 'dask-processes-fresh'):
            o = res.get(b)
            if o is None or o['status'] == 'timeout' or not info['valid']:
                continue
            if mproc[0] == 'ok':
                if o['status'] != 'ok':
                    self.diverge(f'{b} outcome (runDaskProcesses)', witness, o.get('error'), 'ok')
                    continue
                for k, v in model_vals(mproc[1]).items():
                    if by[k][0] == 'functor' and dc(v) not in calls[b]:
                        self.diverge(f'{b} sink value (runDaskProcesses)', witness, sorted(calls[b])[:3], v)
            elif o['status'] == 'ok':
                self.diverge(f'{b} outcome (runDaskProcesses)', witness, 'ok', mproc)
        # the direct evaluation on instructions rebuilt from their pickle: the model says nothing changes (PTable.ship)
        o, a = res.get('ref-shipped'), res.get('ref')
        if o is not None and a is not None and info['valid'] and a['status'] == 'ok' and o['status'] != 'timeout':
            if o['status'] != 'ok':
                self.diverge('direct evaluation on instructions rebuilt from their pickle: outcome', witness, o.get('error'), 'ok')
            elif calls['ref-shipped'] != calls['ref']:
                self.diverge('direct evaluation on instructions rebuilt from their pickle (Lean `PTable.ship`: unchanged)', witness,
                             sorted(calls['ref-shipped'] - calls['ref'])[:3], sorted(calls['ref'] - calls['ref-shipped'])[:3])
        # pyfunc
        o = res.get('pyfunc-call')
        if o is not None:
            if mpf[0] == 'error' and mpf[1] in ('unsupported', 'noAssets'):
                self.outcomes[('model', 'pyfunc outside the model')] += 1
            elif o['status'] == 'timeout':
                self.diverge('pyfunc outcome', witness, 'timeout', mpf)
            elif mpf[0] == 'ok':
                if o['status'] != 'ok' and o.get('stage') != 'call2':
                    if info['valid'] or o.get('stage') == 'build':
                        self.diverge('pyfunc outcome', witness, [o.get('stage'), o.get('error')], 'ok')
                elif o['status'] == 'ok' or o.get('stage') == 'call2':
                    if info['valid'] and o.get('result', [None])[0] != dc(mpf[1]):
                        self.diverge('pyfunc return value', witness, o['result'][1], mpf[1])
                    if not info['pyfunc']:
                        pass  # outside the runner's domain (e.g. a train functor keeps its state between calls)
                    elif mpf2[0] == 'ok':
                        if o['status'] != 'ok':
                            self.diverge('pyfunc second call outcome', witness, o.get('error'), 'ok')
                        elif info['valid'] and o['result2'][0] != dc(mpf2[2]):
                            self.diverge('pyfunc second call value', witness, o['result2'][1], mpf2[2])
                    elif o['status'] == 'ok' or ERRMAP.get(o.get('error')) != mpf2[1]:
                        self.diverge('pyfunc second call outcome', witness, o.get('error', 'ok'), mpf2)
            else:
                if o['status'] == 'ok' or ERRMAP.get(o.get('error'), o.get('error')) != mpf[1]:
                    self.diverge('pyfunc outcome', witness, [o.get('stage'), o.get('error', 'ok')], mpf)
        # which instructions a request executes: the instrumented evaluator `evalT` (Lemmas/C02PyOnce.lean) vs the
        # invocations the real expression made (both requests of `pyfunc-call`); on apply-mode tables the model must
        # satisfy `C02_pyfunc_once_full` (every functor / getter once per request, no loader)
        if o is not None and info['valid'] and info['pyfunc'] and mpf[0] == 'ok' and isinstance(mexec, list) and mexec[0] == 'ok':
            need = sorted(k for k, ins in by.items() if ins[0] in ('functor', 'getter'))
            for which, tr in (('first', mexec[1]), ('second', mexec[2])):
                if sorted(kk[1] for kk in tr) != need:
                    self.diverge(f'model: the {which} pyfunc request does not execute every functor / getter exactly once '
                                 '(C02_pyfunc_once_full)', witness, need, tr)
            if mexec[3] != 'true':
                self.diverge('model: the replica cells of one fork wrap different terms (hypothesis `cellsOk` of '
                             'C02_pyfunc_executes_all)', witness, 'true', mexec[3])
            if o['status'] == 'ok':
                want = collections.Counter(tuple(by[kk[1]][1:3]) for tr in mexec[1:3] for kk in tr if by[kk[1]][0] == 'functor')
                have = collections.Counter((r[1], r[2]) for r in o['records'] if r[0] == 'call')
                if want != have:
                    self.diverge('pyfunc: actor invocations of two requests (real expression) vs `Term.executed` (Lean)', witness,
                                 sorted(have.items(), key=repr)[:6], sorted(want.items(), key=repr)[:6])
                self.outcomes[('model', 'pyfunc executions compared')] += 1
        # the two spec twins: Lean valueIn vs the Python oracle with input
        if info['valid'] and info['pyfunc'] and mvin != 'none':
            orc = Oracle(spec, info['head'], R.Term(*R.INPUT))
            for k, v in model_vals(mvin).items():
                if R.digest(orc.memo[k]) != dc(v):
                    self.diverge('valueIn (Lean) vs oracle with input (Python)', witness, R.show(orc.memo[k]), v)
        if info['valid']:
            for k, v in model_vals(mrun).items():
                if R.digest(info['oracle'].memo[k]) != dc(v):
                    self.diverge('run (Lean) vs oracle (Python)', witness, R.show(info['oracle'].memo[k]), v)

    # ---- streams ------------------------------------------------------------------------------
    def _segments(self, n):
        from props import c01

        sys.unraisablehook = c01._quiet_unraisable  # pylint: disable=protected-access
        out = []
        tries = 0
        while len(out) < n and tries < 20 * n:
            tries += 1
            mode = self.rng.choice(['train', 'apply'])
            size = self.rng.choice([2, 3, 4, 5, 6, 8, 10, 12])
            s = c01.gen_spec(self.rng, size, mode=mode)
            spec = from_segment(s)
            if spec is None:
                continue
            out.append((f'segment-{len(out)}', spec))
        return out

    def _bounded(self, items):
        """Drop cases whose sink values are too large as trees for the line protocol (counted)."""
        keep = []
        for name, spec in items:
            info = classify(spec)
            if info['valid'] and info['maxsize'] > TREE_LIMIT:
                self.outcomes[('generator', 'dropped: value tree too large')] += 1
                continue
            keep.append((name, spec))
        return keep

    def _conventions(self):
        """The payload truthiness the real symbolic payloads have must be the one of the shared Lean model."""
        R = rt()
        T = R.Term
        probes = [None, T('stored', 0), T('stored', R.FALSY_BASE - 1), T('stored', R.FALSY_BASE), T('stored', R.FALSY_BASE + 1),
                  T('stored', 5 * R.FALSY_BASE), T('input', 0), T('dumped', None), T('committed', ()), T('proj', 0, T('apply', R.FALSY_BASE, None, ()))]
        for a in (0, 7, R.FALSY_BASE - 1, R.FALSY_BASE, R.FALSY_BASE + 7, 2 * R.FALSY_BASE, 2 * R.FALSY_BASE + 7, 3 * R.FALSY_BASE + 7,
                  4 * R.FALSY_BASE + 7, 5 * R.FALSY_BASE + 7, 6 * R.FALSY_BASE, 7 * R.FALSY_BASE + 1, 10 ** 6 + 3):
            probes.append(T('apply', a, None, ()))
            probes.append(T('state', a, None, None, None))
        ans = sexp.loads(self.model([sexp.dumps(['truthy'] + [R.canon(v) for v in probes])])[0])
        got = [a == 'true' for a in ans]
        want = [bool(v) for v in probes]
        if got != want:
            bad = [R.canon(v) for v, g, w in zip(probes, got, want) if g != w]
            raise fw.MachineryError(f'payload truthiness of the shared model (Val.truthy) and of the harness payloads differ on {bad[:4]}')
        if not (bool(R.stored_payload(R.FALSY_BASE)) is False and R.stored_payload(R.FALSY_BASE) == b''
                and R.stored_payload(R.FALSY_BASE + 1) == 0 and not R.stored_payload(R.FALSY_BASE + 1)):
            raise fw.MachineryError('stored payload literals')

    def _builders(self, n):
        """Differential test of the builder model (`Spec.new`, `Spec.call`, `Spec.roundtrip`) against the real
        `flow.Spec`: creation, instantiation, pickle / cloudpickle round trip, instantiation behind the round trip.
        Builder descriptions whose round trip does not configure the same actor are kept for the failing-input search."""
        R = rt()
        rng = self.rng
        descs = []
        for cls in sorted(R.HYPER):  # hand-picked: nothing passed, explicit None for every parameter, all defaults explicit
            sig = R.signature_of(cls)
            descs.append({'cls': cls, 'args': [], 'kw': {}})
            descs.append({'cls': cls, 'args': [], 'kw': {n_: None for n_, _, _ in sig}})
            descs.append({'cls': cls, 'args': [], 'kw': {n_: d for n_, d, _ in sig if not (isinstance(d, str) and d == R.NODEFAULT)}})
            descs.append({'cls': cls, 'args': [None for p in sig if not p[2]], 'kw': {}})
            descs.append({'cls': cls, 'args': [0, '', False], 'kw': {}})
        while len(descs) < n:
            descs.append(gen_builder(rng, malformed=rng.random() < 0.25))
        lines = [sexp.dumps(['spec', class_sexp(7, d['cls']), [hyper_sexp(v) for v in d['args']],
                             [[pnames().index(k) if k in pnames() else 99, hyper_sexp(v)] for k, v in d['kw'].items()]]) for d in descs]
        answers = self.model(lines)
        for d, line in zip(descs, answers):
            m = sexp.num(sexp.loads(line))
            if not (isinstance(m, list) and m and m[0] == 'spec'):
                raise fw.MachineryError(f'model driver rejected a builder: {m!r:.200}')
            _, mnew, mcall, mrt, mafter = m
            stateful = rng.random() < 0.5
            real = R.probe_builder(d, stateful)
            valid = real['new'] == 'ok'
            self.case(repr(('builder', d['cls'], d['args'], sorted(d['kw'].items(), key=str), stateful)),
                      f'builder: {d["cls"]} {"accepted" if valid else "refused"}'
                      + (' none-over-default' if any(v is None for v in d['kw'].values()) else ''), nontrivial=valid)
            if (mnew == 'ok') != valid:
                self.diverge('Spec.new (Lean) vs flow.Spec.__new__', d, real['new'], mnew)
                continue
            if not valid:
                continue

            def py(c):
                return 'typeError' if c == 'typeError' else ['ok', [[pnames()[n_], hyper_py(v)] for n_, v in c[1]]]

            def typed(c):  # 0 == False in Python: compare with the types
                return c if c == 'typeError' or c == ['typeError'] else [[k, type(v).__name__, v] for k, v in c[1]]

            call = real['call'] if real['call'] != ['typeError'] else 'typeError'
            if typed(py(mcall)) != typed(call):
                self.diverge('Spec.call (Lean) vs the parameters of the actor the real builder makes', d, call, py(mcall))
            for how, rtp in real['roundtrip'].items():
                after = rtp['call'] if rtp['call'] != ['typeError'] else 'typeError'
                if mrt == 'same':
                    if rtp['same'] is not True:
                        self.diverge(f'Spec.roundtrip (Lean: unchanged) vs {how}.loads({how}.dumps(builder))', d,
                                     {'args': rtp.get('args'), 'kw': rtp.get('kw')}, 'same')
                        self.suspects.append(d)
                    if typed(after) != typed(py(mafter)):
                        self.diverge(f'the actor made by the builder rebuilt by {how} vs Lean', d, after, py(mafter))
                        self.suspects.append(d)
                else:
                    self.diverge('Spec.roundtrip (Lean) does not return the builder', d, rtp, mrt)

    def _decorated(self, items, frac, **kw):
        return [(n + '+', decorate(self.rng, s, **kw)) if self.rng.random() < frac else (n, s) for n, s in items]

    @staticmethod
    def _widened(items):
        """indices of the cases with builders carrying hyper-parameters or with falsy payloads"""
        R = rt()
        out = []
        for i, (_, s) in enumerate(items):
            a = s.get('assets') or {}
            if s.get('builders') or any(t >= R.FALSY_BASE for t in tags_of(s)) or any(isinstance(b, list) for b in a.get('prev') or ()):
                out.append(i)
        return out

    def _plan(self, items, npool, nfresh=0, nwide=0):
        """which cases also run under the `processes` scheduler: a random subset, plus `nwide` of the widened ones"""
        rng = self.rng
        plan = {i: 'pool' for i in rng.sample(range(len(items)), min(len(items), npool))}
        wide = self._widened(items)
        for i in rng.sample(wide, min(len(wide), nwide)):
            plan[i] = 'pool'
        for i in rng.sample(range(len(items)), min(len(items), nfresh)):
            plan[i] = 'fresh'
        return plan

    def correspondence(self):
        rng = self.rng
        try:
            self._conventions()
            self._builders(self.n(150, 3000))
            corpus = [(n, s) for n, s in CORPUS]
            self._batch(corpus, 'corpus', procs_plan={i: ('fresh' if i % 7 == 2 else 'pool') for i in range(len(corpus))})
            self._batch(list(MALFORMED), 'malformed')
            nseg, ndir = self.n(110, 900), self.n(150, 1500)
            segs = self._bounded(self._decorated(self._segments(nseg), 0.35))
            self._batch(segs, 'compiled', procs_plan=self._plan(segs, self.n(10, 100), self.n(2, 12), self.n(8, 60)))
            direct = self._bounded(self._decorated(
                [(f'direct-{i}', gen_apply(rng, rng.choice([2, 3, 4, 4, 5, 5, 6, 7, 9]))) for i in range(ndir)], 0.4))
            self._batch(direct, 'direct', procs_plan=self._plan(direct, self.n(10, 100), 0, self.n(10, 80)))
            trains = self._bounded(self._decorated([(f'train-{i}', gen_train(rng)) for i in range(self.n(60, 600))], 0.5))
            self._batch(trains, 'direct-train', procs_plan=self._plan(trains, self.n(8, 60), self.n(2, 8), self.n(10, 80)))
            # configured actors and falsy payloads on small tables, every one also behind the process boundary
            conf = []
            for i in range(self.n(36, 900)):
                base = gen_train(rng, stages=rng.choice([1, 1, 2])) if i % 2 else gen_apply(rng, rng.choice([2, 3, 3, 4, 5]), loaders=True)
                conf.append((f'configured-{i}', decorate(rng, base, hyper=0.85, falsy=0.7)))
            conf = self._bounded(conf)
            plan = {i: 'pool' for i in range(len(conf))}
            for i in rng.sample(range(len(conf)), min(len(conf), self.n(3, 20))):
                plan[i] = 'fresh'
            self._batch(conf, 'configured', procs_plan=plan)
            # real flow segments handed to `Runner._exec` (compile + run) of every runner, also behind the process boundary
            segs2 = []
            for i in range(self.n(40, 800)):
                c = segment_case(rng, gen_segment(rng))
                if c is not None:
                    segs2.append((f'exec-{i}', c))
            segs2 = self._bounded(segs2)
            plan = {i: 'pool' for i in range(len(segs2))}
            for i in rng.sample(range(len(segs2)), min(len(segs2), self.n(3, 20))):
                plan[i] = 'fresh'
            self._batch(segs2, 'exec', procs_plan=plan)
            small = []
            for n in range(2, self.n(4, 5) + 1):
                small.extend((f'enum-{n}-{i}', s) for i, s in enumerate(enum_apply(n)))
            self._batch(small, 'enumerated')
            # every small shape once more with builders that print the same although they make different actors
            # (parallel branches over one shared result with equal arguments are among them), partly with equal tags
            # printed differently
            blind = []
            for name, s in small:
                if len(s['syms']) <= (4 if self.quick else 5) and (len(s['syms']) > 2 or rng.random() < 0.2):
                    blind.append((name + '-blind', blinded(rng, s)))
            blind = blind if not self.quick else rng.sample(blind, min(len(blind), 70))
            self._batch(blind, 'blind', procs_plan=self._plan(blind, self.n(10, 60)))
            if not self.quick:
                six = [(f'enum-6-{i}', s) for i, s in enumerate(enum_apply(6))]
                self.notes.append(f'exhaustive apply DAGs with 6 workers: {len(six)} (pyfunc + models only)')
                for c in range(0, len(six), 4000):
                    self._batch(six[c:c + 4000], 'enumerated', pyfunc_only=True)
            self._selftest()
        finally:
            if self.farm is not None:
                self.farm.close()
                self.farm = None
            self.extra['backend_outcomes'] = {f'{b}: {s}': c for (b, s), c in sorted(self.outcomes.items())}

    def _selftest(self):
        """Planted divergence: the model is asked about a table whose tail arguments are swapped; the comparison of
        the pyfunc return value with the real run of the original must notice."""
        name, spec = CORPUS[5]
        assert name == 'short-branch-last'
        info = classify(spec)
        bad = {'syms': [list(s) for s in spec['syms']], 'assets': None}
        bad['syms'][3] = [3, F(3), [1, 2]]
        R = rt()
        ans = sexp.num(sexp.loads(self.model([case_sexp(bad, classify(bad), INPUT_SEXP)])[0]))
        orc = Oracle(spec, info['head'], R.Term(*R.INPUT))
        if ans[3][0] == 'ok' and R.digest_canon(ans[3][1]) == R.digest(orc.memo[3]):
            raise fw.MachineryError('planted divergence (swapped tail arguments) was not detected')
        self.notes.append('planted-divergence self-test: detected')

    # ---- failing-input search -----------------------------------------------------------------
    def search(self, reason):
        before = len(self.violations)
        rng = self.rng
        try:
            # configuration / payload side first (small tables, every one also behind the process boundary): the builders
            # on which pickling and model disagreed, as a plain worker and as a trained + dumped + applied group
            conf = []
            for j, d in enumerate(self.suspects[:40]):
                conf.append((f'suspect-{j}', table((0, F(0), []), (1, F(1), [0]), builders={'1': d})))
                conf.append((f'suspect-train-{j}', table(
                    (0, F(0), []), (2, F(2, 'train', 0), [0, 0]), (3, F(2, 'apply', 1), [2, 0]), (30, ['dumper'], [2]),
                    (31, ['committer'], [30]), assets={'persistent': [2], 'prev': None}, builders={'2': d})))
            for i in range(self.n(150, 600)):
                base = gen_train(rng, stages=1) if i % 3 == 0 else gen_apply(rng, rng.choice([2, 2, 3, 3, 4]), loaders=True)
                conf.append((f'search-configured-{i}', decorate(rng, base, hyper=0.8, falsy=0.8)))
            for n in (3, 4):
                conf.extend((f'search-blind-{n}-{i}', blinded(rng, s)) for i, s in enumerate(enum_apply(n)))
            conf = self._bounded(conf)
            self._batch(conf, 'search', procs_plan={i: 'pool' for i in range(len(conf))})
            small = []
            if len(self.violations) == before:
                for n in range(2, 6):
                    small.extend((f'enum-{n}-{i}', s) for i, s in enumerate(enum_apply(n)))
                self._batch(small, 'search', pyfunc_only=False)
            if len(self.violations) == before:
                direct = self._bounded([(f'search-{i}', gen_apply(self.rng, self.rng.choice([3, 4, 5, 6, 7, 9]))) for i in range(self.n(400, 2000))])
                self._batch(direct, 'search', procs_plan={i: 'pool' for i in range(0, len(direct), 10)})
            if len(self.violations) == before:
                segs = self._bounded(self._segments(self.n(200, 1000)))
                self._batch(segs, 'search', procs_plan={i: 'pool' for i in range(0, len(segs), 10)})
        finally:
            if self.farm is not None:
                self.farm.close()
                self.farm = None
        self.notes.append(f'failing-input search ({reason}): {len(self.violations) - before} further violation(s)')

    def replay_finding(self, entry):
        w = entry['witness']
        probe = C02(self.tier, self.seed)
        spec = dict(w['spec'])
        info = classify(spec)
        farm = Farm(1, self.BACKEND_TIMEOUT)
        try:
            res = farm.run([(0, spec, w.get('backends') or ['ref', 'dask-synchronous', 'dask-threads', 'pyfunc-call', 'pyfunc-run'])])[0]
        finally:
            farm.close()
        probe._judge(w.get('name', 'replay'), spec, info, res, None, 'replay')
        want = entry.get('signature')
        for v in probe.violations:
            if want is None or v.signature == want:
                return v
        return None  # anything else on this witness is reported by the corpus run under its own signature


_orig_violate = C02.violate


def _violate(self, what, witness, signature, detail=None):
    """Keep only the smallest witness per signature (thousands of enumerated shapes hit the same root cause)."""
    n = len(witness['spec']['syms'])
    for i, v in enumerate(self.violations):
        if v.signature == signature:
            if n < len(v.witness['spec']['syms']):
                self.violations[i] = fw.Violation(what, witness, signature, detail)
            self.found[signature] += 1
            return
    self.found[signature] += 1
    _orig_violate(self, what, witness, signature, detail)


C02.violate = _violate  # type: ignore


if __name__ == '__main__':
    raise SystemExit(fw.run(C02))
