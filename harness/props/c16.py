"""C16 — concurrent serving (Engine / Wrapper / Dealer / Executor / Pool) vs lean/ForML/Model/Serving.lean.

The real `forml.runtime._service.Engine` is driven in *session* sub-processes (one engine = one registry with
1..3 applications over distinct model instances, a pool size, several batches of concurrent `Engine.apply`
calls).  Each session prints the observable trace (arrive / answer events); the parent validates the trace
against the model driver (`validate`: is it the projection of a model schedule?) and evaluates the oracle
(own payload, selected instance, exactly once, platform failures fail alone) directly on the trace.
"""
from __future__ import annotations

import concurrent.futures
import json
import os
import shutil
import signal
import subprocess
import sys
import tempfile
import time

from core import framework as fw
from core import sexp

# ----------------------------------------------------------------------------------------------------------------
# code that runs inside the session sub-process (written to a scratch directory; imports forml from
# $PYTHONPATH[0] = $FORML_REPO)
# ----------------------------------------------------------------------------------------------------------------
SUPPORT = r'''
"""Schema and feed of the generated C16 projects (imported by the project source and by the session)."""
from forml import io
from forml.io import dsl, layout
from forml.io.dsl import parser as parsmod


class Req(dsl.Schema):
    token = dsl.Field(dsl.Integer())
    delay = dsl.Field(dsl.Integer())


class Feed(io.Feed[str, str]):
    class Reader(io.Feed.Reader[str, str, layout.RowMajor]):
        class Parser(parsmod.Visitor[str, str]):
            resolve_feature = generate_alias = generate_expression = generate_join = generate_literal = lambda *_: ''
            generate_set = lambda *_: ''
            generate_reference = lambda *_: ('', '')

            def generate_element(self, origin, element):
                return f'{origin}-{element}'

            def generate_query(self, source, features, where, groupby, having, orderby, rows):
                return 'q'

        @classmethod
        def parser(cls, sources, features):
            return cls.Parser(sources, features)

        @classmethod
        def read(cls, statement, **kwargs):
            return ()

    @property
    def sources(self):
        return {Req: 'req'}
'''

SOURCE = r'''
from forml import project
from forml.pipeline import wrap
import c16_support


@wrap.Operator.mapper
@wrap.Actor.apply
def as_tuple(data):
    return tuple(tuple(r) for r in data)


INSTANCE = project.Source.query(c16_support.Req.select(c16_support.Req.token, c16_support.Req.delay)) >> as_tuple()
project.setup(INSTANCE)
'''

PIPELINE = r'''
import time
from forml import project
from forml.pipeline import wrap


@wrap.Actor.train
def model(state, features, labels):
    return state


@wrap.Operator.apply
@model.apply
def model(state, rows):
    """value = state * 10^6 + token * 10 + row index; sleeps for the largest delay of the request;
    a negative delay is the non-platform failure."""
    if any(int(r[1]) < 0 for r in rows):
        raise ValueError('boom')
    time.sleep(max((int(r[1]) for r in rows), default=0) / 1000.0)
    return [int(state) * 1000000 + int(r[0]) * 10 + i for i, r in enumerate(rows)]


INSTANCE = model()
project.setup(INSTANCE)
'''

SESSION = r'''
"""One serving session against the real engine; reads the plan from argv[1] (json), prints the trace (json)."""
import asyncio
import datetime
import json
import logging
import os
import pathlib
import sys
import threading
import time
import uuid
import warnings

warnings.filterwarnings('ignore')


def build(plan, root):
    import cloudpickle
    from forml import application
    from forml import project as prjmod
    from forml.io import asset
    from forml.provider.registry.filesystem import posix

    reg = posix.Registry(root / 'reg')
    for prj in plan['projects']:
        pkg = root / f"{prj['name']}.4ml"
        mod = pkg / f"c16_{prj['name']}"
        mod.mkdir(parents=True)
        (pkg / '__4ml__.py').write_text(
            f"NAME = '{prj['name']}'\nVERSION = '1'\nPACKAGE = 'c16_{prj['name']}'\nMODULES = {{}}\n")
        (mod / '__init__.py').write_text('')
        (mod / 'source.py').write_text(plan['source'])
        (mod / 'pipeline.py').write_text(plan['pipeline'])
        reg.push(prjmod.Package(pkg))
        for gen, state in enumerate(prj['states'], start=1):
            sid = uuid.uuid4()
            reg.write(prj['name'], '1', sid, cloudpickle.dumps(state))
            tag = asset.Tag(training=asset.Tag.Training(datetime.datetime(2020, 1, gen), datetime.datetime(2019, 1, 2)),
                            states=[sid])
            reg.close(prj['name'], '1', gen, tag)
    descriptors = [application.Generic(a['name'], application.Explicit(a['project'], '1', a['generation']))
                   for a in plan['apps']]
    return reg, descriptors


def make_inventory(descriptors, race=None):
    from forml.io import asset

    class Inventory(asset.Inventory):
        """In-memory inventory; with `race` its list() holds two threads that both passed the
        `application not in self._descriptors` check until the first one has updated the cache."""

        def __init__(self):
            self._content = {d.name: d for d in descriptors}
            self.mutex = threading.Lock()
            self.calls = 0
            self.barrier = threading.Barrier(2)
            self.cache = lambda: None
            self.log = []

        def list(self):
            if race is None:
                return list(self._content)
            with self.mutex:
                self.calls += 1
                me = self.calls
            if me > 2:
                return list(self._content)
            try:
                self.barrier.wait(timeout=race['barrier_timeout'])
            except threading.BrokenBarrierError:
                self.log.append(f'list#{me}: alone in list() (serialised)')
                return list(self._content)
            self.log.append(f'list#{me}: both threads inside list()')
            if me == 2:  # let the other thread run diff+update first
                deadline = time.time() + race['hold']
                while time.time() < deadline and not self.cache():
                    time.sleep(0.005)
                time.sleep(0.02)
            return list(self._content)

        def get(self, application):
            return self._content[application.lower()]

        def put(self, descriptor):
            raise NotImplementedError

    return Inventory()


async def main(plan):
    import c16_support
    from forml import io
    from forml.io import layout
    from forml.runtime import _service

    root = pathlib.Path(plan['root'])
    reg, descriptors = build(plan, root)
    inventory = make_inventory(descriptors, plan.get('race'))
    engine = _service.Engine(inventory, reg, io.Importer(c16_support.Feed()), processes=plan['processes'])
    inventory.cache = lambda: len(getattr(engine._wrapper, '_descriptors', {'x': 1}))
    events = []
    seq = [0]

    def emit(ev):
        seq[0] += 1
        ev['seq'] = seq[0]
        ev['t'] = round(time.time() - t0, 4)
        events.append(ev)

    async def call(req):
        if req['arrival_ms']:
            await asyncio.sleep(req['arrival_ms'] / 1000.0)
        emit({'ev': 'arrive', 'c': req['c']})
        try:
            request = layout.Request(req['body'].encode(), layout.Encoding(req['enc']),
                                     accept=[layout.Encoding(req['accept'])])
            resp = await engine.apply(req['app'], request)
            emit({'ev': 'answer', 'c': req['c'], 'ok': True, 'data': bytes(resp.payload.data).decode(),
                  'enc': str(resp.payload.encoding.kind), 'instance': str(resp.instance)})
        except asyncio.CancelledError:
            raise
        except BaseException as err:  # pylint: disable=broad-except
            emit({'ev': 'answer', 'c': req['c'], 'ok': False, 'cls': type(err).__name__, 'msg': str(err)[:160]})

    t0 = time.time()
    out = {'batches': []}
    for batch in plan['batches']:
        tasks = {asyncio.ensure_future(call(r)): r['c'] for r in batch['requests']}
        done, pending = await asyncio.wait(tasks, timeout=batch['deadline_s'])
        lost = sorted(tasks[t] for t in pending)
        alive = None
        if lost:
            alive = {str(k): bool(v.is_alive() and v._pool.is_alive()) for k, v in engine._dealer._cache.items()}
            for t in pending:
                t.cancel()
        out['batches'].append({'lost': lost, 'alive': alive, 'wall': round(time.time() - t0, 3)})
    out['events'] = events
    out['race_log'] = getattr(inventory, 'log', [])
    sys.stdout.write('C16-TRACE ' + json.dumps(out) + '\n')
    sys.stdout.flush()
    stopper = threading.Thread(target=engine.shutdown, daemon=True)
    stopper.start()
    stopper.join(plan.get('shutdown_s', 20))


if __name__ == '__main__':
    logging.disable(logging.CRITICAL)
    threading.excepthook = lambda a: None
    with open(sys.argv[1]) as f:
        PLAN = json.load(f)
    asyncio.run(main(PLAN))
    sys.stdout.flush()
    os._exit(0)
'''

KNOWN_APP_MISSING = 'descriptor-race-known-app-missing'
SESSION_TIMEOUT = 420  # s; a hanging session is a machinery error (exit 2), never a violation
DELAYS = [0, 0, 0, 1, 1, 2, 3, 5, 8, 13, 20, 40]
FAULTS = ['unknownApp', 'badEncoding', 'missingColumn']


class C16(fw.Check):
    ID = 'C16'
    LEAN_MODULES = ['ForML.Props.C16']
    DRIVER = 'drv_c16'
    RULE = ('sessions = one real Engine over a temp posix registry + in-memory inventory with 1..3 applications '
            '(Generic + Explicit selector) over 1..3 distinct model instances (distinct projects and/or generations, '
            'distinct states; sometimes two applications share an instance), pool size 1..4; per session 2..6 batches of '
            '1..64 concurrent Engine.apply calls (text/csv or plain application/json, 1..3 rows, shuffled column order, '
            'per-request actor delay 0..40 ms carried in the payload, arrival offsets 0..25 ms) with 0..40 % failing '
            'requests (unknown application / unsupported encoding / missing column) at random positions, plus all '
            '3 fault kinds x 4 positions for batches of 4; a case = one batch, distinct by its full request list, '
            'non-trivial when >= 2 requests and >= 1 healthy one.  Trace (arrive/answer events) must be accepted by the '
            'model driver (projection of a schedule of the lock-repaired model); oracle on the real trace: every call '
            'answered before the deadline while the pool is alive, rows carry own token/row index and the state of the '
            'instance the application selects, response.instance is that instance, failing requests get their own '
            'platform error and nobody else fails.  Deterministic descriptor race through an Inventory double whose '
            'list() blocks on a barrier; one fatal-exception session recorded as behaviour.')
    TRUSTED = [
        'OS scheduling, multiprocessing.Manager queues (assumed FIFO, lossless), asyncio.wrap_future, process spawn: '
        'modelled as nondeterministic interleaving, sampled only',
        'descriptor.select is a static Explicit strategy in the sessions (selection strategies are C17)',
        'the generated actor (state*10^6 + token*10 + row) stands for the uninterpreted f(instance, payload)',
        'await-level observation: a coroutine returns at most once, so duplicates are only checked in the model; '
        'lost = not answered within the batch deadline while executor and pool are alive',
    ]
    ASSUMPTIONS = ['inventory content is static during a session',
                   'fault class = platform-level errors (forml.AnyError); a non-platform exception in an actor stops '
                   'the pool (C16_fatal_counterexample) and is recorded as behaviour outside the property',
                   'C16_exact_partial / C16_isolation are stated for the lock-repaired _get_descriptor '
                   '(fixes/C16-descriptor-lock.diff); the code as it exists is refuted by '
                   'C16_descriptor_race_counterexample']

    def __init__(self, tier, seed):
        super().__init__(tier, seed)
        self._scratch = None
        self._results = []

    # ---- generator -------------------------------------------------------------------------------------------
    def _topology(self, napps: int):
        """apps -> (project, generation); states distinct per instance."""
        rng = self.rng
        projects = []  # {'name', 'states'}
        apps = []
        state = iter(rng.sample(range(1, 900), 6))
        style = rng.choice(['projects', 'projects', 'generations', 'shared'])
        for a in range(napps):
            if a == 0 or style == 'projects':
                projects.append({'name': f'p{len(projects)}', 'states': [next(state)]})
                apps.append({'name': f'app{a}', 'project': projects[-1]['name'], 'generation': 1})
            elif style == 'generations':
                projects[0]['states'].append(next(state))
                apps.append({'name': f'app{a}', 'project': 'p0', 'generation': len(projects[0]['states'])})
            else:  # shared: same instance as app0
                apps.append({'name': f'app{a}', 'project': apps[0]['project'], 'generation': apps[0]['generation']})
        return projects, apps

    def _request(self, c: int, napps: int, fault, maxdelay=None):
        rng = self.rng
        app = rng.randrange(napps)
        rows = rng.choice([1, 1, 1, 2, 3])
        token = 1000 + c  # unique per caller within the session
        delay = rng.choice(DELAYS if maxdelay is None else [d for d in DELAYS if d <= maxdelay])
        js = rng.random() < 0.3
        cols = ['token', 'delay']
        if fault == 'missingColumn':
            cols = ['token']
        elif rng.random() < 0.3:
            cols = ['delay', 'token']
        vals = {'token': token, 'delay': delay}
        if fault == 'fatal':
            vals['delay'] = -1
        if js:
            body = json.dumps({k: [vals[k]] * rows for k in cols})
            enc = 'application/json'
        else:
            body = ','.join(cols) + '\n' + ''.join(','.join(str(vals[k]) for k in cols) + '\n' for _ in range(rows))
            enc = 'text/csv'
        req = {'c': c, 'appidx': app, 'app': f'app{app}', 'enc': enc, 'accept': enc, 'body': body, 'rows': rows,
               'token': token, 'delay': delay, 'fault': fault, 'arrival_ms': rng.choice([0, 0, 0, 1, 3, 7, 15, 25])}
        if fault == 'unknownApp':
            req['app'], req['appidx'] = rng.choice(['nope', 'app9', 'App0x']), 9
        if fault == 'badEncoding':
            req['enc'] = rng.choice(['foo/bar', 'application/x-unknown', 'text/weird'])
        return req

    def _session(self, sid: str, nbatches: int, sizes=None, processes=None, napps=None, faultrate=None):
        rng = self.rng
        napps = napps or rng.choice([1, 2, 2, 3, 3])
        processes = processes or rng.choice([1, 2, 3, 4])
        projects, apps = self._topology(napps)
        faultrate = rng.choice([0.0, 0.1, 0.25, 0.4]) if faultrate is None else faultrate
        batches, c = [], 0
        for b in range(nbatches):
            n = sizes[b] if sizes else rng.choice([1, 2, 3, 4, 6, 8, 12, 16, 24, 32, 48, 64, rng.randint(1, 64)])
            reqs = []
            for _ in range(n):
                fault = rng.choice(FAULTS) if rng.random() < faultrate else None
                reqs.append(self._request(c, napps, fault))
                c += 1
            batches.append({'requests': reqs, 'deadline_s': 90})
        return {'sid': sid, 'kind': 'random', 'projects': projects, 'apps': apps, 'processes': processes,
                'batches': batches}

    def _positions_session(self, sid: str):
        """all fault kinds x all positions of a batch of 4 (arrival order = position)."""
        projects, apps = self._topology(2)
        batches, c = [], 0
        for fault in FAULTS:
            for pos in range(4):
                reqs = []
                for i in range(4):
                    r = self._request(c, 2, fault if i == pos else None, maxdelay=8)
                    r['arrival_ms'] = 4 * i
                    reqs.append(r)
                    c += 1
                batches.append({'requests': reqs, 'deadline_s': 90})
        return {'sid': sid, 'kind': 'positions', 'projects': projects, 'apps': apps,
                'processes': self.rng.choice([1, 2, 3]), 'batches': batches}

    def _race_session(self, sid: str, same_app: bool):
        """two first requests racing in Wrapper._get_descriptor (D17)."""
        projects = [{'name': 'p0', 'states': [7]}]
        apps = [{'name': 'app0', 'project': 'p0', 'generation': 1}, {'name': 'app1', 'project': 'p0', 'generation': 1}]
        reqs = []
        for c in range(2):
            r = self._request(c, 1, None, maxdelay=0)
            r.update(appidx=0 if same_app else c, arrival_ms=0)
            r['app'] = f"app{r['appidx']}"
            reqs.append(r)
        return {'sid': sid, 'kind': 'race', 'projects': projects, 'apps': apps, 'processes': 2,
                'race': {'barrier_timeout': 1.5, 'hold': 3.0, 'same_app': same_app},
                'batches': [{'requests': reqs, 'deadline_s': 60}]}

    def _fatal_session(self, sid: str):
        """a non-platform exception in one request (outside the fault class): recorded, not judged."""
        projects = [{'name': 'p0', 'states': [3]}]
        apps = [{'name': 'app0', 'project': 'p0', 'generation': 1}]
        first = [self._request(0, 1, None, maxdelay=0)]
        mid = [self._request(1, 1, None, maxdelay=40), self._request(2, 1, 'fatal'), self._request(3, 1, None)]
        mid[0]['delay'] = 40
        for i, r in enumerate(mid):
            r['arrival_ms'] = 5 * i
        later = [self._request(4, 1, None, maxdelay=0)]
        return {'sid': sid, 'kind': 'fatal', 'projects': projects, 'apps': apps, 'processes': 1, 'shutdown_s': 6,
                'batches': [{'requests': first, 'deadline_s': 60}, {'requests': mid, 'deadline_s': 8},
                            {'requests': later, 'deadline_s': 8}]}

    # ---- implementation adapter ----------------------------------------------------------------------------------
    def _scratchdir(self) -> str:
        if self._scratch is None:
            self._scratch = tempfile.mkdtemp(prefix='verif-c16-')
            for name, text in (('c16_support.py', SUPPORT), ('c16_session.py', SESSION)):
                with open(os.path.join(self._scratch, name), 'w') as f:
                    f.write(text)
        return self._scratch

    def _cleanup(self):
        if self._scratch is not None:
            shutil.rmtree(self._scratch, ignore_errors=True)
            self._scratch = None

    def _run_session(self, plan: dict) -> dict:
        """Run one session in a fresh process group; the whole group is killed afterwards."""
        scratch = self._scratchdir()
        root = tempfile.mkdtemp(prefix=f"s-{plan['sid']}-", dir=scratch)
        full = dict(plan, root=root, source=SOURCE, pipeline=PIPELINE)
        planfile = os.path.join(root, 'plan.json')
        with open(planfile, 'w') as f:
            json.dump(full, f)
        env = dict(os.environ)
        env['PYTHONPATH'] = os.pathsep.join([fw.REPO, scratch, env.get('PYTHONPATH', '')])
        env['PYTHONWARNINGS'] = 'ignore'
        t0 = time.time()
        proc = subprocess.Popen([sys.executable, os.path.join(scratch, 'c16_session.py'), planfile], env=env, cwd=root,
                                stdout=subprocess.PIPE, stderr=subprocess.PIPE, text=True, start_new_session=True)
        try:
            out, err = proc.communicate(timeout=SESSION_TIMEOUT)
        except subprocess.TimeoutExpired:
            out, err = None, 'timeout'
        finally:
            try:
                os.killpg(proc.pid, signal.SIGKILL)  # engine, managers, pools, workers: nothing survives a session
            except (ProcessLookupError, PermissionError):
                pass
            try:
                proc.communicate(timeout=10)
            except Exception:  # pylint: disable=broad-except
                pass
            shutil.rmtree(root, ignore_errors=True)
        if out is None:
            raise fw.MachineryError(f"serving session {plan['sid']} did not finish within {SESSION_TIMEOUT}s")
        line = next((ln for ln in out.split('\n') if ln.startswith('C16-TRACE ')), None)
        if line is None:
            raise fw.MachineryError(f"serving session {plan['sid']} produced no trace (rc={proc.returncode}): "
                                    f"{(err or '')[-1500:]}")
        trace = json.loads(line[len('C16-TRACE '):])
        trace['wall'] = round(time.time() - t0, 2)
        return trace

    def _run_sessions(self, plans: list[dict], parallel: int) -> list[dict]:
        self._scratchdir()  # created before the threads start
        with concurrent.futures.ThreadPoolExecutor(max_workers=parallel) as pool:
            return list(pool.map(self._run_session, plans))

    # ---- canonicaliser -------------------------------------------------------------------------------------------
    @staticmethod
    def _instances(plan):
        """app index -> instance index; instance index -> (project, generation, state)."""
        insts, of_app = [], []
        for a in plan['apps']:
            prj = next(p for p in plan['projects'] if p['name'] == a['project'])
            key = (a['project'], a['generation'], prj['states'][a['generation'] - 1])
            if key not in insts:
                insts.append(key)
            of_app.append(insts.index(key))
        return of_app, insts

    @staticmethod
    def _decode_rows(ev):
        data = ev['data']
        if data.lstrip().startswith('['):
            return [int(v) for row in json.loads(data) for v in row.values()]
        lines = [ln for ln in data.strip().split('\n') if ln.strip()]
        return [int(float(v)) for v in lines[1:]]

    def _canon(self, plan, ev):
        """observed answer -> ('value', inst, token) | ('error', kind) | ('odd', description)."""
        of_app, insts = self._instances(plan)
        if ev['ok']:
            try:
                vals = self._decode_rows(ev)
            except Exception as e:  # pylint: disable=broad-except
                return ('odd', f'undecodable response {ev["data"][:40]!r}: {e}')
            if not vals:
                return ('odd', 'empty response')
            states = {v // 1000000 for v in vals}
            tokens = {(v % 1000000) // 10 for v in vals}
            rows = [v % 10 for v in vals]
            if len(states) != 1 or len(tokens) != 1 or rows != list(range(len(vals))):
                return ('odd', f'rows of several requests/instances mixed in one response: {vals}')
            state, token = states.pop(), tokens.pop()
            hit = [i for i, k in enumerate(insts) if k[2] == state]
            if not hit:
                return ('odd', f'state {state} belongs to no instance')
            label = [i for i, k in enumerate(insts) if ev['instance'].endswith(f'-{k[0]}-1-{k[1]}')]
            if label != hit:
                return ('odd', f'response.instance {ev["instance"]} but rows computed with the state of instance {insts[hit[0]]}')
            return ('value', hit[0], token, len(vals))
        cls, msg = ev['cls'], ev['msg']
        if cls == 'MissingError' and msg.startswith('Application '):
            return ('error', 'missingApp')
        if cls == 'MissingError' and 'provide all features' in msg:
            return ('error', 'missingFeatures')
        if cls == 'Unsupported':
            return ('error', 'unsupported')
        if cls == 'RuntimeError' and 'Executor not running' in msg:
            return ('error', 'notRunning')
        if cls == 'ValueError' and 'boom' in msg:
            return ('error', 'fatal')
        return ('odd', f'{cls}: {msg[:80]}')

    def _cfg_sexp(self, plan, locked=True):
        of_app, insts = self._instances(plan)
        callers = []
        for b in plan['batches']:
            for r in b['requests']:
                kind = {'missingColumn': 'missingColumn', 'fatal': 'fatal'}.get(r['fault'], 'ok')
                callers.append([r['appidx'], r['fault'] == 'badEncoding', kind, r['token']])
        return ['cfg', callers, list(range(len(plan['apps']))), [[a, i] for a, i in enumerate(of_app)],
                plan['processes'], locked]

    def _events_sexp(self, plan, trace):
        evs = []
        for ev in sorted(trace['events'], key=lambda e: e['seq']):
            if ev['ev'] == 'arrive':
                evs.append(['arrive', ev['c']])
            else:
                k = self._canon(plan, ev)
                if k[0] == 'value':
                    evs.append(['answer', ev['c'], ['value', k[1], k[2]]])
                elif k[0] == 'error':
                    evs.append(['answer', ev['c'], ['error', k[1]]])
                else:
                    evs.append(['answer', ev['c'], ['error', 'odd']])  # not an outcome of the model: rejected
        return evs

    # ---- oracle (from the property text; independent of the model) -----------------------------------------------
    def _oracle(self, plan, trace):
        """-> list of (what, signature, detail)."""
        out = []
        of_app, insts = self._instances(plan)
        reqs = {r['c']: r for b in plan['batches'] for r in b['requests']}
        answers: dict[int, list] = {}
        arrived = set()
        for ev in trace['events']:
            if ev['ev'] == 'arrive':
                arrived.add(ev['c'])
            else:
                answers.setdefault(ev['c'], []).append(ev)
        by_token = {r['token']: c for c, r in reqs.items()}
        for bi, b in enumerate(trace['batches']):
            for c in b['lost']:
                alive = b['alive'] or {}
                if all(alive.values()):
                    out.append((f'caller {c} ({reqs[c]["app"]}, fault={reqs[c]["fault"]}) was not answered within '
                                f'{plan["batches"][bi]["deadline_s"]} s although every executor and pool is alive',
                                'lost-response', {'c': c, 'batch': bi}))
                else:
                    out.append((f'caller {c} was never answered: executor/pool of {[k for k, v in alive.items() if not v]} '
                                f'is dead without any fatal request in the session', 'pool-died', {'c': c, 'batch': bi}))
        for c in sorted(arrived):
            r = reqs[c]
            got = answers.get(c, [])
            if len(got) > 1:
                out.append((f'caller {c} answered {len(got)} times', 'duplicate-response', {'c': c}))
            if not got:
                continue
            k = self._canon(plan, got[0])
            healthy = r['fault'] is None
            want_inst = of_app[r['appidx']] if r['appidx'] < len(of_app) else None
            if r['fault'] == 'unknownApp':
                want = ('error', 'missingApp')
            elif r['fault'] == 'badEncoding':
                want = ('error', 'unsupported')
            elif r['fault'] == 'missingColumn':
                want = ('error', 'missingFeatures')
            else:
                want = ('value', want_inst, r['token'], r['rows'])
            if k == want:
                continue
            d = {'c': c, 'got': list(k), 'want': list(want)}
            if k[0] == 'value' and k[2] != r['token']:
                other = by_token.get(k[2])
                out.append((f'caller {c} (token {r["token"]}) received the outcome of caller {other} (token {k[2]})',
                            'crossed-payload', d))
            elif k[0] == 'value' and healthy and k[1] != want_inst:
                out.append((f'caller {c} ({r["app"]}) was served by instance {insts[k[1]]} instead of the selected '
                            f'{insts[want_inst]}', 'wrong-instance', d))
            elif k[0] == 'value' and healthy and k[3] != r['rows']:
                out.append((f'caller {c} sent {r["rows"]} rows and received {k[3]}', 'row-count', d))
            elif k[0] == 'value':
                out.append((f'caller {c} with fault {r["fault"]} received a prediction instead of its platform error',
                            'failure-not-reported', d))
            elif k == ('error', 'missingApp') and r['fault'] != 'unknownApp':
                out.append((f'caller {c}: known application {r["app"]} reported as not found '
                            f'("{got[0]["msg"][:60]}") while another first request was updating the descriptor cache',
                            KNOWN_APP_MISSING, d))
            elif k[0] == 'error' and healthy:
                out.append((f'healthy caller {c} failed with {k[1]} ({got[0].get("msg", "")[:60]})',
                            f'healthy-request-failed:{k[1]}', d))
            elif k[0] == 'error':
                out.append((f'caller {c} with fault {r["fault"]} got {k[1]} instead of {want[1]}',
                            f'wrong-error:{want[1]}->{k[1]}', d))
            else:
                out.append((f'caller {c}: {k[1]}', 'odd-response:' + k[1].split(':')[0][:40], d))
        return out

    # ---- correspondence ------------------------------------------------------------------------------------------
    def _witness(self, plan, detail):
        slim = {k: plan[k] for k in ('kind', 'projects', 'apps', 'processes')}
        if 'race' in plan:
            slim['race'] = plan['race']
        slim['batches'] = [{'deadline_s': b['deadline_s'],
                            'requests': [{k: r[k] for k in ('c', 'appidx', 'app', 'enc', 'accept', 'body', 'rows', 'token',
                                                            'delay', 'fault', 'arrival_ms')} for r in b['requests']]}
                           for b in plan['batches']]
        return {'kind': 'session', 'plan': slim, 'detail': detail}

    def _judge(self, plan, trace, account=True):
        """validate the trace against the model, run the oracle; returns the oracle findings."""
        cfg = self._cfg_sexp(plan, locked=True)
        events = self._events_sexp(plan, trace)
        ncallers = len(cfg[1])
        lines = [sexp.dumps(['validate', cfg, events])]
        if ncallers <= 48:  # the random scheduler re-evaluates every candidate step: small sessions only
            lines.append(sexp.dumps(['random', cfg, self.rng.randrange(1 << 30), 100000]))
        answers = [sexp.num(sexp.loads(a)) for a in self.model(lines)]
        verdict, rnd = answers[0], (answers[1] if len(answers) > 1 else None)
        findings = self._oracle(plan, trace)
        lost = [c for b in trace['batches'] for c in b['lost']]
        observed = sorted((e[1], e[2]) for e in events if e[0] == 'answer')
        if verdict[0] != 'ok':
            self.diverge(f"trace of session {plan['sid']} is not the projection of a model schedule: {verdict}",
                         self._witness(plan, None), {'events': events[:200]}, verdict)
        else:
            model_answers = sorted((a[0], a[1]) for a in verdict[2])
            if not lost and (model_answers != observed or verdict[1] != 'true'):
                self.diverge(f"model answers differ from the observed ones in session {plan['sid']}",
                             self._witness(plan, None), observed[:50], [verdict[1], model_answers[:50]])
            # schedule independence: a pseudo-random complete model schedule gives the same answers
            if rnd is not None and (rnd[0] != 'ok' or rnd[1] != 'true'
                                    or (not lost and sorted((a[0], a[1]) for a in rnd[3]) != observed)):
                self.diverge(f"pseudo-random complete model schedule disagrees with session {plan['sid']}",
                             self._witness(plan, None), observed[:50], rnd[:3])
        if account:
            ans = {}
            for ev in trace['events']:
                if ev['ev'] == 'answer':
                    ans[ev['c']] = ev
            for bi, b in enumerate(plan['batches']):
                reqs = b['requests']
                n = len(reqs)
                nf = sum(1 for r in reqs if r['fault'])
                bucket = '1' if n == 1 else '2-4' if n <= 4 else '5-16' if n <= 16 else '17-64'
                key = (plan['kind'], plan['processes'], tuple((r['appidx'], r['fault'], r['rows'], r['delay'],
                                                              r['arrival_ms'], r['enc']) for r in reqs),
                       tuple(map(str, self._instances(plan)[0])))
                # answer order vs arrival order: is the batch really interleaved?
                order = [e['c'] for e in trace['events'] if e['ev'] == 'answer' and reqs[0]['c'] <= e['c'] <= reqs[-1]['c']]
                arr = [e['c'] for e in trace['events'] if e['ev'] == 'arrive' and reqs[0]['c'] <= e['c'] <= reqs[-1]['c']]
                self.case(key, f"{plan['kind']} n={bucket} pool={plan['processes']} apps={len(plan['apps'])} "
                               f"faults={'y' if nf else 'n'} reordered={'y' if order != arr else 'n'}",
                          nontrivial=n >= 2 and nf < n,
                          sample={'session': plan['sid'], 'pool': plan['processes'], 'apps': plan['apps'], 'batch': bi,
                                  'n': n, 'faults': nf, 'arrival': arr[:12], 'answered': order[:12],
                                  'first': [self._canon(plan, ans[c]) for c in arr[:4] if c in ans]})
        return findings

    def _plans(self):
        plans = []
        nsessions, nbatches = (7, 3) if self.quick else (52, 6)
        for i in range(nsessions):
            sizes = None
            if i == 0:
                sizes = [64, 1, 32, 48, 2, 16][:nbatches]  # the extremes of the quantifier always occur
            plans.append(self._session(f'r{i}', nbatches, sizes=sizes, processes=[1, 2, 3, 4][i % 4] if i < 4 else None))
        plans.append(self._positions_session('pos0'))
        if not self.quick:
            plans.append(self._positions_session('pos1'))
            plans.append(self._positions_session('pos2'))
        return plans

    def correspondence(self):
        try:
            plans = self._plans()
            race = [self._race_session('race-same', True), self._race_session('race-two', False)]
            fatal = self._fatal_session('fatal')
            everything = race + [fatal] + plans
            # long sessions first; 5 engines at a time (each up to 3 executors x (manager + pool + <=4 workers))
            traces = self._run_sessions(everything, parallel=self.n(5, 6))
            walls = []
            for plan, trace in zip(everything, traces):
                walls.append(trace['wall'])
                if plan['kind'] == 'fatal':
                    self._record_fatal(plan, trace)
                    continue
                for what, sig, detail in self._judge(plan, trace, account=True):
                    self.violate(what, self._witness(plan, detail) if plan['kind'] != 'race'
                                 else {'kind': 'descriptor-race', 'same_app': plan['race']['same_app']}, sig, detail)
                if plan['kind'] == 'race':
                    self._record_race(plan, trace)
            self.extra['sessions'] = len(everything)
            self.extra['requests'] = sum(len(b['requests']) for p in everything for b in p['batches'])
            self.extra['session_wall_s'] = {'max': max(walls), 'sum': round(sum(walls), 1)}
            self.extra['slowest_answer_s'] = max((e['t'] for t in traces for e in t['events'] if e['ev'] == 'answer'),
                                                 default=0)
            if not self.quick:
                self._planted_divergence(everything, traces)
        finally:
            self._cleanup()

    def _record_race(self, plan, trace):
        """explain the race trace with both model variants (evidence only)."""
        events = self._events_sexp(plan, trace)
        lines = [sexp.dumps(['validate', self._cfg_sexp(plan, locked=lk), events]) for lk in (False, True)]
        unlocked, locked = (sexp.loads(a)[0] for a in self.model(lines))
        self.extra.setdefault('descriptor_race', []).append({
            'same_app': plan['race']['same_app'], 'inventory_double': trace.get('race_log'),
            'answers': [e[1:] for e in events if e[0] == 'answer'],
            'accepted_by_unlocked_model': unlocked == 'ok', 'accepted_by_locked_model': locked == 'ok'})

    def _record_fatal(self, plan, trace):
        ans = {e['c']: self._canon(plan, e) for e in trace['events'] if e['ev'] == 'answer'}
        lost = [b['lost'] for b in trace['batches']]
        self.case(('fatal', str(ans), str(lost)), 'fatal (behaviour only)', nontrivial=False)
        self.extra['fatal_behaviour'] = {
            'note': 'request 2 raises ValueError in the actor (outside the fault class): recorded, not judged',
            'answers': {str(c): list(k) for c, k in sorted(ans.items())}, 'never_answered_per_batch': lost,
            'alive_after': [b['alive'] for b in trace['batches']]}
        if ans.get(0, ('?',))[0] != 'value':
            self.violate(f'first healthy request of the fatal session failed: {ans.get(0)}', self._witness(plan, None),
                         'healthy-request-failed:pre-fatal')

    def _planted_divergence(self, plans, traces):
        """self-test of the tie: a trace with two answers swapped must be rejected by the model."""
        for plan, trace in zip(plans, traces):
            if plan['kind'] != 'random':
                continue
            events = self._events_sexp(plan, trace)
            vals = [i for i, e in enumerate(events) if e[0] == 'answer' and e[2][0] == 'value']
            pair = next(((i, j) for i in vals for j in vals if i < j and events[i][2] != events[j][2]), None)
            if pair is None:
                continue
            i, j = pair
            events[i], events[j] = ['answer', events[i][1], events[j][2]], ['answer', events[j][1], events[i][2]]
            verdict = sexp.loads(self.model([sexp.dumps(['validate', self._cfg_sexp(plan), events])])[0])
            if verdict[0] == 'ok':
                raise fw.MachineryError('planted crossed responses were accepted by the model driver')
            self.notes.append('planted divergence (two responses crossed) rejected by the model driver: ' + verdict[1])
            return

    # ---- failing-input search / replay --------------------------------------------------------------------------
    def search(self, reason):
        """re-run the diverging sessions (three fresh runs each: the interleaving differs) plus denser fault
        mixes around them; the oracle on the real trace decides."""
        try:
            seeds = [d.case['plan'] for d in self.divergences if isinstance(d.case, dict) and 'plan' in d.case][:4]
            plans = []
            for n, p in enumerate(seeds):
                for rep in range(3):
                    plans.append(dict(p, sid=f'again{n}-{rep}'))
            for i in range(self.n(4, 16)):
                plans.append(self._session(f'wide{i}', 4, faultrate=0.4))
            traces = self._run_sessions(plans, parallel=5)
            for plan, trace in zip(plans, traces):
                for what, sig, detail in self._oracle(plan, trace):
                    self.violate(what, self._witness(plan, detail), sig, detail)
            self.notes.append(f'failing-input search ({reason}): {len(plans)} sessions re-run / widened')
        finally:
            self._cleanup()

    def replay_finding(self, entry):
        w = entry['witness']
        try:
            if w.get('kind') == 'descriptor-race':
                plan = self._race_session('replay-race', bool(w.get('same_app', True)))
            elif w.get('kind') == 'session':
                plan = dict(w['plan'], sid='replay')
            else:
                return None
            trace = self._run_session(plan)
            for what, sig, detail in self._oracle(plan, trace):
                return fw.Violation(what, w, sig, detail)
            return None
        finally:
            self._cleanup()


if __name__ == '__main__':
    raise SystemExit(fw.run(C16))
