"""C16 — concurrent serving (Engine / Wrapper / Dealer / Executor / Pool) vs lean/ForML/Model/Serving.lean.

The real `forml.runtime._service.Engine` is driven in *session* sub-processes (one engine = one registry with
1..3 applications over distinct model instances, a pool size).  Two kinds of session: *controlled* ones, where a
seeded controller decides every next step of the interleaving (CTL_SESSION: intercepted off-loop calls, parked
inventory.list(), gated actors) and *timed* ones (SESSION: concurrent `Engine.apply` calls with random delays).
Each session prints the observable trace (arrive / answer events); the parent validates the trace against the
model driver (`validate`: is it the projection of a model schedule?) and evaluates the oracle (own payload,
selected instance, exactly once, platform failures fail alone) directly on the trace.  Nothing is judged by
how fast something happens: a session that does not come back is a machinery error (exit 2).
"""
from __future__ import annotations

import concurrent.futures
import json
import os
import shutil
import signal
import subprocess
import sys
import tempfile
import time

from core import framework as fw
from core import sexp

# ----------------------------------------------------------------------------------------------------------------
# code that runs inside the session sub-process (written to a scratch directory; imports forml from
# $PYTHONPATH[0] = $FORML_REPO)
# ----------------------------------------------------------------------------------------------------------------
SUPPORT = r'''
"""Schema and feed of the generated C16 projects (imported by the project source and by the session)."""
from forml import io
from forml.io import dsl, layout
from forml.io.dsl import parser as parsmod


class Req(dsl.Schema):
    token = dsl.Field(dsl.Integer())
    delay = dsl.Field(dsl.Integer())
    bad = dsl.Field(dsl.Integer())


class Feed(io.Feed[str, str]):
    class Reader(io.Feed.Reader[str, str, layout.RowMajor]):
        class Parser(parsmod.Visitor[str, str]):
            resolve_feature = generate_alias = generate_expression = generate_join = generate_literal = lambda *_: ''
            generate_set = lambda *_: ''
            generate_reference = lambda *_: ('', '')

            def generate_element(self, origin, element):
                return f'{origin}-{element}'

            def generate_query(self, source, features, where, groupby, having, orderby, rows):
                return 'q'

        @classmethod
        def parser(cls, sources, features):
            return cls.Parser(sources, features)

        @classmethod
        def read(cls, statement, **kwargs):
            return ()

    @property
    def sources(self):
        return {Req: 'req'}
'''

SOURCE = r'''
from forml import project
from forml.pipeline import wrap
import c16_support


@wrap.Operator.mapper
@wrap.Actor.apply
def as_tuple(data):
    return tuple(tuple(r) for r in data)


INSTANCE = project.Source.query(
    c16_support.Req.select(c16_support.Req.token, c16_support.Req.delay, c16_support.Req.bad)) >> as_tuple()
project.setup(INSTANCE)
'''

PIPELINE = r'''
import os
import socket
import time
import forml
from forml import project
from forml.pipeline import payload, wrap

SHAPE = __SHAPE__   # one letter per parallel mapper branch: 's' stateful, 'l' stateless; a single branch = linear pipeline
PIDMARK = 7 * 10 ** 12


def _gate(token):
    """controlled sessions: announce that this request is being computed, then wait until the controller says go"""
    conn = socket.socket(socket.AF_UNIX, socket.SOCK_STREAM)
    conn.settimeout(900)
    try:
        conn.connect(os.environ['C16_GATE'])
        conn.sendall(f'{token} {os.getpid()}\n'.encode())
        conn.recv(1)
    finally:
        conn.close()


def _head(rows):
    """everything before the fan-out: waits for the largest delay of the request (or, in a controlled session, at the
    gate); a negative delay is the non-platform failure"""
    rows = [tuple(int(v) for v in r) for r in rows]
    if os.environ.get('C16_GATE') and len(rows):
        _gate(rows[0][0])
    if any(r[1] < 0 for r in rows):
        raise ValueError('boom')
    if not os.environ.get('C16_GATE'):
        time.sleep(max((r[1] for r in rows), default=0) / 1000.0)
    return rows


def _branch(k, state, rows):
    """mapper of branch k: value = k * 10^9 + state * 10^6 + token * 10 + row index (state 0 = stateless); a row whose
    `bad` column names this branch is refused with a platform-level error raised inside the pipeline"""
    for r in rows:
        if int(r[2]) == k + 1:
            raise forml.InvalidError(f'C16 refused token={int(r[0])} branch={k} pid={os.getpid()}')
    return [k * 10 ** 9 + int(state) * 10 ** 6 + int(r[0]) * 10 + i for i, r in enumerate(rows)]


@wrap.Actor.train
def model(state, features, labels):
    return state


@wrap.Operator.apply
@model.apply
def model(state, rows):
    """the linear pipeline: head and the only mapper in one stateful actor"""
    return _branch(0, state, _head(rows)) + [PIDMARK + os.getpid()]


@wrap.Operator.mapper
@wrap.Actor.apply
def head(rows):
    return _head(rows)


@wrap.Actor.train
def s0(state, features, labels):
    return state


@s0.apply
def s0(state, rows):
    return _branch(0, state, rows)


@wrap.Actor.train
def s1(state, features, labels):
    return state


@s1.apply
def s1(state, rows):
    return _branch(1, state, rows)


@wrap.Actor.train
def s2(state, features, labels):
    return state


@s2.apply
def s2(state, rows):
    return _branch(2, state, rows)


@wrap.Actor.apply
def l0(rows):
    return _branch(0, 0, rows)


@wrap.Actor.apply
def l1(rows):
    return _branch(1, 0, rows)


@wrap.Actor.apply
def l2(rows):
    return _branch(2, 0, rows)


@wrap.Actor.apply
def merge(*branches):
    return [v for b in branches for v in b] + [PIDMARK + os.getpid()]


if len(SHAPE) <= 1:
    INSTANCE = model()
else:
    MAPPERS = {'s': (s0, s1, s2), 'l': (l0, l1, l2)}
    INSTANCE = head() >> payload.MapReduce(*(MAPPERS[kind][k].builder() for k, kind in enumerate(SHAPE)),
                                           reducer=merge.builder())
project.setup(INSTANCE)
'''

SESSION = r'''
"""One serving session against the real engine; reads the plan from argv[1] (json), prints the trace (json)."""
import asyncio
import datetime
import json
import logging
import os
import pathlib
import sys
import threading
import time
import uuid
import warnings

warnings.filterwarnings('ignore')


def build(plan, root):
    import cloudpickle
    from forml import application
    from forml import project as prjmod
    from forml.io import asset
    from forml.provider.registry.filesystem import posix

    reg = posix.Registry(root / 'reg')
    for prj in plan['projects']:
        pkg = root / f"{prj['name']}.4ml"
        mod = pkg / f"c16_{prj['name']}"
        mod.mkdir(parents=True)
        (pkg / '__4ml__.py').write_text(
            f"NAME = '{prj['name']}'\nVERSION = '1'\nPACKAGE = 'c16_{prj['name']}'\nMODULES = {{}}\n")
        (mod / '__init__.py').write_text('')
        (mod / 'source.py').write_text(plan['source'])
        shape = prj.get('shape') or 's'
        (mod / 'pipeline.py').write_text(plan['pipeline'].replace('__SHAPE__', repr(shape)))
        reg.push(prjmod.Package(pkg))
        for gen, state in enumerate(prj['states'], start=1):
            sids = []
            for _ in range(max(1, shape.count('s')) if len(shape) > 1 else 1):  # one state per stateful actor
                sids.append(uuid.uuid4())
                reg.write(prj['name'], '1', sids[-1], cloudpickle.dumps(state))
            tag = asset.Tag(training=asset.Tag.Training(datetime.datetime(2020, 1, gen), datetime.datetime(2019, 1, 2)),
                            states=sids)
            reg.close(prj['name'], '1', gen, tag)
    descriptors = [application.Generic(a['name'], application.Explicit(a['project'], '1', a['generation']))
                   for a in plan['apps']]
    return reg, descriptors


def diagnose(engine):
    """where is everything when a caller stays unanswered?  (diagnostics only; private attributes, best effort)"""
    import sys
    import traceback

    out = {'executors': {}, 'threads': []}
    try:
        for key, ex in engine._dealer._cache.items():
            info = {'thread_alive': bool(ex.is_alive()), 'pool_alive': bool(ex._pool.is_alive())}
            for name, probe in (('pending', lambda: len(ex._pending)), ('index', lambda: ex._index),
                                ('tasks', lambda: ex._tasks.qsize()), ('results', lambda: ex._results.qsize()),
                                ('stopped', lambda: bool(ex._stopped.is_set()))):
                try:
                    info[name] = probe()
                except Exception as err:  # pylint: disable=broad-except
                    info[name] = f'?{type(err).__name__}'
            out['executors'][str(key)] = info
    except Exception as err:  # pylint: disable=broad-except
        out['error'] = f'{type(err).__name__}: {err}'
    try:
        import threading
        names = {t.ident: t.name for t in threading.enumerate()}
        for ident, frame in sys._current_frames().items():
            stack = traceback.extract_stack(frame)[-4:]
            out['threads'].append(names.get(ident, str(ident)) + ': ' + ' < '.join(
                f'{fs.name}@{fs.filename.rsplit("/", 1)[-1]}:{fs.lineno}' for fs in reversed(stack)))
    except Exception:  # pylint: disable=broad-except
        pass
    return out


class Watchdog(threading.Thread):
    """A plain thread (it works while the event-loop thread is blocked): when the session has not finished after
    `limit` seconds it reports where every thread of this process is and what the child processes are doing
    (C16-HUNG line), asks the forked children for their stacks (SIGUSR1, faulthandler registered before the fork:
    they land on stderr) and ends the session.  A time-out is data for the parent, never a verdict."""

    def __init__(self, limit, state, early=None):
        super().__init__(daemon=True, name='c16-watchdog')
        self.limit, self.state, self.early = limit, state, early
        self.finished = threading.Event()
        try:
            import faulthandler
            import signal
            faulthandler.register(signal.SIGUSR1, all_threads=True)
        except Exception:  # pylint: disable=broad-except
            pass
        self.start()

    def run(self):
        deadline = time.time() + self.limit
        while time.time() < deadline:
            if self.finished.wait(1.0):
                return
            if self.early is not None and self.early():  # the session knows that it is stuck: no need to wait longer
                break
        if self.finished.is_set():
            return
        import signal
        import traceback
        out = {'after_s': round(self.limit - max(0.0, deadline - time.time()), 1), 'threads': [], 'children': []}
        try:
            names = {t.ident: t.name for t in threading.enumerate()}
            for ident, frame in sys._current_frames().items():
                stack = traceback.extract_stack(frame)[-7:]
                out['threads'].append(names.get(ident, str(ident)) + ': ' + ' < '.join(
                    f'{fs.name}@{fs.filename.rsplit("/", 1)[-1]}:{fs.lineno}' for fs in reversed(stack)))
        except Exception as err:  # pylint: disable=broad-except
            out['threads'].append(f'?{err!r}')
        try:
            import psutil
            for child in psutil.Process().children(recursive=True):
                info = {'pid': child.pid, 'ppid': child.ppid(), 'status': child.status(), 'cmd': ' '.join(child.cmdline()[-3:])[-90:]}
                try:
                    with open(f'/proc/{child.pid}/wchan') as f:
                        info['wchan'] = f.read()
                    info['threads'] = child.num_threads()
                    info['cpu_s'] = round(sum(child.cpu_times()[:2]), 2)
                except Exception:  # pylint: disable=broad-except
                    pass
                out['children'].append(info)
                try:
                    os.kill(child.pid, signal.SIGUSR1)
                except Exception:  # pylint: disable=broad-except
                    pass
        except Exception as err:  # pylint: disable=broad-except
            out['children'].append(f'?{err!r}')
        try:
            out['state'] = self.state()
        except Exception as err:  # pylint: disable=broad-except
            out['state'] = f'?{err!r}'
        sys.stdout.write('C16-HUNG ' + json.dumps(out) + '\n')
        sys.stdout.flush()
        time.sleep(3.0)  # the children's stack dumps
        os._exit(3)


def install_coldfork(cfg, state):
    """Scheduling only (nothing of forml is replaced).  (1) The first time the loop thread forks a process after it has
    loaded the components of the cold application's project - that is `multiprocessing.Manager()` in
    `prediction.Executor.__init__` - it waits, right before the fork, until ANOTHER thread of the engine (an executor
    thread unpickling a result, a pool thread) has begun to import the top-level package `forml`.  (2) That thread
    stays inside its import for `park_s` seconds, as if it had been descheduled there.  Both are legal schedules."""
    main = threading.main_thread()
    window, inside, waited = threading.Event(), threading.Event(), threading.Event()
    state.update(pid=os.getpid(), armed=False, window=False, other_inside=None, importers=[])

    def before_fork():
        if (state['armed'] and window.is_set() and not waited.is_set() and threading.current_thread() is main
                and os.getpid() == state['pid']):
            waited.set()
            state['forml_loaded_at_fork'] = 'forml' in sys.modules
            state['other_inside'] = inside.wait(cfg.get('wait_s', 20))
            if state['other_inside']:  # from now on: an answer within `stuck_s`, or the watchdog looks at the threads
                state['forked_at'] = time.time()

    class Parker:
        @staticmethod
        def find_spec(name, path=None, target=None):
            if os.getpid() != state['pid'] or not state['armed']:
                return None
            me = threading.current_thread()
            if me is main and name.split('.')[0] == cfg['cold_package']:
                window.set()  # the loop thread is loading the components of the cold application's project
                state['window'] = True
            elif name == 'forml':
                state['importers'].append(me.name)
                if window.is_set() and me is not main and not inside.is_set():
                    inside.set()
                    time.sleep(cfg.get('park_s', 3))
            return None

    os.register_at_fork(before=before_fork)
    sys.meta_path.insert(0, Parker)


def make_gateway(engine):
    """the real REST route (forml.provider.gateway.rest.Apply in a Starlette application) in front of the engine,
    driven in-process through ASGI: -> coroutine(req) -> (status, headers, body)"""
    from starlette import applications
    from forml.provider.gateway import rest

    app = applications.Starlette(routes=[rest.Apply(engine.apply), rest.Stats(engine.stats)], debug=False)

    async def call(req):
        path = '/' + req['app']
        scope = {'type': 'http', 'asgi': {'version': '3.0', 'spec_version': '2.3'}, 'http_version': '1.1', 'method': 'POST',
                 'scheme': 'http', 'path': path, 'raw_path': path.encode(), 'query_string': b'', 'root_path': '',
                 'headers': [(b'host', b'c16'), (b'content-type', req['enc'].encode()), (b'accept', req['accept'].encode())],
                 'server': ('c16', 80), 'client': ('c16', 1)}
        body = [req['body'].encode()]
        sent = []
        gone = asyncio.Event()

        async def receive():
            if body:
                return {'type': 'http.request', 'body': body.pop(), 'more_body': False}
            await gone.wait()
            return {'type': 'http.disconnect'}

        async def send(message):
            sent.append(message)

        try:
            await app(scope, receive, send)
        finally:
            gone.set()
        start = next(m for m in sent if m['type'] == 'http.response.start')
        payload = b''.join(m.get('body', b'') for m in sent if m['type'] == 'http.response.body')
        return start['status'], {k.decode().lower(): v.decode() for k, v in start['headers']}, payload

    return call


def make_inventory(descriptors, race=None):
    from forml.io import asset

    class Inventory(asset.Inventory):
        """In-memory inventory; with `race` its list() holds two threads that both passed the
        `application not in self._descriptors` check until the first one has updated the cache."""

        def __init__(self):
            self._content = {d.name: d for d in descriptors}
            self.mutex = threading.Lock()
            self.calls = 0
            self.barrier = threading.Barrier(2)
            self.cache = lambda: None
            self.log = []

        def list(self):
            if race is None:
                return list(self._content)
            with self.mutex:
                self.calls += 1
                me = self.calls
            if me > 2:
                return list(self._content)
            try:
                self.barrier.wait(timeout=race['barrier_timeout'])
            except threading.BrokenBarrierError:
                self.log.append(f'list#{me}: alone in list() (serialised)')
                return list(self._content)
            self.log.append(f'list#{me}: both threads inside list()')
            if me == 2:  # let the other thread run diff+update first
                deadline = time.time() + race['hold']
                while time.time() < deadline and not self.cache():
                    time.sleep(0.005)
                time.sleep(0.02)
            return list(self._content)

        def get(self, application):
            return self._content[application.lower()]

        def put(self, descriptor):
            raise NotImplementedError

    return Inventory()


async def main(plan):
    import c16_support
    from forml import io
    from forml.io import layout
    from forml.runtime import _service

    root = pathlib.Path(plan['root'])
    reg, descriptors = build(plan, root)
    inventory = make_inventory(descriptors, plan.get('race'))
    engine = _service.Engine(inventory, reg, io.Importer(c16_support.Feed()), processes=plan['processes'])
    inventory.cache = lambda: len(getattr(engine._wrapper, '_descriptors', {'x': 1}))
    gateway = make_gateway(engine) if plan.get('gateway') else None
    events = []
    seq = [0]

    def emit(ev):
        seq[0] += 1
        ev['seq'] = seq[0]
        ev['t'] = round(time.time() - t0, 4)
        events.append(ev)

    async def call(req):
        if req['arrival_ms']:
            await asyncio.sleep(req['arrival_ms'] / 1000.0)
        emit({'ev': 'arrive', 'c': req['c']})
        try:
            if gateway is not None:
                status, headers, payload = await gateway(req)
                if status == 200:
                    emit({'ev': 'answer', 'c': req['c'], 'ok': True, 'data': payload.decode(), 'status': status,
                          'enc': headers.get('content-type', '').split(';')[0].strip(),
                          'instance': headers.get('x-forml-instance', '')})
                else:
                    cls = {415: 'Unsupported', 404: 'MissingError', 400: 'InvalidError', 500: 'FailedError'}.get(
                        status, f'HTTP{status}')
                    emit({'ev': 'answer', 'c': req['c'], 'ok': False, 'cls': cls, 'msg': payload.decode()[:160],
                          'status': status})
                return
            request = layout.Request(req['body'].encode(), layout.Encoding(req['enc']),
                                     accept=[layout.Encoding(req['accept'])])
            resp = await engine.apply(req['app'], request)
            emit({'ev': 'answer', 'c': req['c'], 'ok': True, 'data': bytes(resp.payload.data).decode(),
                  'enc': str(resp.payload.encoding.kind), 'instance': str(resp.instance)})
        except asyncio.CancelledError:
            raise
        except BaseException as err:  # pylint: disable=broad-except
            emit({'ev': 'answer', 'c': req['c'], 'ok': False, 'cls': type(err).__name__, 'msg': str(err)[:160]})

    t0 = time.time()
    out = {'batches': []}
    cold = {}
    dog = Watchdog(plan.get('hang_s', 300), lambda: {'answered': sum(1 for e in events if e['ev'] == 'answer'),
                                                     'last_event_s': events[-1]['t'] if events else None,
                                                     'events': list(events), 'coldfork': dict(cold)},
                   early=lambda: bool(cold.get('forked_at')) and time.time() - cold['forked_at'] > cold.get('stuck_s', 20)
                   and not any(e['ev'] == 'answer' and e['t'] + t0 > cold['forked_at'] for e in events))
    if plan.get('coldfork'):
        install_coldfork(plan['coldfork'], cold)
        cold['stuck_s'] = plan['coldfork'].get('stuck_s', 20)
    for bi, batch in enumerate(plan['batches']):
        if plan.get('coldfork') and bi == plan['coldfork']['arm_batch']:
            cold['armed'] = True
        tasks = {asyncio.ensure_future(call(r)): r['c'] for r in batch['requests']}
        done, pending = await asyncio.wait(tasks, timeout=batch['deadline_s'])
        lost = sorted(tasks[t] for t in pending)
        alive = diag = None
        if lost:
            diag = diagnose(engine)
            alive = {k: bool(v['thread_alive'] and v['pool_alive']) for k, v in diag['executors'].items()}
            for t in pending:
                t.cancel()
        out['batches'].append({'lost': lost, 'alive': alive, 'diag': diag, 'wall': round(time.time() - t0, 3)})
        if lost:  # what follows would only wait for the same dead end again
            break
    out['events'] = events
    out['race_log'] = getattr(inventory, 'log', [])
    out['coldfork'] = dict(cold)
    dog.finished.set()
    sys.stdout.write('C16-TRACE ' + json.dumps(out) + '\n')
    sys.stdout.flush()
    if plan.get('shutdown_s'):  # otherwise the parent kills the whole process group: shutting down is not under test
        stopper = threading.Thread(target=engine.shutdown, daemon=True)
        stopper.start()
        stopper.join(plan['shutdown_s'])


if __name__ == '__main__':
    logging.disable(logging.CRITICAL)
    threading.excepthook = lambda a: None
    with open(sys.argv[1]) as f:
        PLAN = json.load(f)
    asyncio.run(main(PLAN))
    sys.stdout.flush()
    os._exit(0)
'''

CTL_SESSION = r'''
"""Controlled serving session against the real engine.

The real `Engine` (Wrapper, Dealer, prediction.Executor, Pool, forked workers) runs on an event loop whose
`run_in_executor` is intercepted (every off-loop call of a caller becomes a pending item that only the controller
starts, in the real pool it was meant for), with an inventory double whose `list()` can park the calling thread, and
with model actors that wait at a gate (unix socket) inside the worker processes.  The controller performs one action
at a time - `arrive c`, `start c` (the caller's pending off-loop call), `list c` (un-park), `gate c` (let the worker
finish c's task) - picked by a seeded PRNG among those available (or taken from a recorded list), and lets the
system settle in between.  So the interleaving is chosen, varied and replayable instead of left to the OS.
Reads the plan from argv[1] (json), prints the trace (json).
"""
import asyncio
import collections
import json
import logging
import os
import pathlib
import random
import socket
import sys
import threading
import time
import warnings
from concurrent import futures as cf

warnings.filterwarnings('ignore')

import c16_session as base  # noqa: E402  (build(): registry + descriptors)

TL = threading.local()


class Loop(asyncio.SelectorEventLoop):
    """event loop handing the callers' off-loop calls to the controller"""

    ctl = None

    def run_in_executor(self, executor, func, *args):
        ctl = self.ctl
        c = None
        if ctl is not None:
            try:
                c = ctl.caller_of.get(asyncio.current_task(loop=self))
            except RuntimeError:
                c = None
        if c is None:
            return super().run_in_executor(executor, func, *args)
        return ctl.intercept(c, executor, func, args, super().run_in_executor)


class GateServer(threading.Thread):
    """accepts the connections of the model actors (one per task being computed)"""

    def __init__(self, path, loop, on_taken):
        super().__init__(daemon=True, name='c16-gate')
        self.sock = socket.socket(socket.AF_UNIX, socket.SOCK_STREAM)
        self.sock.bind(path)
        self.sock.listen(256)
        self.loop, self.on_taken = loop, on_taken

    def run(self):
        while True:
            try:
                conn, _ = self.sock.accept()
            except OSError:
                return
            try:
                conn.settimeout(30)
                buf = b''
                while not buf.endswith(b'\n'):
                    chunk = conn.recv(64)
                    if not chunk:
                        break
                    buf += chunk
                token, pid = buf.decode().split()
                conn.settimeout(None)
                self.loop.call_soon_threadsafe(self.on_taken, int(token), int(pid), conn)
            except Exception:  # pylint: disable=broad-except
                conn.close()


def make_inventory(descriptors, ctl):
    from forml.io import asset

    class Inventory(asset.Inventory):
        """in-memory inventory; list() parks the calling pool thread until the controller releases it"""

        def __init__(self):
            self._content = {d.name: d for d in descriptors}

        def list(self):
            c = getattr(TL, 'caller', None)
            if ctl.gate_list and c is not None:
                ev = threading.Event()
                ctl.loop.call_soon_threadsafe(ctl.on_park, c, ev)
                ev.wait(900)
            return list(self._content)

        def get(self, application):
            return self._content[application.lower()]

        def put(self, descriptor):
            raise NotImplementedError

    return Inventory()


class Control:
    STEP_TIMEOUT = 150.0   # a started off-loop call with nothing parked must come back: far beyond any real latency
    BLOCK_WAIT = 0.2       # while a thread is parked in list(): how long started calls get to reach a control point
    SPAWN_TIMEOUT = 150.0  # first task of an instance: manager + spawned pool + forked workers have to come up
    EXPECT_TIMEOUT = 10.0  # any other expected consequence of an action
    LOST_DEADLINE = 90.0   # nothing left to do, a caller unanswered, no event for this long => reported as lost
    BUDGET = 330.0         # whole session

    def __init__(self, plan, loop):
        self.plan, self.loop = plan, loop
        self.gate_list = bool(plan.get('gate_list'))
        self.workers = plan['processes']
        self.t0 = time.time()
        self.seq = 0
        self.version = 0
        self.changed = asyncio.Event()
        self.log = []
        self.reqs = {}
        self.caller_of = {}
        self.task_of = {}
        self.off = {}           # c -> pending / started off-loop call
        self.noff = collections.Counter()
        self.parked = {}        # c -> threading.Event
        self.taken = collections.defaultdict(list)   # c -> connections of actors computing c's task
        self.by_token = {}
        self.st = {}            # c -> new | off | dealer | held | done
        self.done = set()
        self.arrived = set()
        self.q = collections.defaultdict(collections.deque)   # instance -> callers submitted, not yet seen taken
        self.held = collections.defaultdict(set)
        self.spawned = set()
        self.after_gate = []
        self.back = []
        self.flags = collections.Counter()
        self.flag_notes = []
        self.engine = None

    # ---- log -----------------------------------------------------------------------------------------------------
    def emit(self, ev, c, **kw):
        self.seq += 1
        rec = {'seq': self.seq, 't': round(time.time() - self.t0, 4), 'ev': ev, 'c': c}
        rec.update(kw)
        self.log.append(rec)
        self.poke()

    def poke(self):
        self.version += 1
        self.changed.set()

    def flag(self, what, detail):
        self.flags[what] += 1
        if len(self.flag_notes) < 12:
            self.flag_notes.append(f'{what}: {detail}')

    @property
    def degraded(self):
        return sum(self.flags.values()) >= 2

    # ---- interception points (all run on the loop thread) ------------------------------------------------------------
    def intercept(self, c, executor, func, args, real_run):
        self.noff[c] += 1
        k = self.noff[c]
        proxy = self.loop.create_future()
        if isinstance(executor, cf.ThreadPoolExecutor) or executor is None:
            def call(*a):
                TL.caller = c
                try:
                    return func(*a)
                finally:
                    TL.caller = None
        else:
            call = func  # process pool: the callable must stay picklable
        if self.st.get(c) == 'held':
            self.held[self.inst_of(c)].discard(c)
        self.st[c] = 'off'
        self.off[c] = {'k': k, 'proxy': proxy, 'started': False, 'thunk': lambda: real_run(executor, call, *args)}
        self.emit('offload', c, k=k, pool=type(executor).__name__)
        return proxy

    def on_park(self, c, ev):
        self.parked[c] = ev
        self.emit('park', c)

    def on_taken(self, token, pid, conn):
        c = self.by_token.get(token)
        if c is None:
            conn.sendall(b'g')
            conn.close()
            self.flag('unknown-token', token)
            return
        self.taken[c].append(conn)
        self.spawned.add(self.inst_of(c))
        self.emit('taken', c, pid=pid)

    def inst_of(self, c):
        return self.reqs[c].get('inst')

    # ---- the caller ----------------------------------------------------------------------------------------------
    async def call(self, req):
        from forml.io import layout

        c = req['c']
        self.emit('arrive', c)
        try:
            request = layout.Request(req['body'].encode(), layout.Encoding(req['enc']),
                                     accept=[layout.Encoding(req['accept'])])
            resp = await self.engine.apply(req['app'], request)
            rec = {'ok': True, 'data': bytes(resp.payload.data).decode(), 'enc': str(resp.payload.encoding.kind),
                   'instance': str(resp.instance)}
        except asyncio.CancelledError:
            raise
        except BaseException as err:  # pylint: disable=broad-except
            rec = {'ok': False, 'cls': type(err).__name__, 'msg': str(err)[:160]}
        if self.st.get(c) == 'held':
            self.held[self.inst_of(c)].discard(c)
        self.st[c] = 'done'
        self.done.add(c)
        self.emit('answer', c, **rec)

    # ---- actions -------------------------------------------------------------------------------------------------
    def available(self, todo):
        acts = [('arrive', c) for c in todo if c not in self.arrived]
        acts += [('start', c) for c, o in sorted(self.off.items()) if not o['started']]
        acts += [('list', c) for c in sorted(self.parked)]
        acts += [('gate', c) for c in sorted(self.taken) if self.taken[c]]
        return acts

    def perform(self, act):
        kind, c = act
        if kind == 'arrive':
            self.arrived.add(c)
            self.st[c] = 'new'
            task = self.loop.create_task(self.call(self.reqs[c]))
            self.caller_of[task] = c
            self.task_of[c] = task
            self.emit('do-arrive', c)
        elif kind == 'start':
            o = self.off[c]
            o['started'] = True
            self.emit('start', c, k=o['k'])
            try:
                real = o['thunk']()
            except BaseException as err:  # pylint: disable=broad-except
                # the off-loop call could not even be handed over (i.e. BrokenProcessPool raised by submit): that is
                # behaviour of the code under test - the caller's coroutine gets the exception, like from the real loop
                real = self.loop.create_future()
                real.set_exception(err)

            def finished(fut, c=c, o=o):
                if self.off.get(c) is o:
                    del self.off[c]
                self.back.append(c)
                exc = asyncio.CancelledError() if fut.cancelled() else fut.exception()
                self.emit('offdone', c, k=o['k'], ok=exc is None)
                if o['proxy'].done():
                    return
                if exc is None:
                    o['proxy'].set_result(fut.result())
                else:
                    o['proxy'].set_exception(exc)

            real.add_done_callback(finished)
        elif kind == 'list':
            ev = self.parked.pop(c)
            self.emit('list', c)
            ev.set()
        elif kind == 'gate':
            conns, self.taken[c] = self.taken[c], []
            i = self.inst_of(c)
            if self.st.get(c) == 'dealer':  # taken out of turn as far as the book-keeping goes
                try:
                    self.q[i].remove(c)
                except ValueError:
                    pass
                self.held[i].add(c)
                self.st[c] = 'held'
            self.emit('gate', c, n=len(conns))
            for conn in conns:
                try:
                    conn.sendall(b'g')
                except OSError:
                    pass
                conn.close()
            self.after_gate.append(c)

    def choose(self, acts, rng, rnd, script):
        """-> list of actions performed back to back (more than one = burst)"""
        while script:
            want = tuple(script.pop(0))
            if want in acts:
                return [want]
            self.flag('script-miss', want)
        kinds = sorted({a[0] for a in acts})
        weights = [max(1e-6, float(rnd['weights'].get(k, 1.0))) for k in kinds]
        kind = rng.choices(kinds, weights)[0]
        cands = [a for a in acts if a[0] == kind]
        order = rnd.get('order', 'random')
        if order == 'fifo':
            first = cands[0]
        elif order == 'lifo':
            first = cands[-1]
        else:
            first = rng.choice(cands)
        out = [first]
        if rng.random() < rnd.get('burst', 0.0):
            rest = [a for a in cands if a != first]
            rng.shuffle(rest)
            out += rest[:rng.randint(1, 3)]
        return out

    # ---- settling ------------------------------------------------------------------------------------------------
    async def wait_change(self, timeout):
        """wait until any event is logged; False on timeout"""
        v = self.version
        deadline = time.time() + timeout
        while self.version == v:
            left = deadline - time.time()
            if left <= 0:
                return False
            self.changed.clear()
            try:
                await asyncio.wait_for(self.changed.wait(), min(left, 0.5))
            except asyncio.TimeoutError:
                pass
        return True

    async def wait_for(self, cond, timeout):
        deadline = time.time() + timeout
        while not cond():
            left = deadline - time.time()
            if left <= 0:
                return False
            await self.wait_change(min(left, 0.5))
        return True

    async def breathe(self):
        for _ in range(6):
            await asyncio.sleep(0)

    async def drain(self):
        """every started off-loop call comes back - unless a thread is parked inside list(): then the others may
        legitimately be blocked behind it (lock, pool size); each of them gets BLOCK_WAIT once to show up"""
        while True:
            await self.breathe()
            running = [c for c, o in self.off.items() if o['started']]
            if self.parked:
                running = [c for c in running if not self.off[c].get('waited')]
            if not running:
                return
            if self.parked:
                if not await self.wait_change(self.BLOCK_WAIT):
                    for c in running:
                        if c in self.off:
                            self.off[c]['waited'] = True
                    return
            elif not await self.wait_change(1.0 if self.degraded else self.STEP_TIMEOUT):
                self.flag('stalled', running)
                return

    def resuming(self, c):
        """the caller's off-loop call is back but its coroutine has not been resumed yet"""
        if self.st.get(c) != 'off' or c in self.off or c in self.done:
            return False
        waiter = getattr(self.task_of[c], '_fut_waiter', None)
        return waiter is None or waiter.done()

    async def classify(self):
        for _ in range(200):
            if not any(self.resuming(c) for c in self.arrived - self.done):
                break
            await asyncio.sleep(0)
        back, self.back = self.back, []
        for c in back:  # in the order their off-loop calls came back = the order they reached the dealer
            if self.st.get(c) == 'off' and c not in self.off and not self.resuming(c):
                # the caller waits for something that is no off-loop call: its task is with the dealer
                self.st[c] = 'dealer'
                self.q[self.inst_of(c)].append(c)
                self.emit('queued', c)

    async def expectations(self):
        """wait for the consequences the book-keeping predicts (worker takes the queue head, a gated task reaches
        its caller); a prediction that does not come true is only flagged - nothing is judged here"""
        progressed = False
        for c in list(self.after_gate):
            ok = await self.wait_for(lambda c=c: self.st.get(c) in ('off', 'done'),
                                     1.0 if self.degraded else self.EXPECT_TIMEOUT)
            self.after_gate.remove(c)
            self.held[self.inst_of(c)].discard(c)
            if not ok:
                self.flag('unsettled-gate', c)
            progressed = True
        for i in sorted(k for k in self.q if k is not None):
            while len(self.held[i]) < self.workers:
                for h in [h for h in self.q[i] if self.st.get(h) != 'dealer']:
                    self.q[i].remove(h)
                cands = list(self.q[i])
                if not cands:
                    break

                def moved(h):
                    if self.reqs[h]['fault'] == 'missingColumn':  # fails before it reaches the actor: no gate
                        return h in self.done
                    return bool(self.taken[h]) or self.st.get(h) != 'dealer'

                timeout = 1.0 if self.degraded else (self.EXPECT_TIMEOUT if i in self.spawned else self.SPAWN_TIMEOUT)
                if not await self.wait_for(lambda: any(moved(h) for h in cands), timeout):
                    self.flag('unsettled-take', cands[:4])
                    return progressed
                self.spawned.add(i)
                progressed = True
                for h in cands:
                    if moved(h):
                        self.q[i].remove(h)
                        if self.st.get(h) == 'dealer':
                            self.held[i].add(h)
                            self.st[h] = 'held'
        return progressed

    async def settle(self):
        if self.degraded:
            self.after_gate.clear()
            while await self.wait_change(0.3):
                pass
            return
        while True:
            v = self.version
            await self.drain()
            await self.classify()
            progressed = await self.expectations()
            await self.breathe()
            if self.version == v and not progressed:
                return

    # ---- one round -----------------------------------------------------------------------------------------------
    async def round(self, rnd):
        rng = random.Random(rnd['seed'])
        script = [tuple(a) for a in (rnd.get('actions') or [])]
        todo = [r['c'] for r in rnd['requests']]
        performed, lost = [], []
        while True:
            await self.settle()
            if all(c in self.done for c in todo):
                break
            if time.time() - self.t0 > self.BUDGET:
                return {'performed': performed, 'lost': [], 'aborted': 'session budget exhausted'}
            acts = self.available(todo)
            if not acts:
                if not await self.wait_change(30.0 if self.degraded else self.LOST_DEADLINE):
                    lost = sorted(c for c in todo if c in self.arrived and c not in self.done)
                    break
                continue
            # once several predictions have failed something is wrong with the implementation: no more finesse, every
            # available action is performed at once so that whatever can still be answered is answered quickly
            for act in (acts if self.degraded else self.choose(acts, rng, rnd, script)):
                performed.append(list(act))
                self.perform(act)
        alive = diag = None
        if lost:
            diag = base.diagnose(self.engine)
            diag['controller'] = {'parked': sorted(self.parked), 'at_gate': sorted(c for c in self.taken if self.taken[c]),
                                  'off_loop': {str(c): [o['k'], o['started']] for c, o in self.off.items()},
                                  'state': {str(c): self.st.get(c) for c in lost}}
            alive = {k: bool(v['thread_alive'] and v['pool_alive']) for k, v in diag['executors'].items()}
        return {'performed': performed, 'lost': lost, 'alive': alive, 'diag': diag}

    def release_everything(self):
        for ev in self.parked.values():
            ev.set()
        for conns in self.taken.values():
            for conn in conns:
                try:
                    conn.sendall(b'g')
                    conn.close()
                except OSError:
                    pass


async def main(plan, loop):
    import c16_support
    from forml import io
    from forml.runtime import _service

    root = pathlib.Path(plan['root'])
    ctl = Control(plan, loop)
    Loop.ctl = ctl
    for rnd in plan['rounds']:
        for r in rnd['requests']:
            ctl.reqs[r['c']] = r
            ctl.by_token[r['token']] = r['c']
    gate = str(root / 'gate.sock')
    os.environ['C16_GATE'] = gate
    GateServer(gate, loop, ctl.on_taken).start()
    reg, descriptors = base.build(plan, root)
    inventory = make_inventory(descriptors, ctl)
    ctl.engine = _service.Engine(inventory, reg, io.Importer(c16_support.Feed()), processes=plan['processes'])
    out = {'rounds': []}
    crash = None
    dog = base.Watchdog(plan.get('hang_s', 400), lambda: {
        'last': ctl.log[-3:], 'flags': dict(ctl.flags), 'events': [e for e in ctl.log if e['ev'] in ('arrive', 'answer')]})
    for rnd in plan['rounds']:
        try:
            res = await ctl.round(rnd)
        except BaseException as err:  # pylint: disable=broad-except
            # whatever escapes here came out of the engine through a hook of the controller: the round is abandoned and
            # reported as a time-out (data); everything answered so far is still judged
            import traceback
            res = {'performed': [], 'lost': [], 'aborted': f'controller stopped by {type(err).__name__}: {err}'[:300],
                   'traceback': traceback.format_exc()[-1500:]}
        res['wall'] = round(time.time() - ctl.t0, 3)
        res['upto'] = ctl.seq
        out['rounds'].append(res)
        if res['lost'] or res.get('aborted'):
            break
    out['log'] = ctl.log
    out['flags'] = dict(ctl.flags)
    out['flag_notes'] = ctl.flag_notes
    dog.finished.set()
    sys.stdout.write('C16-TRACE ' + json.dumps(out) + '\n')
    sys.stdout.flush()
    ctl.release_everything()
    if plan.get('shutdown_s'):  # otherwise the parent kills the whole process group: shutting down is not under test
        stopper = threading.Thread(target=ctl.engine.shutdown, daemon=True)
        stopper.start()
        stopper.join(plan['shutdown_s'])


if __name__ == '__main__':
    logging.disable(logging.CRITICAL)
    threading.excepthook = lambda a: None
    with open(sys.argv[1]) as f:
        PLAN = json.load(f)
    LOOP = Loop()
    asyncio.set_event_loop(LOOP)
    LOOP.run_until_complete(main(PLAN, LOOP))
    sys.stdout.flush()
    os._exit(0)
'''

KNOWN_APP_MISSING = 'descriptor-race-known-app-missing'
LOOP_BLOCKED = 'event-loop-blocked-in-put-forked-manager-deadlocked'
SESSION_TIMEOUT = 420  # s; a hanging session is a machinery error (exit 2), never a violation
DELAYS = [0, 0, 0, 1, 1, 2, 3, 5, 8, 13, 20, 40]
FAULTS = ['unknownApp', 'badEncoding', 'missingColumn', 'badAccept', 'refused', 'refused']
WANT = {'unknownApp': ('error', 'missingApp'), 'badEncoding': ('error', 'unsupported'),
        'missingColumn': ('error', 'missingFeatures'), 'badAccept': ('error', 'unsupported')}
# pipeline shapes of the generated projects: one letter per parallel mapper branch after the head ('s' stateful,
# 'l' stateless); a single letter = linear pipeline (one stateful actor, no fan-out)
SHAPES = ['s', 's', 'sl', 'ls', 'ss', 'sls', 'lss', 'ssl']
PIDMARK = 7 * 10 ** 12
# how the controller of a controlled session weighs the kinds of action it can take next
CTL_STYLES = {
    'uniform': {'arrive': 1, 'start': 1, 'list': 1, 'gate': 1},
    'flood': {'arrive': 8, 'start': 4, 'list': 1, 'gate': 0.2},      # everything in flight before any result
    'drain': {'arrive': 0.3, 'start': 1, 'list': 1, 'gate': 4},      # close to one request at a time
    'park': {'arrive': 4, 'start': 4, 'list': 0.15, 'gate': 1},      # threads sit inside inventory.list() for long
    'starve': {'arrive': 2, 'start': 0.3, 'list': 1, 'gate': 2},     # off-loop calls are started late
}


class C16(fw.Check):
    ID = 'C16'
    LEAN_MODULES = ['ForML.Props.C16']
    DRIVER = 'drv_c16'
    RULE = ('sessions = one real Engine (Wrapper, Dealer, prediction.Executor, spawned Pool, forked workers) over a temp '
            'posix registry + in-memory inventory with 1..3 applications (Generic + Explicit selector) over 1..3 distinct '
            'model instances (distinct projects and/or generations, distinct states; sometimes two applications share an '
            'instance), pool size 1..4.  Every generated project has a pipeline SHAPE: linear (one stateful actor) or a head '
            'actor followed by payload.MapReduce with 2..3 parallel mapper branches (stateful / stateless mix) and a reducer; '
            'a mapper refuses (forml.InvalidError, raised INSIDE the pipeline after the fork) a request whose `bad` column '
            'names its branch.  Requests are text/csv or plain application/json, 1..3 rows, shuffled column order; 0..50 % '
            'failing requests (unknown application / unsupported content type / missing column / no acceptable response '
            'encoding / refused by a payload-selected branch) at random positions; answers carry the pid of the worker '
            'that computed them.  (a) CONTROLLED sessions (kind ctl): the event loop\'s run_in_executor is intercepted, '
            'inventory.list() parks its thread, the head actor waits at a gate in the worker process; a seeded controller '
            'performs one action at a time (arrive c / start c\'s pending off-loop call / un-park c / let c\'s task finish), '
            'chosen among those available with round-specific weights (uniform, flood, drain, park, starve), order (random, '
            'fifo, lifo) and burst rate, and lets the system settle in between: 6 (quick) / 100 (thorough) sessions x 12 / '
            '30 rounds of 1..16 (once 64, 32) requests + descriptor-race sessions + PINNED sessions (scripted: every worker '
            'of a 1..3-worker pool warmed up, then W-1 blockers held at the gate and sequences fail->healthy, '
            'healthy->fail->healthy, fail->fail->healthy, ... driven through the one free worker); a case = one round, '
            'distinct by its requests AND the performed action list, non-trivial when >= 2 requests and >= 1 healthy.  '
            '(b) TIMED sessions: 2..6 batches of 1..64 concurrent Engine.apply calls with per-request actor delays 0..40 ms '
            'and arrival offsets 0..25 ms, all fault kinds x 4 positions for batches of 4, the barrier-driven descriptor '
            'race, SERIAL sessions (one request at a time on forking pipelines, pool size 1 mostly: the whole session is one '
            'worker\'s history; a case = the session), GATEWAY sessions (the same batches through rest.Apply in a Starlette '
            'application, in-process ASGI: status codes, media type, x-forml-instance), AFTERMATH sessions (two applications / two executors; for every fault '
            'kind a concurrent batch [healthy on the same application, the failing request, healthy on the other application] '
            'and then healthy requests on both, so that every fault kind is followed by healthy requests on every shared '
            'resource it could poison: the wrapper\'s thread pool, its process pool, the per-instance executor; half of them '
            'through the REST route), one fatal-exception session and one after-stop session recorded as behaviour; a case = '
            'one batch.  Whatever exception class comes back from Engine.apply (also BrokenProcessPool, also one raised by '
            'run_in_executor itself) is recorded per caller and judged.  (c) the listed witness of finding C16-F2 '
            '(COLD-FORK session: an executor created while another executor\'s thread re-imports forml, scheduled through '
            'os.register_at_fork and a sys.meta_path observer) is replayed on every run; thorough generates 4 more.  Every '
            'trace (arrive/answer events) must be accepted by the model driver (projection of a schedule of the locked '
            'model with the reset of the code that exists, same answers, nothing left enabled); oracle on the real trace: '
            'every call answered (lost = nothing left to do and no event for 90 s while executor and pool are alive and '
            'nothing is queued, reproduced by a second run), rows of every branch carry own token/row index and the state of '
            'the instance the application selects, response.instance is that instance, response encoding is the accepted '
            'one, failing requests get their own platform error (a refusal carries the token of the refused request) and '
            'nobody else fails; HTTP status = the one of the own outcome.  Evidence only: the fine-grained log of each '
            'controlled session is linearised into a model schedule which the model must follow step by step '
            '(coverage.controlled); every worker\'s observed history is replayed through the model\'s serveAll '
            '(coverage.worker_histories).  TIME-OUTS ARE DATA: a session that does not end, a stall with work still queued '
            'or an unreproducible stall is recorded (coverage.timeouts) and not judged; the answers such a session did give '
            'are still judged; only when more than half of the sessions time out the check refuses to answer.')
    TRUSTED = [
        'OS scheduling, multiprocessing.Manager queues (assumed FIFO, lossless), asyncio.wrap_future, process spawn, '
        'concurrent.futures pools: modelled as nondeterministic interleaving; controlled sessions choose the order of '
        'the off-loop calls, of the descriptor critical sections and of the task completions, everything below '
        '(queue hand-over, thread wake-ups) is sampled only',
        'descriptor.select is a static Explicit strategy in the sessions (selection strategies are C17)',
        'the generated actors (branch*10^9 + state*10^6 + token*10 + row per mapper branch) stand for the uninterpreted '
        'f(instance, payload); one fan-out level (head -> n mappers -> reducer) stands for pyfunc\'s replica mechanism '
        '(general DAGs: C02)',
        'await-level observation: a coroutine returns at most once, so duplicates are only checked in the model; '
        'lost = not answered although nothing is left to do, for 90 s, while executor and pool are alive',
        'controller hooks: asyncio loop.run_in_executor (public API), the inventory passed to Engine, the actors of the '
        'generated project; asyncio.Task._fut_waiter is read to see that a coroutine has been resumed; cold-fork '
        'sessions: os.register_at_fork(before=...) and a sys.meta_path observer that only wait / sleep (scheduling)',
        'the dead-lock of finding C16-F2 is diagnosed from thread stacks (loop thread in a manager-proxy call, a manager '
        'request handler blocked in importlib\'s lock while unpickling), never from elapsed time',
    ]
    ASSUMPTIONS = ['inventory content is static during a session',
                   'fault class = platform-level errors (forml.AnyError, raised before or inside the pipeline); a '
                   'non-platform exception in an actor stops the pool (C16_fatal_counterexample, '
                   'C16_late_refusal_counterexample) and is recorded as behaviour outside the property',
                   'the theorems about answers being exact are for _get_descriptor as it exists (critical section '
                   'under Wrapper._lock, /repo 710a92e) and for pyfunc.Expression.__call__ as it exists (finally: reset of '
                   'every fork); the code before the lock is refuted by C16_descriptor_race_counterexample (fixed finding '
                   'C16-F1, replayed on every run), other reset disciplines by C16_worker_anyreset_counterexample / '
                   'C16_reset_counterexample',
                   'finding C16-F2 (fixed, /repo 5c7b754): with forml.setup._importer before that repair "every caller is '
                   'answered" held only while no executor was created during another executor thread\'s re-import of forml '
                   '(C16_coldfork_partial / _counterexample); the cold-fork witness is replayed on every run',
                   'error values travel back from the pool processes unchanged (plain exceptions with a message): checked on '
                   'every run by pickling the real ones (coverage.error_transport); C16_respond_pool_isolation / '
                   '_counterexample']

    def __init__(self, tier, seed):
        super().__init__(tier, seed)
        self._scratch = None
        self._results = []

    # ---- generator -------------------------------------------------------------------------------------------
    def _topology(self, napps: int, shapes=None):
        """apps -> (project, generation); states distinct per instance; every project has a pipeline shape."""
        rng = self.rng
        projects = []  # {'name', 'states'}
        apps = []
        state = iter(rng.sample(range(1, 900), 6))
        style = rng.choice(['projects', 'projects', 'generations', 'shared'])
        for a in range(napps):
            if a == 0 or style == 'projects':
                projects.append({'name': f'p{len(projects)}', 'states': [next(state)],
                                 'shape': rng.choice(SHAPES) if shapes is None else shapes[len(projects) % len(shapes)]})
                apps.append({'name': f'app{a}', 'project': projects[-1]['name'], 'generation': 1})
            elif style == 'generations':
                projects[0]['states'].append(next(state))
                apps.append({'name': f'app{a}', 'project': 'p0', 'generation': len(projects[0]['states'])})
            else:  # shared: same instance as app0
                apps.append({'name': f'app{a}', 'project': apps[0]['project'], 'generation': apps[0]['generation']})
        return projects, apps

    def _request(self, c: int, napps: int, fault, maxdelay=None, fans=None, app=None, branch=None):
        """`fans`: app index -> fan-out of the pipeline of the instance it selects (None: all linear).  A `refused`
        request carries, in one of its rows, the number of the mapper branch that has to refuse it."""
        rng = self.rng
        app = rng.randrange(napps) if app is None else app
        if fans is None:
            raise fw.MachineryError('request generated without the fan-outs of the pipelines it may be sent to')
        fan = max(1, fans[app])
        rows = rng.choice([1, 1, 1, 2, 3])
        token = 1000 + c  # unique per caller within the session
        delay = rng.choice(DELAYS if maxdelay is None else [d for d in DELAYS if d <= maxdelay])
        js = rng.random() < 0.3
        cols = ['token', 'delay', 'bad']
        if fault == 'missingColumn':
            cols = rng.choice([['token', 'bad'], ['token', 'delay'], ['token']])
        elif rng.random() < 0.3:
            cols = rng.choice([['delay', 'token', 'bad'], ['bad', 'delay', 'token'], ['token', 'bad', 'delay']])
        bad = [0] * rows
        if fault == 'refused':
            branch = rng.randrange(fan) if branch is None else branch
            bad[rng.randrange(rows)] = branch + 1
        elif fault is None and rng.random() < 0.1:
            bad[rng.randrange(rows)] = fan + 1 + rng.randrange(2)  # names a branch the pipeline does not have: harmless
        vals = {'token': [token] * rows, 'delay': [-1 if fault == 'fatal' else delay] * rows, 'bad': bad}
        if js:
            body = json.dumps({k: vals[k] for k in cols})
            enc = 'application/json'
        else:
            body = ','.join(cols) + '\n' + ''.join(','.join(str(vals[k][i]) for k in cols) + '\n' for i in range(rows))
            enc = 'text/csv'
        req = {'c': c, 'appidx': app, 'app': f'app{app}', 'enc': enc, 'accept': enc, 'body': body, 'rows': rows,
               'token': token, 'delay': delay, 'fault': fault, 'arrival_ms': rng.choice([0, 0, 0, 1, 3, 7, 15, 25])}
        if fault == 'refused':
            req['branch'] = branch
        if fault == 'unknownApp':
            req['app'], req['appidx'] = rng.choice(['nope', 'app9', 'App0x']), 9
        if fault == 'badEncoding':
            req['enc'] = rng.choice(['foo/bar', 'application/x-unknown', 'text/weird'])
        if fault == 'badAccept':
            req['accept'] = rng.choice(['foo/bar', 'application/x-unknown', 'image/png'])
        return req

    def _session(self, sid: str, nbatches: int, sizes=None, processes=None, napps=None, faultrate=None, shapes=None):
        rng = self.rng
        napps = napps or rng.choice([1, 2, 2, 3, 3])
        processes = processes or rng.choice([1, 2, 3, 4])
        projects, apps = self._topology(napps, shapes)
        plan = {'sid': sid, 'kind': 'random', 'projects': projects, 'apps': apps, 'processes': processes}
        fans = self._fans(plan)[0]
        faultrate = rng.choice([0.0, 0.1, 0.25, 0.4]) if faultrate is None else faultrate
        batches, c = [], 0
        for b in range(nbatches):
            n = sizes[b] if sizes else rng.choice([1, 2, 3, 4, 6, 8, 12, 16, 24, 32, 48, 64, rng.randint(1, 64)])
            reqs = []
            for _ in range(n):
                fault = rng.choice(FAULTS) if rng.random() < faultrate else None
                reqs.append(self._request(c, napps, fault, fans=fans))
                c += 1
            batches.append({'requests': reqs, 'deadline_s': 90})
        plan['batches'] = batches
        return plan

    # what one worker serves one after the other: H healthy, F refused inside the pipeline (branch chosen per
    # request), M missing column (refused at the head)
    SEQUENCES = ['HFH', 'FH', 'HFFH', 'FFH', 'HFHFH', 'HMFH', 'HFMH', 'HHFHH', 'HFHH']

    def _serial_session(self, sid: str, processes=None):
        """requests one at a time (every batch is a single call, awaited before the next one is sent) against forking
        pipelines: with pool size 1 every request is served by the same worker, so the whole session is one worker
        history; with a larger pool the histories are whatever the task queue deals (the answers tell the pid)."""
        rng = self.rng
        napps = rng.choice([1, 1, 2])
        fork = [sh for sh in SHAPES if len(sh) > 1]
        plan = self._session(sid, 0, processes=processes or rng.choice([1, 1, 1, 2]), napps=napps,
                             shapes=[rng.choice(fork) for _ in range(napps)])
        plan['kind'] = 'serial'
        fans = self._fans(plan)[0]
        c = 0
        for _ in range(rng.choice([2, 3])):
            app = rng.randrange(napps)
            for letter in rng.choice(self.SEQUENCES):
                fault = {'H': None, 'F': 'refused', 'M': 'missingColumn'}[letter]
                # the branch refusing it: any but (mostly) not the last one - an interrupted evaluation leaves replicas
                branch = rng.randrange(max(1, fans[app] - (rng.random() < 0.8))) if fault == 'refused' else None
                r = self._request(c, napps, fault, maxdelay=0, fans=fans, app=app, branch=branch)
                r['arrival_ms'] = 0
                plan['batches'].append({'requests': [r], 'deadline_s': 90})
                c += 1
        return plan

    def _ctl_session(self, sid: str, nrounds: int, gate_list=None, napps=None, processes=None, sizes=None,
                     faultrate=None, shapes=None):
        """a controlled session: one engine, `nrounds` rounds; every round is a set of requests driven to completion
        under a schedule the controller picks with the round's seed, weights, order and burst rate."""
        rng = self.rng
        napps = napps or rng.choice([1, 2, 2, 3, 3])
        projects, apps = self._topology(napps, shapes)
        plan = {'sid': sid, 'kind': 'ctl', 'projects': projects, 'apps': apps,
                'processes': processes or rng.choice([1, 2, 2, 3, 4]),
                'gate_list': (rng.random() < 0.6) if gate_list is None else gate_list}
        of_app, _ = self._instances(plan)
        fans = self._fans(plan)[0]
        rounds, c = [], 0
        for k in range(nrounds):
            n = sizes[k] if sizes else rng.choice([1, 2, 2, 3, 3, 4, 4, 5, 6, 6, 8, 8, 12, 16])
            rate = rng.choice([0.0, 0.0, 0.15, 0.3, 0.5]) if faultrate is None else faultrate
            reqs = []
            for _ in range(n):
                r = self._request(c, napps, rng.choice(FAULTS) if rng.random() < rate else None, maxdelay=0, fans=fans)
                r['arrival_ms'] = 0
                r['inst'] = of_app[r['appidx']] if r['appidx'] < len(of_app) else None
                reqs.append(r)
                c += 1
            style = rng.choice(sorted(CTL_STYLES))
            rounds.append({'requests': reqs, 'seed': rng.randrange(1 << 30), 'style': style,
                           'weights': CTL_STYLES[style], 'order': rng.choice(['random', 'random', 'fifo', 'lifo']),
                           'burst': rng.choice([0.0, 0.0, 0.0, 0.15, 0.4])})
        plan['rounds'] = rounds
        plan['batches'] = [{'requests': r['requests'], 'deadline_s': 90} for r in rounds]
        return plan

    def _ctl_race_session(self, sid: str):
        """the descriptor race under the controller: first requests for known applications (and an unknown one) with
        every thread parked inside inventory.list(); order lifo/fifo so that both interleavings occur."""
        plan = self._ctl_session(sid, 2, gate_list=True, napps=2, processes=self.rng.choice([2, 3, 4]), sizes=[3, 4],
                                 faultrate=0.0)
        plan['rounds'][0].update(style='park', weights=CTL_STYLES['park'], order=self.rng.choice(['fifo', 'lifo']),
                                 burst=0.0)
        fans, of_app = self._fans(plan)[0], self._instances(plan)[0]
        reqs = plan['rounds'][0]['requests']  # (the same list object as plan['batches'][0]['requests'])
        for i, r in enumerate(reqs):  # two first requests for app0, one for app1
            new = self._request(r['c'], 2, None, maxdelay=0, fans=fans, app=0 if i < 2 else 1)
            new.update(arrival_ms=0, inst=of_app[new['appidx']])
            reqs[i] = new
        return plan

    def _ctl_pin_session(self, sid: str, processes=None):
        """controlled and scripted: ONE application with a forking pipeline on a pool of W workers.  Round 0 warms every
        worker up (W healthy requests computed at the same time - each worker takes one).  Every further round parks
        W-1 blockers at the gate inside W-1 workers and drives a sequence (fail -> healthy, healthy -> fail -> healthy,
        fail -> fail -> healthy, ...) through the one worker that is free, then lets the blockers go.  So successive
        requests are pinned onto the same worker of a multi-worker pool by the schedule, not by luck."""
        rng = self.rng
        nworkers = processes or rng.choice([1, 2, 2, 3])
        fork = [sh for sh in SHAPES if len(sh) > 1]
        plan = self._ctl_session(sid, 0, gate_list=False, napps=1, processes=nworkers, shapes=[rng.choice(fork)])
        plan['pinned'] = True
        fans, of_app = self._fans(plan)[0], self._instances(plan)[0]
        counter = [0]

        def request(fault, branch=None):
            r = self._request(counter[0], 1, fault, maxdelay=0, fans=fans, app=0, branch=branch)
            r.update(arrival_ms=0, inst=of_app[0])
            counter[0] += 1
            return r

        def submit(r):
            return [['arrive', r['c']], ['start', r['c']], ['start', r['c']]]

        def finish(r):
            if r['fault'] == 'missingColumn':  # refused at the head, before the gate
                return []
            return [['gate', r['c']]] + ([['start', r['c']]] if r['fault'] is None else [])

        rounds = []
        warm = [request(None) for _ in range(nworkers)]
        rounds.append((warm, [a for r in warm for a in submit(r)] + [a for r in warm for a in finish(r)]))
        for _ in range(rng.choice([2, 3])):
            blockers = [request(None) for _ in range(nworkers - 1)]
            actions = [a for r in blockers for a in submit(r)]
            seq = []
            for letter in rng.choice(self.SEQUENCES):
                fault = {'H': None, 'F': 'refused', 'M': 'missingColumn'}[letter]
                branch = rng.randrange(max(1, fans[0] - (rng.random() < 0.8))) if fault == 'refused' else None
                r = request(fault, branch)
                seq.append(r)
                actions += submit(r) + finish(r)
            actions += [a for r in blockers for a in finish(r)]
            rounds.append((blockers + seq, actions))
        plan['rounds'] = [{'requests': reqs, 'seed': rng.randrange(1 << 30), 'style': 'pin', 'weights': CTL_STYLES['drain'],
                           'order': 'fifo', 'burst': 0.0, 'actions': actions} for reqs, actions in rounds]
        plan['batches'] = [{'requests': r['requests'], 'deadline_s': 90} for r in plan['rounds']]
        return plan

    def _coldfork_session(self, sid: str):
        """an executor created while another executor's thread receives a result: a warm application, then - while one
        of its requests is being computed - the first request of a second application; the scheduling hooks of the
        session (install_coldfork) make the loop thread create the second executor while the first executor's thread
        is inside its import of `forml`; later requests of both applications follow."""
        rng = self.rng
        state = iter(rng.sample(range(1, 900), 2))
        plan = {'sid': sid, 'kind': 'coldfork', 'processes': rng.choice([1, 2]), 'projects': [], 'apps': []}
        for a in range(2):  # two applications over two distinct instances (two executors)
            plan['projects'].append({'name': f'p{a}', 'states': [next(state)], 'shape': rng.choice(SHAPES)})
            plan['apps'].append({'name': f'app{a}', 'project': f'p{a}', 'generation': 1})
        fans = self._fans(plan)[0]
        warm, cold = rng.sample([0, 1], 2)
        reqs = [self._request(c, 2, None, maxdelay=0, fans=fans, app=app) for c, app in enumerate([warm, warm, cold, cold, warm])]
        for r in reqs:
            r['arrival_ms'] = 0
        # the result of the second warm request arrives while the executor of the cold application is being created
        reqs[1] = self._with_delay(reqs[1], rng.choice([900, 1200, 1500]))
        reqs[2]['arrival_ms'] = rng.choice([300, 400, 500])
        plan['batches'] = [{'requests': [reqs[0]], 'deadline_s': 90}, {'requests': reqs[1:3], 'deadline_s': 90},
                           {'requests': reqs[3:], 'deadline_s': 90}]
        plan['coldfork'] = {'arm_batch': 1, 'park_s': rng.choice([2, 3]), 'wait_s': 8, 'cold_package': f'c16_p{cold}'}
        plan['hang_s'] = 60
        return plan

    @staticmethod
    def _with_delay(req, delay):
        """the same request with another per-request processing delay"""
        req = dict(req, delay=delay)
        if req['enc'] == 'application/json':
            body = json.loads(req['body'])
            body['delay'] = [delay] * len(body['delay'])
            req['body'] = json.dumps(body)
        else:
            lines = req['body'].strip().split('\n')
            cols = lines[0].split(',')
            i = cols.index('delay')
            rows = [ln.split(',') for ln in lines[1:]]
            for row in rows:
                row[i] = str(delay)
            req['body'] = '\n'.join([lines[0]] + [','.join(row) for row in rows]) + '\n'
        return req

    @staticmethod
    def _deadlock_signature(trace):
        """positive diagnosis of the cold-fork deadlock in a watchdog report (never concluded from time alone): the
        event-loop thread of the engine waits for the reply to a manager-proxy call, and a request-handler thread of a
        forked manager process is blocked acquiring an import lock while unpickling that request."""
        hung = trace.get('hung') or {}
        loop = [t for t in hung.get('threads', []) if t.startswith('MainThread:') and '_callmethod@managers.py' in t]
        blocks = (trace.get('stderr_tail') or '').split('\n\n')
        wedged = [b for b in blocks if 'importlib._bootstrap>' in b and ' in acquire' in b and 'serve_client' in b
                  and 'connection.py' in b]
        if loop and wedged:
            return {'loop_thread': loop[0][:400], 'manager_thread': wedged[0].strip().split('\n')[:6],
                    'scheduling': (hung.get('state') or {}).get('coldfork')}
        return None

    def _aftermath_session(self, sid: str, gateway=False):
        """every fault kind followed by healthy requests on EVERY shared resource it could poison: two applications
        over two instances (two executors); for each kind a concurrent batch [healthy on the same application (being
        computed), the failing request, healthy on the other application] and then a batch of healthy requests on both
        applications - each healthy request goes through the wrapper's thread pool (descriptor, decoding), its
        instance's executor (manager queues, pool, workers) and the wrapper's process pool (response encoding)."""
        rng = self.rng
        state = iter(rng.sample(range(1, 900), 2))
        plan = {'sid': sid, 'kind': 'aftermath', 'processes': rng.choice([1, 2]), 'projects': [], 'apps': []}
        for a in range(2):
            plan['projects'].append({'name': f'p{a}', 'states': [next(state)], 'shape': rng.choice(SHAPES)})
            plan['apps'].append({'name': f'app{a}', 'project': f'p{a}', 'generation': 1})
        if gateway:
            plan['gateway'] = True
        fans = self._fans(plan)[0]
        kinds = sorted(set(FAULTS))
        rng.shuffle(kinds)
        batches, c = [], 0
        for fault in kinds + ['refused']:
            x = rng.randrange(2)
            first = [self._with_delay(self._request(c, 2, None, maxdelay=0, fans=fans, app=x), rng.choice([10, 20, 40])),
                     self._request(c + 1, 2, fault, maxdelay=0, fans=fans, app=x,
                                   branch=0 if fault == 'refused' else None),
                     self._request(c + 2, 2, None, maxdelay=8, fans=fans, app=1 - x)]
            first[1]['arrival_ms'] = rng.choice([0, 3, 7])
            after = [self._request(c + 3, 2, None, maxdelay=0, fans=fans, app=x),
                     self._request(c + 4, 2, None, maxdelay=0, fans=fans, app=1 - x)]
            c += 5
            batches += [{'requests': first, 'deadline_s': 90}, {'requests': after, 'deadline_s': 90}]
        plan['batches'] = batches
        return plan

    def _aftermath_coverage(self, plan, trace):
        """evidence: per fault kind, how many healthy requests were ANSWERED CORRECTLY after a request of that kind had
        been answered - on the same executor and on another one (every healthy request also crosses the wrapper's
        thread pool and process pool)."""
        stat = self.extra.setdefault('healthy_after_fault', {})
        of_app, _ = self._instances(plan)
        reqs = {r['c']: r for b in plan['batches'] for r in b['requests']}
        arrive = {e['c']: e['seq'] for e in trace['events'] if e['ev'] == 'arrive'}
        answer = {e['c']: e for e in trace['events'] if e['ev'] == 'answer'}
        for f, rf in reqs.items():
            if not rf['fault'] or rf['fault'] == 'fatal' or f not in answer:
                continue
            inst = of_app[rf['appidx']] if rf['appidx'] < len(of_app) else None
            rec = stat.setdefault(rf['fault'], {'requests': 0, 'healthy_after_same_executor': 0, 'healthy_after_other_executor': 0})
            rec['requests'] += 1
            for h, rh in reqs.items():
                if rh['fault'] is None and h in answer and arrive.get(h, 0) > answer[f]['seq'] \
                        and self._canon(plan, answer[h])[0] == 'value':
                    same = inst is not None and of_app[rh['appidx']] == inst
                    rec['healthy_after_same_executor' if same else 'healthy_after_other_executor'] += 1

    def _gateway_session(self, sid: str, nbatches: int):
        """the same kind of concurrent batches, sent through the REST route (rest.Apply in a Starlette application,
        in-process ASGI): application = path, content-type / accept headers, body; the answers are HTTP responses."""
        plan = self._session(sid, nbatches, sizes=[self.rng.choice([4, 8, 12, 16, 24]) for _ in range(nbatches)],
                             faultrate=self.rng.choice([0.25, 0.4]))
        plan.update(kind='gateway', gateway=True)
        return plan

    def _after_stop_session(self, sid: str):
        """what a request gets that arrives right after a non-platform exception has stopped its pool (outside the
        fault class): refused ('Executor not running') once the executor thread has left its loop, accepted and never
        answered before - recorded as behaviour, both are schedules of the model (lateSubmit / exit)."""
        projects = [{'name': 'p0', 'states': [4], 'shape': self.rng.choice(['s', 'ls'])}]
        apps = [{'name': 'app0', 'project': 'p0', 'generation': 1}]
        fans = self._fans({'projects': projects, 'apps': apps})[0]
        reqs = [self._request(0, 1, None, maxdelay=0, fans=fans), self._request(1, 1, 'fatal', fans=fans),
                self._request(2, 1, None, maxdelay=0, fans=fans), self._request(3, 1, None, maxdelay=0, fans=fans)]
        for r in reqs:
            r['arrival_ms'] = 0
        return {'sid': sid, 'kind': 'fatal', 'after_stop': True, 'projects': projects, 'apps': apps, 'processes': 1,
                'batches': [{'requests': [reqs[0]], 'deadline_s': 60}, {'requests': [reqs[1]], 'deadline_s': 20},
                            {'requests': [reqs[2]], 'deadline_s': 6}, {'requests': [reqs[3]], 'deadline_s': 6}]}

    def _positions_session(self, sid: str):
        """all fault kinds x all positions of a batch of 4 (arrival order = position)."""
        projects, apps = self._topology(2)
        fans = self._fans({'projects': projects, 'apps': apps})[0]
        batches, c = [], 0
        for fault in sorted(set(FAULTS)):
            for pos in range(4):
                reqs = []
                for i in range(4):
                    r = self._request(c, 2, fault if i == pos else None, maxdelay=8, fans=fans)
                    r['arrival_ms'] = 4 * i
                    reqs.append(r)
                    c += 1
                batches.append({'requests': reqs, 'deadline_s': 90})
        return {'sid': sid, 'kind': 'positions', 'projects': projects, 'apps': apps,
                'processes': self.rng.choice([1, 2, 3]), 'batches': batches}

    def _race_session(self, sid: str, same_app: bool):
        """two first requests racing in Wrapper._get_descriptor (D17)."""
        projects = [{'name': 'p0', 'states': [7]}]
        apps = [{'name': 'app0', 'project': 'p0', 'generation': 1}, {'name': 'app1', 'project': 'p0', 'generation': 1}]
        reqs = []
        for c in range(2):
            r = self._request(c, 2, None, maxdelay=0, app=0 if same_app else c,
                              fans=self._fans({'projects': projects, 'apps': apps})[0])
            r['arrival_ms'] = 0
            reqs.append(r)
        return {'sid': sid, 'kind': 'race', 'projects': projects, 'apps': apps, 'processes': 2,
                'race': {'barrier_timeout': 1.5, 'hold': 3.0, 'same_app': same_app},
                'batches': [{'requests': reqs, 'deadline_s': 60}]}

    def _fatal_session(self, sid: str):
        """a non-platform exception in one request (outside the fault class): recorded, not judged."""
        projects = [{'name': 'p0', 'states': [3], 'shape': self.rng.choice(['s', 'sl', 'lss'])}]
        apps = [{'name': 'app0', 'project': 'p0', 'generation': 1}]
        fans = self._fans({'projects': projects, 'apps': apps})[0]
        first = [self._request(0, 1, None, maxdelay=0, fans=fans)]
        mid = [self._request(1, 1, None, maxdelay=40, fans=fans), self._request(2, 1, 'fatal', fans=fans),
               self._request(3, 1, None, fans=fans)]
        mid[0]['delay'] = 40
        for i, r in enumerate(mid):
            r['arrival_ms'] = 5 * i
        later = [self._request(4, 1, None, maxdelay=0, fans=fans)]
        return {'sid': sid, 'kind': 'fatal', 'projects': projects, 'apps': apps, 'processes': 1,
                'batches': [{'requests': first, 'deadline_s': 60}, {'requests': mid, 'deadline_s': 8},
                            {'requests': later, 'deadline_s': 8}]}

    # ---- implementation adapter ----------------------------------------------------------------------------------
    def _scratchdir(self) -> str:
        if self._scratch is None:
            self._scratch = tempfile.mkdtemp(prefix='verif-c16-')
            for name, text in (('c16_support.py', SUPPORT), ('c16_session.py', SESSION), ('c16_ctl.py', CTL_SESSION)):
                with open(os.path.join(self._scratch, name), 'w') as f:
                    f.write(text)
        return self._scratch

    def _cleanup(self):
        if self._scratch is not None:
            shutil.rmtree(self._scratch, ignore_errors=True)
            self._scratch = None

    def _run_session(self, plan: dict) -> dict:
        """Run one session in a fresh process group; the whole group is killed afterwards."""
        scratch = self._scratchdir()
        root = tempfile.mkdtemp(prefix=f"s-{plan['sid']}-", dir=scratch)
        full = dict(plan, root=root, source=SOURCE, pipeline=PIPELINE)
        planfile = os.path.join(root, 'plan.json')
        with open(planfile, 'w') as f:
            json.dump(full, f)
        env = dict(os.environ)
        env['PYTHONPATH'] = os.pathsep.join([fw.REPO, scratch, env.get('PYTHONPATH', '')])
        env['PYTHONWARNINGS'] = 'ignore'
        t0 = time.time()
        script = 'c16_ctl.py' if plan['kind'] == 'ctl' else 'c16_session.py'
        outfile, errfile = os.path.join(root, 'stdout'), os.path.join(root, 'stderr')
        # output goes to files: the engine's children (managers, pools, workers) inherit the descriptors and may
        # outlive the session process by a moment
        with open(outfile, 'w') as fo, open(errfile, 'w') as fe:
            proc = subprocess.Popen([sys.executable, os.path.join(scratch, script), planfile], env=env, cwd=root,
                                    stdout=fo, stderr=fe, start_new_session=True)
            try:
                proc.wait(timeout=SESSION_TIMEOUT)
                hung = False
            except subprocess.TimeoutExpired:
                hung = True
            finally:
                try:
                    os.killpg(proc.pid, signal.SIGKILL)  # engine, managers, pools, workers: nothing survives a session
                except (ProcessLookupError, PermissionError):
                    pass
                try:
                    proc.wait(timeout=10)
                except Exception:  # pylint: disable=broad-except
                    pass
        try:
            with open(outfile) as f:
                out = f.read()
            with open(errfile) as f:
                err = f.read()
        finally:
            shutil.rmtree(root, ignore_errors=True)
        # A session that does not come back is a TIME-OUT: data (recorded with everything the watchdog could see),
        # never a verdict and never a failure of the check; the answers it did give are still judged.
        wall = round(time.time() - t0, 2)
        line = next((ln for ln in out.split('\n') if ln.startswith('C16-TRACE ')), None)
        stuck = next((ln for ln in out.split('\n') if ln.startswith('C16-HUNG ')), None)
        if line is None and stuck is not None:
            report = json.loads(stuck[len('C16-HUNG '):])
            events = (report.get('state') or {}).pop('events', []) if isinstance(report.get('state'), dict) else []
            return {'timeout': f"no end of the session after {report.get('after_s')} s (watchdog)", 'hung': report,
                    'stderr_tail': (err or '')[-40000:], 'events': events, 'batches': [], 'wall': wall}
        if line is None and hung:
            return {'timeout': f'session did not finish within {SESSION_TIMEOUT} s and its watchdog did not report',
                    'stderr_tail': (err or '')[-3000:], 'events': [], 'batches': [], 'wall': wall}
        if line is None:
            # the session script itself died: its own traceback (not the noise of the engine's children) says where
            own = [b for b in (err or '').split('Traceback (most recent call last):')
                   if 'c16_ctl.py' in b or 'c16_session.py' in b]
            raise fw.MachineryError(f"serving session {plan['sid']} produced no trace (rc={proc.returncode}): "
                                    f"{(own[-1][-2500:] if own else (err or '')[-1500:])}")
        trace = json.loads(line[len('C16-TRACE '):])
        trace['wall'] = wall
        return self._shape_ctl(plan, trace) if plan['kind'] == 'ctl' else trace

    def _run_sessions(self, plans: list[dict], parallel: int) -> list[dict]:
        self._scratchdir()  # created before the threads start
        with concurrent.futures.ThreadPoolExecutor(max_workers=parallel) as pool:
            return list(pool.map(self._run_session, plans))

    # ---- canonicaliser -------------------------------------------------------------------------------------------
    @staticmethod
    def _instances(plan):
        """app index -> instance index; instance index -> (project, generation, state)."""
        insts, of_app = [], []
        for a in plan['apps']:
            prj = next(p for p in plan['projects'] if p['name'] == a['project'])
            key = (a['project'], a['generation'], prj['states'][a['generation'] - 1])
            if key not in insts:
                insts.append(key)
            of_app.append(insts.index(key))
        return of_app, insts

    @classmethod
    def _fans(cls, plan):
        """(app index -> fan-out, instance index -> fan-out, instance index -> shape) of the generated pipelines."""
        of_app, insts = cls._instances(plan)
        shape = {p['name']: (p.get('shape') or 's') for p in plan['projects']}
        shapes = [shape[k[0]] for k in insts]
        return [len(shapes[i]) for i in of_app], [len(sh) for sh in shapes], shapes

    @staticmethod
    def _pid_of(ev):
        """the worker process that computed the answer, where the answer tells (evidence only)"""
        try:
            if ev['ok']:
                pids = [v - PIDMARK for v in C16._decode_rows(ev) if v >= PIDMARK]
                return pids[0] if len(pids) == 1 else None
            if ev['cls'] == 'InvalidError' and ' pid=' in ev['msg']:
                return int(ev['msg'].split(' pid=')[1].split()[0])
        except Exception:  # pylint: disable=broad-except
            pass
        return None

    @staticmethod
    def _decode_rows(ev):
        data = ev['data']
        if data.lstrip().startswith('['):
            return [int(v) for row in json.loads(data) for v in row.values()]
        lines = [ln for ln in data.strip().split('\n') if ln.strip()]
        return [int(float(v)) for v in lines[1:]]

    def _canon(self, plan, ev):
        """observed answer -> ('value', inst, token, nrows) | ('mixed', inst, tokens per branch, nrows)
        | ('error', kind) | ('error', 'invalid', token, branch) | ('odd', description)."""
        of_app, insts = self._instances(plan)
        _, fan_of_inst, shapes = self._fans(plan)
        if ev['ok']:
            try:
                vals = self._decode_rows(ev)
            except Exception as e:  # pylint: disable=broad-except
                return ('odd', f'undecodable response {ev["data"][:40]!r}: {e}')
            vals = [v for v in vals if v < PIDMARK]  # the worker's pid: evidence, not part of the outcome
            if not vals:
                return ('odd', 'empty response')
            cells = [(v // 10 ** 9, (v % 10 ** 9) // 10 ** 6, (v % 10 ** 6) // 10, v % 10) for v in vals]
            branches = sorted({k for k, _, _, _ in cells})
            per = {k: [c for c in cells if c[0] == k] for k in branches}
            if [c[0] for c in cells] != sorted(c[0] for c in cells) or branches != list(range(len(branches))):
                return ('odd', f'rows of several requests/instances mixed in one response: {vals}')
            nrows = len(per[0])
            if any([c[3] for c in per[k]] != list(range(len(per[k]))) or len({c[2] for c in per[k]}) != 1
                   or len({c[1] for c in per[k]}) != 1 for k in branches):
                return ('odd', f'rows of several requests/instances mixed in one response: {vals}')
            if len({per[k][0][2] for k in branches}) == 1 and any(len(per[k]) != nrows for k in branches):
                return ('odd', f'rows of several requests/instances mixed in one response: {vals}')
            states = {per[k][0][1] for k in branches} - {0}
            if len(states) != 1:
                return ('odd', f'rows of several requests/instances mixed in one response: {vals}')
            state = states.pop()
            hit = [i for i, k in enumerate(insts) if k[2] == state]
            if not hit:
                return ('odd', f'state {state} belongs to no instance')
            label = [i for i, k in enumerate(insts) if ev['instance'].endswith(f'-{k[0]}-1-{k[1]}')]
            if label != hit:
                return ('odd', f'response.instance {ev["instance"]} but rows computed with the state of instance {insts[hit[0]]}')
            shape = shapes[hit[0]]
            if len(branches) != len(shape) or any((per[k][0][1] != 0) != (shape[k] == 's') for k in branches):
                return ('odd', f'response shape {[(k, per[k][0][1]) for k in branches]} is not the one of the pipeline '
                               f'{shape!r} of instance {insts[hit[0]]}')
            tokens = [per[k][0][2] for k in branches]
            if len(set(tokens)) == 1:
                return ('value', hit[0], tokens[0], nrows)
            return ('mixed', hit[0], tuple(tokens), nrows)
        cls, msg = ev['cls'], ev['msg']
        if cls == 'MissingError' and msg.startswith('Application '):
            return ('error', 'missingApp')
        if cls == 'MissingError' and 'provide all features' in msg:
            return ('error', 'missingFeatures')
        if cls == 'Unsupported':
            return ('error', 'unsupported')
        if cls == 'InvalidError' and msg.startswith('C16 refused token='):
            try:
                return ('error', 'invalid', int(msg.split('token=')[1].split()[0]), int(msg.split('branch=')[1].split()[0]))
            except (IndexError, ValueError):
                return ('odd', f'{cls}: {msg[:80]}')
        if cls == 'RuntimeError' and 'Executor not running' in msg:
            return ('error', 'notRunning')
        if cls == 'BrokenProcessPool':
            return ('error', 'brokenPool')
        if cls == 'ValueError' and 'boom' in msg:
            return ('error', 'fatal')
        return ('odd', f'{cls}: {msg[:80]}')

    def _cfg_sexp(self, plan, locked=True, reset='always'):
        of_app, insts = self._instances(plan)
        _, fan_of_inst, _ = self._fans(plan)
        callers = []
        for b in plan['batches']:
            for r in b['requests']:
                kind = {'missingColumn': 'missingColumn', 'fatal': 'fatal'}.get(r['fault'], 'ok')
                if r['fault'] == 'refused':
                    kind = ['refused', r['branch']]
                callers.append([r['appidx'], r['fault'] == 'badEncoding', r['fault'] == 'badAccept', kind, r['token']])
        return ['cfg', callers, list(range(len(plan['apps']))), [[a, i] for a, i in enumerate(of_app)],
                plan['processes'], locked, [[i, n] for i, n in enumerate(fan_of_inst)], reset]

    def _events_sexp(self, plan, trace):
        evs = []
        for ev in sorted(trace['events'], key=lambda e: e['seq']):
            if ev['ev'] == 'arrive':
                evs.append(['arrive', ev['c']])
            else:
                k = self._canon(plan, ev)
                if k[0] == 'value':
                    evs.append(['answer', ev['c'], ['value', k[1], k[2]]])
                elif k[0] == 'mixed':
                    evs.append(['answer', ev['c'], ['mixed', k[1], list(k[2])]])
                elif k[:2] == ('error', 'invalid'):
                    evs.append(['answer', ev['c'], ['error', ['invalid', k[2], k[3]]]])
                elif k[0] == 'error':
                    evs.append(['answer', ev['c'], ['error', k[1]]])
                else:
                    evs.append(['answer', ev['c'], ['error', 'odd']])  # not an outcome of the model: rejected
        return evs

    # ---- controlled sessions: trace shaping, translation into a model schedule -----------------------------------
    @staticmethod
    def _shape_ctl(plan, raw):
        """the controlled session's output in the form the common oracle / validation code reads"""
        for r in raw['rounds']:
            if r.get('aborted'):  # time-out: data; the rounds that were completed and the answers given still count
                raw['timeout'] = f"controlled session: {r['aborted']} (flags {raw.get('flags')})"
        raw['events'] = [e for e in raw['log'] if e['ev'] in ('arrive', 'answer')]
        raw['batches'] = [{'lost': r['lost'], 'alive': r.get('alive'), 'diag': r.get('diag'), 'wall': r['wall']}
                          for r in raw['rounds'] if not r.get('aborted')]
        return raw

    def _schedule_of(self, plan, trace):
        """linearise the fine-grained log of a controlled session into a schedule of the model:
        -> (items, None) | (None, why the log has not the expected shape).  Book-keeping only; whether the schedule
        is one of the model is decided by the model driver."""
        of_app, _ = self._instances(plan)
        reqs = {r['c']: r for b in plan['batches'] for r in b['requests']}
        nworkers = plan['processes']
        items = []
        holder, holder_at, released, flushed = None, 0, set(), set()
        queue: dict = {}
        slot: dict = {}       # caller -> worker while the model holds its task
        resq: dict = {}
        gated, early, predelivered, submitted = set(), set(), set(), set()

        def inst(c):
            return reqs[c]['inst']

        def free(i):
            used = {w for x, w in slot.items() if inst(x) == i}
            return next((w for w in range(nworkers) if w not in used), None)

        def flush_holder():
            nonlocal holder, holder_at
            if holder is not None:
                if holder not in released:
                    return 'two threads inside inventory.list()'
                items.append(['desc*', holder])
                flushed.add(holder)
                holder = None
            return None

        def finish(x):
            i = inst(x)
            items.append(['finish', i, slot.pop(x)])
            resq.setdefault(i, []).append(x)

        def take_upto(c):
            """the model's queue is FIFO: everything ahead of c is taken first"""
            i = inst(c)
            while True:
                w = free(i)
                if w is None:
                    done = [x for x in slot if inst(x) == i and x in gated]
                    if not done:
                        return 'more tasks being computed than workers'
                    finish(done[0])
                    continue
                h = queue[i].pop(0)
                items.append(['take', i, w])
                slot[h] = w
                if reqs[h]['fault'] == 'missingColumn':
                    finish(h)
                elif h != c:
                    early.add(h)
                if h == c:
                    return None

        def delivered(c):
            i = inst(c)
            if c in predelivered:
                return None
            if c in queue.get(i, []):
                why = take_upto(c)
                if why:
                    return why
            if c in slot:
                finish(c)
            while True:
                if not resq.get(i):
                    return 'a result reached its caller that no worker produced'
                x = resq[i].pop(0)
                items.append(['deliver', i])
                if x == c:
                    return None
                predelivered.add(x)

        for e in trace['log']:
            ev, c = e['ev'], e['c']
            why = None
            if ev == 'arrive':
                items.append(['arrive', c])
            elif ev == 'park':
                why = flush_holder() if holder != c else None
                holder, holder_at = c, len(items)
                items.append(['desc', c])
            elif ev == 'list':
                released.add(c)
            elif ev == 'gate':
                gated.add(c)
            elif ev == 'offdone' and e['k'] == 1:
                if c in flushed:
                    flushed.discard(c)
                elif holder is not None and holder != c and holder not in released:
                    # c left _get_descriptor although the holder still sits in list(): c went through before the
                    # holder entered (its completion is only logged later)
                    items.insert(holder_at, ['desc*', c])
                    holder_at += 1
                else:
                    if holder is not None and holder != c:
                        why = flush_holder()
                    items.append(['desc*', c])
                    if holder == c:
                        holder = None
            elif ev == 'offdone' and e['k'] == 2:
                if reqs[c]['fault'] == 'badEncoding':
                    items.append(['decodeFail', c])
                elif not e['ok']:
                    why = 'decoding / selection failed for a decodable request'
                else:
                    items.append(['submit', c])
                    submitted.add(c)
                    queue.setdefault(inst(c), []).append(c)
            elif ev == 'offdone' and e['k'] == 3:
                items.append(['respond', c])
            elif ev == 'offdone':
                why = 'more than three off-loop calls for one request'
            elif ev == 'taken':
                if c in early:
                    early.discard(c)
                elif c not in queue.get(inst(c), []):
                    why = 'a task is being computed that was not submitted (or twice)'
                else:
                    why = take_upto(c)
            elif ev == 'offload' and e['k'] == 3:
                why = delivered(c) if c in submitted else 'third off-loop call without a submitted task'
            elif ev == 'answer' and c in submitted and not e['ok'] and e['cls'] != 'Unsupported':
                why = delivered(c)  # the task's exception re-raised to the caller
            if why:
                return None, f'{why} (event {e["seq"]}: {ev} {c})'
        return items, None

    def _follow(self, plan, trace):
        """evidence of model fidelity (never an alarm: the mechanism may legitimately change): does the model follow
        the controlled session control point by control point, with the same answers in the same order?"""
        stat = self.extra.setdefault('controlled', {
            'sessions': 0, 'rounds': 0, 'actions': 0, 'requests': 0, 'parks': 0,
            'followed_by_model': 0, 'followed_same_answer_order': 0, 'not_followed': [], 'flags': {}})
        stat['sessions'] += 1
        stat['rounds'] += len(trace['rounds'])
        stat['actions'] += sum(len(r['performed']) for r in trace['rounds'])
        stat['requests'] += sum(1 for e in trace['log'] if e['ev'] == 'arrive')
        stat['parks'] += sum(1 for e in trace['log'] if e['ev'] == 'park')
        for k, v in trace['flags'].items():
            stat['flags'][k] = stat['flags'].get(k, 0) + v
        if trace['flags']:
            stat['not_followed'].append(f"{plan['sid']}: settling flags {trace['flags']} {trace['flag_notes'][:3]}")
            return
        items, why = self._schedule_of(plan, trace)
        if items is None:
            stat['not_followed'].append(f"{plan['sid']}: {why}")
            return
        verdict = sexp.num(sexp.loads(self.model([sexp.dumps(['replay', self._cfg_sexp(plan), items])])[0]))
        events = self._events_sexp(plan, trace)
        observed = [(e[1], e[2]) for e in events if e[0] == 'answer']
        if verdict[0] != 'ok':
            stat['not_followed'].append(f"{plan['sid']}: {verdict} at {items[verdict[1]] if len(verdict) > 1 else ''}")
            return
        got = [(a[0], a[1]) for a in verdict[2]]
        if sorted(got, key=str) != sorted(observed, key=str):
            stat['not_followed'].append(f"{plan['sid']}: answers differ: model {got[:6]} observed {observed[:6]}")
            return
        stat['followed_by_model'] += 1
        stat['followed_same_answer_order'] += int(got == observed)

    # ---- worker histories: tie of the per-worker part of the model (evidence, never an alarm) --------------------
    def _worker_histories(self, plan, trace):
        """what every worker process served, in order, as far as the session tells (controlled sessions: the gate
        reports the pid of the worker computing a task; serial sessions: the answers carry it), replayed through the
        model's `serveAll` with the reset discipline of the code that exists: the model must give the results the
        tasks really had.  When it does not, the other reset policies are tried, for the notes."""
        stat = self.extra.setdefault('worker_histories', {
            'workers': 0, 'requests': 0, 'longest': 0, 'interrupted_then_next_on_same_warm_worker': 0,
            'agree_with_model': 0, 'disagree': []})
        of_app, _ = self._instances(plan)
        fan_of_app, fan_of_inst, _ = self._fans(plan)
        reqs = {r['c']: r for b in plan['batches'] for r in b['requests']}
        answers = {e['c']: e for e in trace['events'] if e['ev'] == 'answer'}
        order = []  # (pid, caller)
        if plan['kind'] == 'ctl':
            seen = set()
            for e in trace['log']:
                if e['ev'] == 'taken' and e['c'] not in seen:
                    order.append((e['pid'], e['c']))
                    seen.add(e['c'])
                elif e['ev'] == 'answer' and e['c'] not in seen and self._pid_of(e) is not None:
                    order.append((self._pid_of(e), e['c']))  # computed without ever reaching the head
                    seen.add(e['c'])
        else:
            pids = {self._pid_of(e) for e in answers.values()} - {None}
            for e in sorted(answers.values(), key=lambda e: e['seq']):
                pid = self._pid_of(e)
                if pid is None and len(pids) == 1 and plan['processes'] == 1 and reqs[e['c']]['fault'] == 'missingColumn':
                    pid = next(iter(pids))  # refused at the head by the only worker there is
                if pid is not None:
                    order.append((pid, e['c']))
        hist: dict = {}
        for pid, c in order:
            if reqs[c]['appidx'] < len(of_app):
                hist.setdefault((pid, of_app[reqs[c]['appidx']]), []).append(c)
        lines, keys = [], []
        for (pid, inst), cs in sorted(hist.items()):
            entries = []
            for c in cs:
                r = reqs[c]
                kind = {'missingColumn': 'missingColumn', 'fatal': 'fatal'}.get(r['fault'], 'ok')
                entries.append([['refused', r['branch']] if r['fault'] == 'refused' else kind, r['token']])
            for pol in ('always', 'firstCallOnly', 'onSuccessOnly'):
                lines.append(sexp.dumps(['worker', pol, inst, fan_of_inst[inst], entries]))
            keys.append((pid, inst, cs))
        if not lines:
            return
        res = [sexp.num(sexp.loads(a)) for a in self.model(lines)]
        for n, (pid, inst, cs) in enumerate(keys):
            stat['workers'] += 1
            stat['requests'] += len(cs)
            stat['longest'] = max(stat['longest'], len(cs))
            for a, b in zip(cs, cs[1:]):
                ra = reqs[a]
                if cs.index(a) >= 1 and ra['fault'] == 'refused' and ra['branch'] + 1 < fan_of_inst[inst]:
                    stat['interrupted_then_next_on_same_warm_worker'] += 1
            observed = []
            for c in cs:
                k = self._canon(plan, answers[c]) if c in answers else ('odd', 'unanswered')
                if reqs[c]['fault'] == 'badAccept' or k in (('error', 'brokenPool'), ('error', 'notRunning')):
                    observed.append(None)  # the task's own result is not visible in the answer
                elif k[0] == 'value':
                    observed.append(['value', k[1], k[2]])
                elif k[0] == 'mixed':
                    observed.append(['mixed', k[1], list(k[2])])
                elif k[:2] == ('error', 'invalid'):
                    observed.append(['error', ['invalid', k[2], k[3]]])
                elif k[0] == 'error':
                    observed.append(['error', k[1]])
                else:
                    observed.append(['odd'])
            verdicts = {}
            for j, pol in enumerate(('always', 'firstCallOnly', 'onSuccessOnly')):
                got = res[3 * n + j]
                verdicts[pol] = got[0] == 'ok' and all(o is None or o == m for o, m in zip(observed, got[1]))
            if verdicts['always']:
                stat['agree_with_model'] += 1
            else:
                explained = [pol for pol, ok in verdicts.items() if ok]
                note = (f"session {plan['sid']}: worker {pid} (instance {inst}, fan-out {fan_of_inst[inst]}) served callers "
                        f"{cs[:12]}; the results are not those of the model with the reset of the code that exists"
                        + (f"; they ARE those of the model with reset policy {explained}" if explained else ''))
                if len(stat['disagree']) < 6:
                    stat['disagree'].append(note)
                if len([x for x in self.notes if x.startswith('worker history')]) < 3:
                    self.notes.append('worker history: ' + note)

    # ---- time-outs are data --------------------------------------------------------------------------------------
    def _stall(self, plan, what, diag=None):
        """something did not happen in time and nothing shows that the implementation lost it: recorded, not judged"""
        rec = {'session': plan.get('sid'), 'kind': plan.get('kind'), 'what': what}
        if diag:
            rec['diagnostics'] = json.loads(json.dumps(diag, default=str)[:6000]) if len(json.dumps(diag, default=str)) <= 6000 \
                else json.dumps(diag, default=str)[:6000]
        self.extra.setdefault('timeouts', []).append(rec)
        if len([n for n in self.notes if n.startswith('time-out')]) < 6:
            self.notes.append(f"time-out (data, not judged): session {plan.get('sid')}: {what}")

    # ---- oracle (from the property text; independent of the model) -----------------------------------------------
    def _oracle(self, plan, trace):
        """-> list of (what, signature, detail)."""
        out = []
        of_app, insts = self._instances(plan)
        reqs = {r['c']: r for b in plan['batches'] for r in b['requests']}
        answers: dict[int, list] = {}
        arrived = set()
        for ev in trace['events']:
            if ev['ev'] == 'arrive':
                arrived.add(ev['c'])
            else:
                answers.setdefault(ev['c'], []).append(ev)
        by_token = {r['token']: c for c, r in reqs.items()}
        for bi, b in enumerate(trace['batches']):
            for c in b['lost']:
                alive = b['alive'] or {}
                diag = b.get('diag') or {}
                if not all(alive.values()):
                    out.append((f'caller {c} was never answered: executor/pool of {[k for k, v in alive.items() if not v]} '
                                f'is dead without any fatal request in the session', 'pool-died',
                                {'c': c, 'batch': bi, 'diag': diag}))
                    continue
                # everything is alive.  Only a quiescent system has lost the response: no task waiting for a worker,
                # no result waiting for the executor thread.  Anything still queued after 90 s is a stall of the
                # environment (starved / wedged process) - a timeout, i.e. a machinery problem, not a verdict.
                queues = [(k, v.get('tasks'), v.get('results')) for k, v in (diag.get('executors') or {}).items()]
                if not queues or any(not isinstance(t, int) or not isinstance(r, int) for _, t, r in queues):
                    self._stall(plan, f"caller {c} unanswered after {plan['batches'][bi]['deadline_s']} s and the queues "
                                      f"cannot be inspected", diag)
                    continue
                if any(t or r for _, t, r in queues):
                    self._stall(plan, f"caller {c} unanswered after {plan['batches'][bi]['deadline_s']} s while tasks / "
                                      f"results are still queued and every process is alive", diag)
                    continue
                out.append((f'caller {c} ({reqs[c]["app"]}, fault={reqs[c]["fault"]}) was not answered within '
                            f'{plan["batches"][bi]["deadline_s"]} s: every executor and pool is alive, no task and no '
                            f'result is queued any more - the response is lost', 'lost-response',
                            {'c': c, 'batch': bi, 'diag': diag}))
        for c in sorted(arrived):
            r = reqs[c]
            got = answers.get(c, [])
            if len(got) > 1:
                out.append((f'caller {c} answered {len(got)} times', 'duplicate-response', {'c': c}))
            if not got:
                continue
            k = self._canon(plan, got[0])
            healthy = r['fault'] is None
            want_inst = of_app[r['appidx']] if r['appidx'] < len(of_app) else None
            if r['fault'] in WANT:
                want = WANT[r['fault']]
            elif r['fault'] == 'refused':
                want = ('error', 'invalid', r['token'], r['branch'])
            else:
                want = ('value', want_inst, r['token'], r['rows'])
            if 'status' in got[0]:  # through the REST gateway: the status code has to be the one of the caller's own outcome
                code = {'value': 200, 'unsupported': 415, 'missingApp': 404, 'missingFeatures': 404, 'invalid': 400}[
                    want[0] if want[0] == 'value' else want[1]]
                if got[0]['status'] != code:
                    out.append((f'caller {c} ({r["app"]}, fault={r["fault"]}) received HTTP status {got[0]["status"]} instead of '
                                f'{code}', f'wrong-http-status:{code}->{got[0]["status"]}',
                                {'c': c, 'got': got[0]['status'], 'want': code}))
            if k == want:
                if k[0] == 'value' and got[0].get('enc') != r['accept']:
                    out.append((f'caller {c} accepts {r["accept"]} and was answered in {got[0].get("enc")} '
                                f'(the encoding another request asked for)', 'crossed-accept',
                                {'c': c, 'got': got[0].get('enc'), 'want': r['accept']}))
                continue
            d = {'c': c, 'got': list(k), 'want': list(want)}
            if k[0] == 'mixed':
                others = sorted({by_token.get(t) for t in k[2] if t != r['token']}, key=str)
                out.append((f'caller {c} (token {r["token"]}) received a response whose branches were computed on the '
                            f'data of different requests: tokens per branch {list(k[2])} (callers {others} besides its own)',
                            'crossed-payload', d))
            elif k[:2] == ('error', 'invalid') and k[2] != r['token']:
                other = by_token.get(k[2])
                out.append((f'caller {c} (token {r["token"]}, {"healthy" if healthy else "fault=" + str(r["fault"])}) received '
                            f'the failure of caller {other} (token {k[2]}, refused by branch {k[3]})',
                            'crossed-failure', d))
            elif k[0] == 'value' and k[2] != r['token']:
                other = by_token.get(k[2])
                out.append((f'caller {c} (token {r["token"]}) received the outcome of caller {other} (token {k[2]})',
                            'crossed-payload', d))
            elif k[0] == 'value' and healthy and k[1] != want_inst:
                out.append((f'caller {c} ({r["app"]}) was served by instance {insts[k[1]]} instead of the selected '
                            f'{insts[want_inst]}', 'wrong-instance', d))
            elif k[0] == 'value' and healthy and k[3] != r['rows']:
                out.append((f'caller {c} sent {r["rows"]} rows and received {k[3]}', 'row-count', d))
            elif k[0] == 'value':
                out.append((f'caller {c} with fault {r["fault"]} received a prediction instead of its platform error',
                            'failure-not-reported', d))
            elif k == ('error', 'brokenPool'):
                before = sorted((x for x in arrived if reqs[x]['fault'] and x != c
                                 and answers.get(x) and answers[x][0]['seq'] <= got[0]['seq']),
                                key=lambda x: answers[x][0]['seq'])
                first = [x for x in before if self._canon(plan, answers[x][0]) == ('error', 'brokenPool')][:1]
                out.append((f'caller {c} ({r["app"]}, {"healthy" if healthy else "fault=" + str(r["fault"])}) failed with '
                            f'BrokenProcessPool: the process pool of Wrapper.respond, shared by all applications, is broken - a '
                            f'platform-level failure did not fail alone ('
                            + (f'the first call that came back broken was the failing request {first[0]}, fault='
                               f'{reqs[first[0]]["fault"]}' if first else
                               f'failing requests answered before: {[(x, reqs[x]["fault"]) for x in before][-4:]}') + ')',
                            'isolation:respond-pool-broken', d))
            elif k == ('error', 'missingApp') and r['fault'] != 'unknownApp':
                out.append((f'caller {c}: known application {r["app"]} reported as not found '
                            f'("{got[0]["msg"][:60]}") while another first request was updating the descriptor cache',
                            KNOWN_APP_MISSING, d))
            elif k[0] == 'error' and healthy:
                out.append((f'healthy caller {c} failed with {k[1]} ({got[0].get("msg", "")[:60]})',
                            f'healthy-request-failed:{k[1]}', d))
            elif k[0] == 'error':
                out.append((f'caller {c} with fault {r["fault"]} got {k[1]} instead of {want[1]}',
                            f'wrong-error:{want[1]}->{k[1]}', d))
            else:
                sig = ('wrong-instance-label' if k[1].startswith('response.instance') else
                       'mixed-rows' if k[1].startswith('rows of several') else
                       'unknown-state' if k[1].startswith('state ') else 'odd-response:' + k[1].split(':')[0][:40])
                out.append((f'caller {c}: {k[1]}', sig, d))
        return out

    # ---- correspondence ------------------------------------------------------------------------------------------
    def _witness(self, plan, detail, trace=None):
        keep = ('c', 'appidx', 'app', 'enc', 'accept', 'body', 'rows', 'token', 'delay', 'fault', 'branch', 'arrival_ms',
                'inst')
        slim = {k: plan[k] for k in ('kind', 'projects', 'apps', 'processes', 'gate_list', 'pinned', 'coldfork', 'hang_s')
                if k in plan}
        if 'race' in plan:
            slim['race'] = plan['race']
        slim['batches'] = [{'deadline_s': b['deadline_s'], 'requests': [{k: r[k] for k in keep if k in r}
                                                                       for r in b['requests']]}
                           for b in plan['batches']]
        if plan['kind'] == 'ctl':
            # the schedule that was actually driven is part of the witness: the replay performs the same actions
            done = (trace or {}).get('rounds', [])
            slim['rounds'] = [dict({k: r[k] for k in ('seed', 'style', 'weights', 'order', 'burst')},
                                   requests=slim['batches'][i]['requests'],
                                   actions=done[i]['performed'] if i < len(done) else None)
                              for i, r in enumerate(plan['rounds'])]
            if detail:
                bi = detail.get('batch', next((i for i, b in enumerate(plan['batches'])
                                               if any(r['c'] == detail.get('c') for r in b['requests'])), None))
                if bi is not None:  # rounds after the failing one are not needed
                    slim['rounds'], slim['batches'] = slim['rounds'][:bi + 1], slim['batches'][:bi + 1]
        elif plan['kind'] == 'serial' and detail and 'c' in detail:
            # one request at a time: what comes after the failing one is not needed
            bi = next((i for i, b in enumerate(plan['batches']) if any(r['c'] == detail['c'] for r in b['requests'])), None)
            if bi is not None:
                slim['batches'] = slim['batches'][:bi + 1]
        return {'kind': 'session', 'plan': slim, 'detail': detail}

    def _judge(self, plan, trace, account=True):
        """validate the trace against the model, run the oracle; returns the oracle findings."""
        cfg = self._cfg_sexp(plan, locked=True)
        events = self._events_sexp(plan, trace)
        ncallers = len(cfg[1])
        lines = [sexp.dumps(['validate', cfg, events])]
        if ncallers <= 48:  # the random scheduler re-evaluates every candidate step: small sessions only
            lines.append(sexp.dumps(['random', cfg, self.rng.randrange(1 << 30), 100000]))
        answers = [sexp.num(sexp.loads(a)) for a in self.model(lines)]
        verdict, rnd = answers[0], (answers[1] if len(answers) > 1 else None)
        findings = self._oracle(plan, trace)
        lost = [c for b in trace['batches'] for c in b['lost']]
        observed = sorted((e[1], e[2]) for e in events if e[0] == 'answer')
        if plan.get('gateway'):  # the model's gateway mapping gives the status codes and instance headers observed
            pairs = [(ev, e[2]) for ev, e in zip([x for x in sorted(trace['events'], key=lambda x: x['seq'])
                                                  if x['ev'] == 'answer'], [e for e in events if e[0] == 'answer'])
                     if e[2] != ['error', 'odd']]
            if pairs:
                got = sexp.num(sexp.loads(self.model([sexp.dumps(['http', [o for _, o in pairs]])])[0]))
                for (ev, o), m in zip(pairs, got[1] if got[0] == 'ok' else []):
                    served = m[1] if m[1] != 'none' else None
                    inst = o[1] if o[0] in ('value', 'mixed') else None
                    if ev.get('status') != m[0] or served != inst:
                        self.diverge(f"REST gateway: caller {ev['c']} got status {ev.get('status')}, the model's mapping of its "
                                     f"outcome {o} gives {m}", self._witness(plan, {'c': ev['c']}, trace), ev.get('status'), m)
                        break
        if verdict[0] != 'ok':
            self.diverge(f"trace of session {plan['sid']} is not the projection of a model schedule: {verdict}",
                         self._witness(plan, None, trace), {'events': events[:200]}, verdict)
        else:
            model_answers = sorted((a[0], a[1]) for a in verdict[2])
            if not lost and (model_answers != observed or verdict[1] != 'true'):
                self.diverge(f"model answers differ from the observed ones in session {plan['sid']}",
                             self._witness(plan, None, trace), observed[:50], [verdict[1], model_answers[:50]])
            # schedule independence: a pseudo-random complete model schedule gives the same answers
            if rnd is not None and (rnd[0] != 'ok' or rnd[1] != 'true'
                                    or (not lost and sorted((a[0], a[1]) for a in rnd[3]) != observed)):
                self.diverge(f"pseudo-random complete model schedule disagrees with session {plan['sid']}",
                             self._witness(plan, None), observed[:50], rnd[:3])
        if account:
            ans = {}
            for ev in trace['events']:
                if ev['ev'] == 'answer':
                    ans[ev['c']] = ev
            if plan['kind'] == 'serial':
                reqs = [r for b in plan['batches'] for r in b['requests']]
                letters = ''.join({None: 'H', 'refused': 'F', 'missingColumn': 'M'}.get(r['fault'], '?') for r in reqs)
                shapes = [p.get('shape') for p in plan['projects']]
                key = ('serial', plan['processes'], tuple(shapes),
                       tuple((r['appidx'], r['fault'], r.get('branch'), r['rows'], r['enc']) for r in reqs))
                self.case(key, f"serial pool={plan['processes']} fan={max(len(sh) for sh in shapes)} n={len(reqs)}",
                          nontrivial='FH' in letters or 'FMH' in letters or 'FFH' in letters,
                          sample={'session': plan['sid'], 'pool': plan['processes'], 'shapes': shapes, 'sequence': letters,
                                  'answers': [self._canon(plan, ans[r['c']]) for r in reqs[:8] if r['c'] in ans]})
            for bi, b in enumerate(plan['batches'] if plan['kind'] != 'serial' else []):
                reqs = b['requests']
                n = len(reqs)
                nf = sum(1 for r in reqs if r['fault'])
                bucket = '1' if n == 1 else '2-4' if n <= 4 else '5-16' if n <= 16 else '17-64'
                if bi >= len(trace['batches']):
                    continue  # the session stopped before this batch / round
                performed = tuple(map(tuple, trace['rounds'][bi]['performed'])) if plan['kind'] == 'ctl' else ()
                key = (plan['kind'], plan['processes'], tuple((r['appidx'], r['fault'], r['rows'], r['delay'],
                                                              r['arrival_ms'], r['enc']) for r in reqs),
                       tuple(map(str, self._instances(plan)[0])), performed)
                # answer order vs arrival order: is the batch really interleaved?
                order = [e['c'] for e in trace['events'] if e['ev'] == 'answer' and reqs[0]['c'] <= e['c'] <= reqs[-1]['c']]
                arr = [e['c'] for e in trace['events'] if e['ev'] == 'arrive' and reqs[0]['c'] <= e['c'] <= reqs[-1]['c']]
                kind = plan['kind'] if plan['kind'] != 'ctl' else f"ctl/{plan['rounds'][bi]['style']}"
                sample = {'session': plan['sid'], 'pool': plan['processes'], 'apps': plan['apps'], 'batch': bi,
                          'n': n, 'faults': nf, 'arrival': arr[:12], 'answered': order[:12],
                          'first': [self._canon(plan, ans[c]) for c in arr[:4] if c in ans]}
                if plan['kind'] == 'ctl':
                    sample['schedule'] = [f'{a[0]} {a[1]}' for a in performed[:40]]
                self.case(key, f"{kind} n={bucket} pool={plan['processes']} apps={len(plan['apps'])} "
                               f"faults={'y' if nf else 'n'} reordered={'y' if order != arr else 'n'}",
                          nontrivial=n >= 2 and nf < n, sample=sample)
        return findings

    def _plans(self):
        plans = []
        nsessions, nbatches = (7, 3) if self.quick else (52, 6)
        for i in range(nsessions):
            sizes = None
            if i == 0:
                sizes = [64, 1, 32, 48, 2, 16][:nbatches]  # the extremes of the quantifier always occur
            plans.append(self._session(f'r{i}', nbatches, sizes=sizes, processes=[1, 2, 3, 4][i % 4] if i < 4 else None))
        plans.append(self._positions_session('pos0'))
        # one worker's history: fail -> healthy, healthy -> fail -> healthy, ... one request at a time on forking pipelines
        for i in range(self.n(3, 24)):
            plans.append(self._serial_session(f'ser{i}', processes=1 if i == 0 else None))
        for i in range(self.n(1, 8)):  # through the REST gateway
            plans.append(self._gateway_session(f'gw{i}', self.n(2, 4)))
        for i in range(self.n(1, 6)):  # every fault kind followed by healthy requests on every shared pool
            plans.append(self._aftermath_session(f'after{i}', gateway=bool(i % 2)))
        if not self.quick:
            plans.append(self._positions_session('pos1'))
            plans.append(self._positions_session('pos2'))
        return plans

    def _ctl_plans(self):
        nsessions, nrounds, nrace = (6, 12, 2) if self.quick else (100, 30, 8)
        plans = [self._ctl_race_session(f'crace{i}') for i in range(nrace)]
        # successive requests pinned onto one worker of a multi-worker pool by the schedule
        plans += [self._ctl_pin_session(f'cpin{i}', processes=[2, 3][i % 2] if i < 2 else None)
                  for i in range(self.n(2, 16))]
        # a second executor created while the first one's thread receives a result
        # (quick tier: the listed witness of finding C16-F2 is such a session and is replayed on every run anyway)
        plans += [self._coldfork_session(f'cold{i}') for i in range(self.n(0, 4))]
        for i in range(nsessions):
            sizes = None
            if i == 0:  # the extremes of the quantifier always occur, on the largest pool
                sizes = ([64, 1, 32, 2] + [self.rng.choice([3, 4, 6, 8]) for _ in range(nrounds)])[:nrounds]
            plans.append(self._ctl_session(f'c{i}', nrounds, sizes=sizes,
                                           processes=4 if i == 0 else [1, 2, 3][i % 3] if i < 4 else None))
        return plans

    def _transport_tie(self):
        """the model's assumption `Env.transportable = everything` (envOf) against the code: the platform errors the
        engine produces in a pool process are pickled there and rebuilt in the engine process - do the real ones
        survive that?  A class that does not is a divergence from the model (the sessions then show what it does to the
        callers)."""
        import pickle
        report = {}
        try:
            import forml
            from forml.io import layout
            probes = {
                'unsupported (no encoder: Wrapper._pack, process pool)':
                    lambda: layout.get_encoder(layout.Encoding('c16/none'), layout.Encoding('c16/other')),
                'unsupported (no decoder: Wrapper._dispatch, thread pool)': lambda: layout.get_decoder(layout.Encoding('c16/none')),
                'missingFeatures / missingApp (forml.MissingError)': lambda: (_ for _ in ()).throw(forml.MissingError('c16')),
                'invalid (forml.InvalidError, worker -> manager queue)': lambda: (_ for _ in ()).throw(forml.InvalidError('c16')),
            }
        except Exception as err:  # pylint: disable=broad-except
            self.notes.append(f'transport tie not run: {type(err).__name__}: {err}')
            return
        for what, raiser in probes.items():
            try:
                raiser()
                report[what] = 'no exception raised'
                continue
            except BaseException as err:  # pylint: disable=broad-except
                original = err
            try:
                back = pickle.loads(pickle.dumps(original))
                same = type(back) is type(original) and str(back) == str(original)
                report[what] = 'transportable' if same else f'changed in transport: {type(back).__name__}({back})'
            except BaseException as err:  # pylint: disable=broad-except
                report[what] = f'NOT transportable: {type(original).__name__}({original}) -> {type(err).__name__}: {err}'[:300]
        self.extra['error_transport'] = report
        broken = {k: v for k, v in report.items() if v != 'transportable'}
        if broken:
            self.diverge('the model takes every platform error value for transportable across the pool-process boundaries '
                         '(C16_respond_pool_isolation); these are not: ' + json.dumps(broken), {'kind': 'transport'},
                         broken, 'transportable')

    def correspondence(self):
        try:
            self._transport_tie()
            plans = self._plans()
            race = [self._race_session('race-same', True), self._race_session('race-two', False)]
            fatal = self._fatal_session('fatal')
            everything = self._ctl_plans() + race + [fatal, self._after_stop_session('fatal-after')] + plans
            # 6 engines at a time (each up to 3 executors x (manager + pool + <=4 workers)); nothing in a session
            # depends on how fast it runs
            # the witnesses of the listed findings are sessions too: they run alongside (replay_finding picks the traces up)
            listed = [e for e in fw._load_findings(self.ID) if (e.get('witness') or {}).get('kind') == 'session']
            replays = [dict(e['witness']['plan'], sid=f"replay-{e['id']}") for e in listed]
            traces = self._run_sessions(everything + replays, parallel=self.n(6, 7))
            self._prefetched = {e['id']: (plan, trace) for e, plan, trace in zip(listed, replays, traces[len(everything):])}
            traces = traces[:len(everything)]
            walls, found, timed_out = [], [], 0
            for plan, trace in zip(everything, traces):
                walls.append(trace['wall'])
                if plan['kind'] == 'coldfork':
                    self._record_coldfork(plan, trace)
                    sig = self._deadlock_signature(trace)
                    if sig:
                        found.append((0, len(found), self._coldfork_what(plan), LOOP_BLOCKED, {'diagnosis': sig}, plan, trace))
                        continue
                if trace.get('timeout'):
                    timed_out += 1
                    self._stall(plan, trace['timeout'], {k: (trace[k][-3000:] if k == 'stderr_tail' else trace[k])
                                                        for k in ('hung', 'stderr_tail', 'flags', 'flag_notes') if k in trace})
                if plan['kind'] == 'fatal':
                    if not trace.get('timeout'):
                        self._record_fatal(plan, trace)
                    continue
                # a session that timed out is not compared with the model (its trace is not complete), but the answers
                # it did give are behaviour of the real code: the oracle judges them
                for what, sig, detail in (self._oracle(plan, trace) if trace.get('timeout')
                                          else self._judge(plan, trace, account=True)):
                    # size of the witness = all requests up to and including the round of the failing caller
                    upto = next((i for i, b in enumerate(plan['batches'])
                                 if any(r['c'] == (detail or {}).get('c') for r in b['requests'])), len(plan['batches']) - 1)
                    size = sum(len(b['requests']) for b in plan['batches'][:upto + 1])
                    found.append((size + 1000 * (plan['kind'] != 'ctl'), len(found), what, sig, detail, plan, trace))
                self._aftermath_coverage(plan, trace)
                if trace.get('timeout'):
                    continue
                if plan['kind'] == 'race':
                    self._record_race(plan, trace)
                if plan['kind'] == 'ctl':
                    self._follow(plan, trace)
                if plan['kind'] in ('ctl', 'serial'):
                    self._worker_histories(plan, trace)
            if 2 * timed_out > len(everything):
                raise fw.MachineryError(f'{timed_out} of {len(everything)} sessions timed out: too little was observed to '
                                        f'answer (see evidence timeouts)')
            found = self._confirm_losses(found)
            found = self._shrink_serial(found)
            # per root cause the framework reports the first violation: offer the smallest failing rounds first
            # (controlled ones before timed ones: their witness carries the schedule)
            for _, _, what, sig, detail, plan, trace in sorted(found, key=lambda f: f[:2]):
                self.violate(what, self._witness(plan, detail, trace) if plan['kind'] != 'race'
                             else {'kind': 'descriptor-race', 'same_app': plan['race']['same_app']}, sig, detail)
            self.extra['sessions'] = len(everything)
            self.extra['requests'] = sum(len(b['requests']) for p in everything for b in p['batches'])
            self.extra['session_wall_s'] = {'max': max(walls), 'sum': round(sum(walls), 1)}
            self.extra['slowest_answer_s'] = max((e['t'] for t in traces for e in t['events'] if e['ev'] == 'answer'),
                                                 default=0)
            if not self.quick:
                self._planted_divergence(everything, traces)
        finally:
            self._cleanup()

    LOSS = ('lost-response', 'pool-died')

    def _shrink_serial(self, found):
        """failing one-request-at-a-time sessions: which of the requests before the failing one are needed?  The last
        k = 2, 3, 4 requests up to the failing one are run again as sessions of their own (real engine, fresh
        registry); the shortest one that fails in the same way replaces the witness."""
        done = set()
        out = []
        for f in sorted(found, key=lambda f: f[:2]):
            size, n, what, sig, detail, plan, trace = f
            if plan['kind'] != 'serial' or sig in done or not detail or 'c' not in detail or sig in self.LOSS:
                out.append(f)
                continue
            done.add(sig)
            bi = next(i for i, b in enumerate(plan['batches']) if any(r['c'] == detail['c'] for r in b['requests']))
            cands = []
            for k in (2, 3, 4):
                if k <= bi:
                    sub = dict(plan, sid=f"{plan['sid']}-last{k}", batches=plan['batches'][bi + 1 - k:bi + 1])
                    apps = {r['appidx'] for b in sub['batches'] for r in b['requests']}
                    if len(apps) == 1:  # one application is enough: the others are not even published
                        sub = self._only_app(sub, apps.pop())
                    cands.append(sub)
            best = None
            if cands:
                try:
                    for sub, tr in zip(cands, self._run_sessions(cands, parallel=3)):
                        hit = [x for x in self._oracle(sub, tr) if x[1] == sig]
                        if hit:
                            best = (sum(len(b['requests']) for b in sub['batches']) + 1000, n, hit[0][0], sig, hit[0][2], sub, tr)
                            break
                except fw.MachineryError as err:
                    self.notes.append(f'shrinking {plan["sid"]}: {str(err)[:200]}')
            if best:
                self.notes.append(f"witness of '{sig}' shrunk from {bi + 1} to {len(best[5]['batches'])} requests")
            out.append(best or f)
        return out

    @staticmethod
    def _only_app(plan, appidx):
        """the same serial session over the one application its requests use"""
        app = plan['apps'][appidx]
        projects = [p for p in plan['projects'] if p['name'] == app['project']]
        batches = [{'deadline_s': b['deadline_s'], 'requests': [dict(r, appidx=0, app='app0') for r in b['requests']]}
                   for b in plan['batches']]
        return dict(plan, apps=[dict(app, name='app0')], projects=projects, batches=batches)

    @staticmethod
    def _coldfork_what(plan):
        cold = plan['batches'][1]['requests'][-1]
        return (f"no caller is answered any more: the event loop is blocked for ever inside Executor.apply "
                f"(manager-queue put) of the executor just created for {cold['app']} - its manager process was forked "
                f"while another executor's thread was importing the package `forml` again (forml.setup._importer._unloaded "
                f"drops `forml` from sys.modules for good when an optional project component does not exist), inherited "
                f"the import lock in the locked state and dead-locks when it unpickles the first task")

    def _record_coldfork(self, plan, trace):
        info = trace.get('coldfork') or ((trace.get('hung') or {}).get('state') or {}).get('coldfork') or {}
        self.extra.setdefault('coldfork', []).append({
            'session': plan['sid'], 'pool': plan['processes'], 'finished': not trace.get('timeout'),
            'cold_components_loaded_by_loop_thread': info.get('window'),
            'forml_in_sys_modules_when_manager_is_forked': info.get('forml_loaded_at_fork'),
            'another_thread_inside_import_of_forml': info.get('other_inside'), 'threads_importing_forml': info.get('importers'),
            'deadlock_diagnosed': bool(self._deadlock_signature(trace))})

    def _confirm_losses(self, found):
        """An unanswered caller is the one verdict that rests on waiting.  Before it is reported the session is run
        again (controlled sessions: the same actions): a response the implementation loses is lost again; a stall
        that does not come back (starved machine, wedged child process) is a timeout - machinery, not a verdict."""
        suspects = {}
        for f in found:
            if f[3] in self.LOSS:
                suspects.setdefault(f[5]['sid'], f)
        if not suspects:
            return found
        confirmed, unreproduced = set(), []
        # the smallest suspects first; one reproduction is enough (the others stand with it), three tries at most
        for sid, (_, _, what, sig, detail, plan, trace) in sorted(suspects.items(), key=lambda kv: kv[1][:2])[:3]:
            if confirmed:
                break
            again = dict(self._witness(plan, detail, trace)['plan'], sid=f'{sid}-again')
            for attempt in (1, 2):
                try:
                    repeat = [f for f in self._oracle(again, self._run_session(again)) if f[1] in self.LOSS]
                except fw.MachineryError as err:
                    repeat = []
                    self.notes.append(f'confirmation run {attempt} of session {sid}: {str(err)[:300]}')
                if repeat:
                    confirmed.add(sid)
                    self.notes.append(f'loss in session {sid} ({what[:80]}) reproduced in confirmation run {attempt}')
                    break
            else:
                unreproduced.append(f'session {sid}: {what}; not reproduced by 2 more runs of the same session; '
                                    f'diagnostics: {json.dumps((detail or {}).get("diag"))[:1500]}')
        kept = [f for f in found if f[3] not in self.LOSS or confirmed]
        for u in unreproduced:  # a stall that does not come back is a time-out: data, not a verdict
            self._stall({'sid': u.split(':')[0]}, 'unreproduced stall: ' + u[:2500])
        return kept

    def _record_race(self, plan, trace):
        """explain the race trace with both model variants (evidence only)."""
        events = self._events_sexp(plan, trace)
        lines = [sexp.dumps(['validate', self._cfg_sexp(plan, locked=lk), events]) for lk in (False, True)]
        unlocked, locked = (sexp.loads(a)[0] for a in self.model(lines))
        self.extra.setdefault('descriptor_race', []).append({
            'same_app': plan['race']['same_app'], 'inventory_double': trace.get('race_log'),
            'answers': [e[1:] for e in events if e[0] == 'answer'],
            'accepted_by_unlocked_model': unlocked == 'ok', 'accepted_by_locked_model': locked == 'ok'})

    def _record_fatal(self, plan, trace):
        ans = {e['c']: self._canon(plan, e) for e in trace['events'] if e['ev'] == 'answer'}
        lost = [b['lost'] for b in trace['batches']]
        if plan.get('after_stop'):
            later = [('refused: ' + ans[c][1]) if c in ans and ans[c][0] == 'error' else ('answered: ' + str(ans[c])) if c in ans
                     else 'accepted and never answered (executor thread still alive)' if any(c in l for l in lost)
                     else 'not sent' for c in (2, 3)]
            self.case(('after-stop', str(ans.get(1)), str(later)), 'after-stop (behaviour only)', nontrivial=False)
            self.extra['after_stop_behaviour'] = {
                'note': 'request 1 raises ValueError in the actor (outside the fault class) and stops the pool; requests 2, 3 are '
                        'sent one after the other right after its answer: recorded, not judged (model: lateSubmit / exit, '
                        'C16_late_refusal_partial / _counterexample)',
                'fatal_request': list(ans.get(1, ('unanswered',))), 'later_requests': later}
            if ans.get(0, ('?',))[0] != 'value':
                self.violate(f'first healthy request of the after-stop session failed: {ans.get(0)}', self._witness(plan, None),
                             'healthy-request-failed:pre-fatal')
            return
        self.case(('fatal', str(ans), str(lost)), 'fatal (behaviour only)', nontrivial=False)
        self.extra['fatal_behaviour'] = {
            'note': 'request 2 raises ValueError in the actor (outside the fault class): recorded, not judged',
            'answers': {str(c): list(k) for c, k in sorted(ans.items())}, 'never_answered_per_batch': lost,
            'alive_after': [b['alive'] for b in trace['batches']]}
        if ans.get(0, ('?',))[0] != 'value':
            self.violate(f'first healthy request of the fatal session failed: {ans.get(0)}', self._witness(plan, None),
                         'healthy-request-failed:pre-fatal')

    def _planted_divergence(self, plans, traces):
        """self-test of the tie: a trace with two answers swapped must be rejected by the model."""
        for plan, trace in zip(plans, traces):
            if plan['kind'] != 'random':
                continue
            events = self._events_sexp(plan, trace)
            vals = [i for i, e in enumerate(events) if e[0] == 'answer' and e[2][0] == 'value']
            pair = next(((i, j) for i in vals for j in vals if i < j and events[i][2] != events[j][2]), None)
            if pair is None:
                continue
            i, j = pair
            events[i], events[j] = ['answer', events[i][1], events[j][2]], ['answer', events[j][1], events[i][2]]
            verdict = sexp.loads(self.model([sexp.dumps(['validate', self._cfg_sexp(plan), events])])[0])
            if verdict[0] == 'ok':
                raise fw.MachineryError('planted crossed responses were accepted by the model driver')
            self.notes.append('planted divergence (two responses crossed) rejected by the model driver: ' + verdict[1])
            return

    # ---- failing-input search / replay --------------------------------------------------------------------------
    def search(self, reason):
        """re-run the diverging sessions (three fresh runs each: the interleaving differs) plus denser fault
        mixes around them; the oracle on the real trace decides."""
        if self.violations:
            self.notes.append(f'failing-input search ({reason}): not needed, the oracle already has failing inputs')
            return
        try:
            seeds = [d.case['plan'] for d in self.divergences if isinstance(d.case, dict) and 'plan' in d.case][:4]
            plans = []
            for n, p in enumerate(seeds):
                for rep in range(3):
                    plans.append(dict(p, sid=f'again{n}-{rep}'))
            for i in range(self.n(4, 16)):
                plans.append(self._session(f'wide{i}', 4, faultrate=0.4))
            for i in range(self.n(3, 12)):
                plans.append(self._serial_session(f'wser{i}'))
            for i in range(self.n(2, 6)):
                plans.append(self._aftermath_session(f'wafter{i}', gateway=bool(i % 2)))
            traces = self._run_sessions(plans, parallel=5)
            for plan, trace in zip(plans, traces):
                for what, sig, detail in self._oracle(plan, trace):
                    self.violate(what, self._witness(plan, detail), sig, detail)
            self.notes.append(f'failing-input search ({reason}): {len(plans)} sessions re-run / widened')
        finally:
            self._cleanup()

    def replay_finding(self, entry):
        w = entry['witness']
        try:
            if w.get('kind') == 'descriptor-race':
                plan = self._race_session('replay-race', bool(w.get('same_app', True)))
            elif w.get('kind') == 'session':
                plan = dict(w['plan'], sid='replay')
            else:
                return None
            if entry.get('id') in getattr(self, '_prefetched', {}):  # already run, alongside the correspondence sessions
                plan, trace = self._prefetched.pop(entry['id'])
            else:
                trace = self._run_session(plan)
            if plan.get('kind') == 'coldfork':
                self._record_coldfork(plan, trace)
                diag = self._deadlock_signature(trace)
                if diag and entry.get('signature') in (None, LOOP_BLOCKED):
                    return fw.Violation(self._coldfork_what(plan), w, LOOP_BLOCKED, {'diagnosis': diag})
            for what, sig, detail in self._oracle(plan, trace):
                if entry.get('signature') in (None, sig):  # a listed entry is about one root cause only
                    return fw.Violation(what, w, sig, detail)
            return None
        finally:
            self._cleanup()


if __name__ == '__main__':
    raise SystemExit(fw.run(C16))
