"""C06 — statement / storage-content generators and the reference evaluator (the oracle).

ASTs are those of `props.dslgen` (nested tuples in the wire format of lean/ForML/Model/Dsl.lean); real forml objects
are built from them with `dslgen.Builder` (public DSL API only).  This module adds what C06 needs on top:

    CATALOG / PHYS                a 3-table catalog with NULL-able columns, a self-referencing key (Person.boss) and a
                                  twin pair with equal schemas (Dept / Unit), and the physical table names
    Gen6(rng).statement()         well-formed statements over the modelled operator set: projection, aliases,
                                  expressions, where / having, group + aggregates, order, limit / offset, every join
                                  kind, references (self-joins), nested statements (references to queries and sets),
                                  set operations
    gen_db(rng)                   random storage content (0..6 rows per table, NULLs, empty tables)
    denote(stmt, db)              the reference evaluator written from the DSL documentation — independent of the
                                  Lean model and of the parser: rows are environments {(origin, name): value}, elements
                                  are resolved structurally; returns an `Expected` that knows which row orders are
                                  admissible (ties, NULL placement, LIMIT windows)
    shrink_candidates(stmt)       smaller statements for the failing-input search

Values: int, str, bool, None (NULL).  Outside: floats, dates, Cast, division / modulus, Avg, Ceil / Floor, Year, windows.
"""
from __future__ import annotations

import collections
import itertools
import typing

from props import dslgen

# ---- catalog --------------------------------------------------------------------------------------------------
PERSON = ('table', 'Person', (('id', 'integer'), ('name', 'string'), ('age', 'integer'), ('boss', 'integer'),
                              ('active', 'boolean')))
DEPT = ('table', 'Dept', (('id', 'integer'), ('name', 'string'), ('head', 'integer')))
#: same leading columns as Dept (set operations between the two), one more column: tables with *identical* field lists
#: compare equal in the DSL (Schema.__eq__ is structural) and are confused by lazy feeds — C08's subject, avoided here
UNIT = ('table', 'Unit', (('id', 'integer'), ('name', 'string'), ('head', 'integer'), ('size', 'integer')))
CATALOG = (PERSON, DEPT, UNIT)
#: physical table names (deliberately not the schema names)
PHYS = {'Person': 'people', 'Dept': 'dept', 'Unit': 'unit_tbl'}
TWIN = {DEPT: UNIT, UNIT: DEPT}
REF_NAMES = ('p', 'q', 'r', 's', 'sub', 'u', 'v')
ALIASES = ('x', 'y', 'z', 'n', 'total', 'k', 'm', 'w')
INT_LITS = (0, 1, 2, 3, 5, -1, 10)
STR_LITS = ('a', 'b', 'c', 'zz')

CMP = ('lt', 'le', 'gt', 'ge', 'eq', 'ne')
ARITH = ('add', 'sub', 'mul')
AGGS = ('count', 'sum', 'min', 'max')


def sources_sexp():
    """`Feed.sources` for the model: ((table-ast physical-name) ...)"""
    return tuple((t, PHYS[t[1]]) for t in CATALOG)


def with_let(line):
    return ('let', tuple((t[1], t) for t in CATALOG), line)


def short(ast):
    if isinstance(ast, tuple):
        if ast in CATALOG:
            return '$' + ast[1]
        return tuple(short(a) for a in ast)
    return ast


# ---- static helpers on ASTs ------------------------------------------------------------------------------------
def out_columns(stmt) -> list:
    """[(name|None, kind)] of the output columns a statement / origin denotes (documented model: a set has the columns
    of its left operand)."""
    tag = stmt[0]
    if tag == 'table':
        return [(n, k) for n, k in stmt[2]]
    if tag == 'ref':
        return out_columns(stmt[1])
    if tag == 'join':
        return out_columns(stmt[1]) + out_columns(stmt[2])
    if tag == 'set':
        return out_columns(stmt[1])
    if tag == 'query':
        if stmt[2]:
            return [(dslgen.name_of(f), kind6(f)) for f in stmt[2]]
        return out_columns(stmt[1])
    raise ValueError(stmt)


def avail(src) -> list:
    """[(element ast, kind)] addressable on an origin (table / reference / join)."""
    tag = src[0]
    if tag == 'table':
        return [(('elem', src, n), k) for n, k in src[2]]
    if tag == 'ref':
        return [(('elem', src, n), k) for n, k in out_columns(src[1]) if n is not None]
    if tag == 'join':
        return avail(src[1]) + avail(src[2])
    raise ValueError(src)


def kind6(f) -> str:
    tag = f[0]
    if tag == 'lit':
        return {'int': 'integer', 'bool': 'boolean', 'str': 'string'}[f[1][0]]
    if tag == 'elem':
        for e, k in avail(f[1]):
            if e == f:
                return k
        raise ValueError(f'unknown element {f}')
    if tag == 'alias':
        return kind6(f[1])
    if tag == 'expr':
        op = f[1]
        if op in CMP or op in ('isnull', 'notnull', 'and', 'or', 'not'):
            return 'boolean'
        if op in ARITH or op in ('abs', 'count'):
            return 'integer'
        if op in ('sum', 'min', 'max'):
            return kind6(f[2])
    raise ValueError(f)


def has_agg(f) -> bool:
    return any(g[0] == 'expr' and g[1] in AGGS for g in dslgen.subfeatures(f))


def leaves(src) -> list:
    """origins of a FROM tree (tables and references; a reference hides what it wraps)"""
    if src[0] == 'join':
        return leaves(src[1]) + leaves(src[2])
    return [src]


def qual(origin) -> str:
    return PHYS[origin[1]] if origin[0] == 'table' else origin[2]


def subsources(stmt):
    """all source nodes (pre-order), descending through references, joins, sets, queries and element origins are NOT
    followed (they repeat the FROM tree)"""
    yield stmt
    tag = stmt[0]
    if tag == 'ref':
        yield from subsources(stmt[1])
    elif tag in ('join', 'set'):
        yield from subsources(stmt[1])
        yield from subsources(stmt[2])
    elif tag == 'query':
        yield from subsources(stmt[1])


def shape(stmt) -> str:
    """coarse histogram key of a statement"""
    tags = collections.Counter()
    for s in subsources(stmt):
        if s[0] == 'join':
            tags['join-' + s[3]] += 1
        elif s[0] == 'set':
            tags[s[3]] += 1
        elif s[0] == 'ref':
            tags['ref-' + s[1][0]] += 1
        elif s[0] == 'query':
            if s[4]:
                tags['group'] += 1
            elif any(has_agg(f) for f in s[2]):
                tags['agg'] += 1
            if s[3] is not None:
                tags['where'] += 1
            if s[5] is not None:
                tags['having'] += 1
            if s[6]:
                tags['order'] += 1
            if s[7] is not None:
                tags['limit'] += 1
            if not s[2]:
                tags['select-all'] += 1
    return '+'.join(sorted(tags)) or 'plain'


def engine_limits(stmt) -> set:
    """Static reasons why an engine cannot run SQLAlchemy's rendering of a (well-formed) statement — engine / renderer
    behaviour outside the property:
      'sqlite-nested-compound'  a set operand that is itself a set, or a query with ORDER BY / LIMIT, is rendered in
                                parentheses, which SQLite's compound SELECT grammar refuses"""
    out = set()
    for s in subsources(stmt):
        if s[0] == 'set':
            for side in (s[1], s[2]):
                if side[0] == 'set' or (side[0] == 'query' and (side[6] or side[7] is not None)):
                    out.add('sqlite-nested-compound')
    return out


# ---- generation -------------------------------------------------------------------------------------------------
class Gen6:
    """Typed random generator of well-formed statements over the modelled operator set."""

    def __init__(self, rng, named_top: bool = False, plain_groups: bool = False):
        self.rng = rng
        self.named_top = named_top  # distinct output names at the top (needed by the reader level: `format`)
        self.plain_groups = plain_groups  # grouping terms are elements only (DuckDB cannot match bound literals)

    # -- expressions
    def lit(self, kind):
        r = self.rng
        if kind == 'integer':
            return ('lit', ('int', r.choice(INT_LITS)))
        if kind == 'string':
            return ('lit', ('str', r.choice(STR_LITS)))
        return ('lit', ('bool', r.choice((True, False))))

    def col(self, feats, kind):
        cands = [e for e, k in feats if k == kind]
        return self.rng.choice(cands) if cands else None

    def expr(self, feats, kind, depth):
        """a non-aggregate operable of the kind"""
        r = self.rng
        if kind == 'string':
            c = self.col(feats, 'string')
            return c if c is not None and r.random() < 0.85 else self.lit('string')
        if kind == 'integer':
            c = self.col(feats, 'integer')
            if depth <= 0 or r.random() < 0.45:
                return c if c is not None and r.random() < 0.8 else self.lit('integer')
            if r.random() < 0.85:
                return ('expr', r.choice(ARITH), self.expr(feats, 'integer', depth - 1), self.expr(feats, 'integer', depth - 1))
            return ('expr', 'abs', self.expr(feats, 'integer', depth - 1))
        # boolean
        choice = r.random()
        if depth <= 0 or choice < 0.45:
            k = r.choice(('integer', 'integer', 'string'))
            a = self.expr(feats, k, depth - 1)
            b = self.expr(feats, k, 0)
            if a[0] == 'lit' and b[0] == 'lit':
                c = self.col(feats, k)
                if c is not None:
                    a = c
            return ('expr', r.choice(CMP), a, b)
        if choice < 0.55:
            k = r.choice(('integer', 'string', 'integer'))
            c = self.col(feats, k)
            return ('expr', r.choice(('isnull', 'notnull')), c if c is not None else self.expr(feats, k, 0))
        if choice < 0.8:
            return ('expr', r.choice(('and', 'or')), self.expr(feats, 'boolean', depth - 1), self.expr(feats, 'boolean', depth - 1))
        if choice < 0.92:
            return ('expr', 'not', self.expr(feats, 'boolean', depth - 1))
        c = self.col(feats, 'boolean')
        return c if c is not None else self.expr(feats, 'boolean', 0)

    def aggregate(self, feats):
        r = self.rng
        op = r.choice(AGGS)
        if op == 'count':
            arg = self.expr(feats, r.choice(('integer', 'string', 'integer')), 1)
            if arg[0] == 'lit' and r.random() < 0.7:
                arg = self.col(feats, 'integer') or arg
            return ('expr', 'count', arg)
        arg = self.expr(feats, 'integer', 1)
        if arg[0] == 'lit':
            arg = self.col(feats, 'integer') or arg
        agg = ('expr', op, arg)
        if r.random() < 0.15:
            agg = ('expr', r.choice(ARITH), agg, self.lit('integer'))
        return agg

    # -- sources
    def fresh(self, used: set) -> str:
        name = self.rng.choice([n for n in REF_NAMES if n not in used])
        used.add(name)
        return name

    def leaf(self, used: set, depth: int):
        """a table, a reference to a table, or a reference to a nested statement — with a qualifier not in `used`"""
        r = self.rng
        choice = r.random()
        tables = [t for t in CATALOG if PHYS[t[1]] not in used]
        if tables and choice < 0.55:
            t = r.choice(tables)
            used.add(PHYS[t[1]])
            return t
        if depth <= 0 or choice < 0.75:
            return ('ref', r.choice(CATALOG), self.fresh(used))
        if choice < 0.93:
            return ('ref', self.query(depth - 1, top=False, named=True), self.fresh(used))
        return ('ref', self.setop(depth - 1), self.fresh(used))

    def condition(self, l, r_):
        """join condition over both sides (key-shaped equality preferred)"""
        r = self.rng
        lf, rf = avail(l), avail(r_)
        a, b = self.col(lf, 'integer'), self.col(rf, 'integer')
        if a is None or b is None:
            a, b = self.col(lf, 'string') or self.lit('string'), self.col(rf, 'string') or self.lit('string')
        if r.random() < 0.5:
            a, b = b, a
        cond = ('expr', r.choice(('eq', 'eq', 'eq', 'lt', 'ge', 'ne')), a, b)
        if r.random() < 0.3:
            cond = ('expr', r.choice(('and', 'and', 'or')), cond, self.expr(r.choice((lf, rf, lf + rf)), 'boolean', 1))
        return cond

    def origin(self, depth: int):
        r = self.rng
        used: set = set()
        if r.random() < 0.55:
            return self.leaf(used, depth)
        left = self.leaf(used, depth)
        if r.random() < 0.2:
            mid = self.leaf(used, 0)
            kind = r.choice(dslgen.JOIN_KINDS)
            left = ('join', left, mid, kind, None if kind == 'cross' else self.condition(left, mid))
        right = self.leaf(used, depth if r.random() < 0.5 else 0)
        if r.random() < 0.15:
            extra = self.leaf(used, 0)
            kind = r.choice(dslgen.JOIN_KINDS)
            right = ('join', right, extra, kind, None if kind == 'cross' else self.condition(right, extra))
        kind = r.choice(dslgen.JOIN_KINDS)
        return ('join', left, right, kind, None if kind == 'cross' else self.condition(left, right))

    def _named(self, sel) -> tuple:
        out, seen = [], set()
        for f in sel:
            name = dslgen.name_of(f)
            if name is None or name in seen:
                base = f[1] if f[0] == 'alias' else f
                name = next(n for n in itertools.chain(ALIASES, (f'c{j}' for j in itertools.count())) if n not in seen)
                f = ('alias', base, name)
            seen.add(name)
            out.append(f)
        return tuple(out)

    def query(self, depth: int = 1, top: bool = True, named: bool = False, src=None):
        r = self.rng
        src = src if src is not None else self.origin(depth)
        feats = avail(src)
        sel, pre, grp, post, order, rows = (), None, (), None, (), None
        mode = r.random()
        if mode < 0.3:  # grouped
            terms = []
            for _ in range(r.randint(1, 2)):
                if self.plain_groups or r.random() < 0.8:
                    t = r.choice(feats)[0]
                else:
                    t = self.expr(feats, r.choice(('integer', 'boolean')), 1)
                if t[0] != 'lit' and t not in terms:
                    terms.append(t)
            grp = tuple(terms) or (feats[0][0],)
            items = [g if r.random() < 0.6 else ('alias', g, r.choice(ALIASES)) for g in grp if r.random() < 0.85]
            for _ in range(r.randint(1, 2)):
                a = self.aggregate(feats)
                items.append(('alias', a, r.choice(ALIASES)) if r.random() < 0.7 else a)
            sel = tuple(items)
            if r.random() < 0.5:
                post = ('expr', r.choice(CMP), self.aggregate(feats), self.lit('integer'))
                if r.random() < 0.2:
                    post = ('expr', 'and', post, ('expr', 'notnull', grp[0]))
            if r.random() < 0.45:
                order = tuple(('ord', r.choice(list(grp) + [self.aggregate(feats)]), r.choice(('asc', 'desc')))
                              for _ in range(r.randint(1, 2)))
        elif mode < 0.4:  # aggregates only
            sel = tuple(('alias', self.aggregate(feats), ALIASES[i]) for i in range(r.randint(1, 3)))
            if r.random() < 0.2:
                post = ('expr', r.choice(CMP), self.aggregate(feats), self.lit('integer'))
        else:
            if r.random() < 0.85 or any(leaf[0] == 'ref' and leaf[1][0] == 'set' for leaf in leaves(src)):
                items = []
                for _ in range(r.randint(1, 4)):
                    f = self.expr(feats, r.choice(('integer', 'integer', 'string', 'boolean')), 2)
                    items.append(f if r.random() < 0.5 else ('alias', f, r.choice(ALIASES)))
                sel = tuple(items)
            if r.random() < 0.45:
                terms = [self.expr(feats, r.choice(('integer', 'string')), 1) for _ in range(r.randint(1, 2))]
                # a constant ORDER BY term is refused by DuckDB ("non-integer literal has no effect")
                order = tuple(('ord', t, r.choice(('asc', 'desc'))) for t in terms if dslgen.elements(t))
        if r.random() < 0.5:
            pre = self.expr(feats, 'boolean', 2)
        if r.random() < 0.3:
            if top:
                rows = ('rows', r.choice((0, 1, 2, 3, 100)), r.choice((0, 0, 1, 2)))
            else:
                rows = ('rows', 100000, 0)  # nested: never cuts (a cut without total order is not a function of the content)
        if named or (top and self.named_top):
            if not sel:
                sel = tuple(e for e, _ in feats)
            sel = self._named(sel)
        return ('query', src, sel, pre, grp, post, order, rows)

    def retarget(self, f, old, new):
        """replace origin `old` by `new` inside a feature"""
        if not isinstance(f, tuple):
            return f
        if f == old:
            return new
        return tuple(self.retarget(a, old, new) for a in f)

    def setop(self, depth: int = 1):
        """two statements with the same schema: same origin with another filter, or the twin table"""
        r = self.rng
        if r.random() < 0.5:
            t = DEPT
            left = self.query(0, top=False, named=True, src=t)
            left = left[:7] + (None,)
            sel = tuple(self.retarget(f, t, TWIN[t]) for f in left[2])
            right = ('query', TWIN[t], sel, self.expr(avail(TWIN[t]), 'boolean', 1) if r.random() < 0.5 else None, (), None, (), None)
            if left[4]:  # grouped left: keep the right side grouped the same way
                right = ('query', TWIN[t], sel, None, tuple(self.retarget(g, t, TWIN[t]) for g in left[4]), None, (), None)
        else:
            left = self.query(depth, top=False, named=True)
            left = left[:7] + (None,)
            feats = avail(left[1])
            right = ('query', left[1], left[2], self.expr(feats, 'boolean', 1), left[4], None, (), None)
        if r.random() < 0.5:
            left = left[:6] + ((), None)  # no ORDER BY inside the operand (SQLite cannot run the parenthesised form)
        stmt = ('set', left, right, r.choice(dslgen.SET_KINDS))
        if r.random() < 0.15:
            third = ('query', right[1], right[2], None, right[4], None, (), None)
            stmt = ('set', stmt, third, r.choice(dslgen.SET_KINDS))
        return stmt

    def statement(self, depth: int = 2):
        r = self.rng
        if r.random() < 0.8:
            return self.query(depth, top=True)
        return self.setop(depth)


def gen_db(rng, empty_bias: float = 0.15) -> dict:
    """{physical name: (columns, rows)}: 0..6 rows per table, unique non-NULL ids, NULLs elsewhere, key-shaped values"""
    db = {}
    for t in CATALOG:
        cols = [n for n, _ in t[2]]
        n = 0 if rng.random() < empty_bias else rng.randint(1, 6)
        ids = rng.sample(range(1, 8), n)
        rows = []
        for i in ids:
            row = []
            for name, kind in t[2]:
                if name == 'id':
                    row.append(i)
                elif name == 'name':
                    row.append(rng.choice(STR_LITS))
                elif rng.random() < 0.25:
                    row.append(None)
                elif kind == 'integer':
                    row.append(rng.choice((1, 2, 3, 4, 5, 6, 7, 0, -1, 10)))
                elif kind == 'boolean':
                    row.append(rng.choice((True, False)))
                else:
                    row.append(rng.choice(STR_LITS))
            rows.append(tuple(row))
        db[PHYS[t[1]]] = (cols, rows)
    return db


def db_sexp(db) -> tuple:
    def val(v):
        if v is None:
            return 'null'
        if isinstance(v, bool):
            return ('b', v)
        if isinstance(v, int):
            return ('i', v)
        return ('s', v)

    return tuple((name, tuple(cols), tuple(tuple(val(v) for v in row) for row in rows)) for name, (cols, rows) in db.items())


# ---- the reference evaluator ------------------------------------------------------------------------------------
class Undefined(Exception):
    """the statement is outside the documented / modelled semantics"""


def _cmp(op, a, b):
    if a is None or b is None:
        return None
    if type(a) is not type(b):
        raise Undefined(f'comparison of {type(a).__name__} with {type(b).__name__}')
    return {'lt': a < b, 'le': a <= b, 'gt': a > b, 'ge': a >= b, 'eq': a == b, 'ne': a != b}[op]


def _and(a, b):
    if a is False or b is False:
        return False
    if a is None or b is None:
        return None
    return True


def _or(a, b):
    if a is True or b is True:
        return True
    if a is None or b is None:
        return None
    return False


def _int(v):
    if v is not None and (isinstance(v, bool) or not isinstance(v, int)):
        raise Undefined('arithmetic on a non-integer')
    return v


def ev(f, env: dict, group: typing.Optional[list] = None):
    """value of a feature in an environment {(origin ast, name): value}; `group`: the environments of the group the
    row stands for (aggregates range over it)"""
    tag = f[0]
    if tag == 'lit':
        return f[1][1]
    if tag == 'elem':
        key = (f[1], f[2])
        if key not in env:
            raise Undefined(f'element {f[2]} of an origin that is not in scope')
        return env[key]
    if tag == 'alias':
        return ev(f[1], env, group)
    if tag != 'expr':
        raise Undefined(tag)
    op, args = f[1], f[2:]
    if op in AGGS:
        if group is None:
            raise Undefined('aggregate outside an aggregating query')
        vals = [v for v in (ev(args[0], e, None) for e in group) if v is not None]
        if op == 'count':
            return len(vals)
        if not vals:
            return None
        if op == 'sum':
            return sum(_int(v) for v in vals)
        return min(vals) if op == 'min' else max(vals)
    vals = [ev(a, env, group) for a in args]
    if op in CMP:
        return _cmp(op, *vals)
    if op == 'and':
        return _and(*vals)
    if op == 'or':
        return _or(*vals)
    if op == 'not':
        return None if vals[0] is None else (not vals[0])
    if op == 'isnull':
        return vals[0] is None
    if op == 'notnull':
        return vals[0] is not None
    if op in ARITH:
        a, b = _int(vals[0]), _int(vals[1])
        if a is None or b is None:
            return None
        return a + b if op == 'add' else a - b if op == 'sub' else a * b
    if op == 'abs':
        a = _int(vals[0])
        return None if a is None else abs(a)
    raise Undefined(op)


class Expected:
    """What a statement denotes: `groups` = the output rows in admissible order, as a list of *tie groups* (rows whose
    relative order is not defined) per NULL-placement convention; `window` = (offset, count) or None."""

    def __init__(self, names, variants, window, ordered: bool, distinct: bool = False):
        self.names = names
        self.variants = variants  # list of [tie groups], one per admissible NULL placement
        self.window = window
        self.ordered = ordered
        self.distinct = distinct

    @property
    def all_rows(self) -> list:
        return [row for g in self.variants[0] for row in g]

    @property
    def deterministic(self) -> bool:
        """the admissible results are one bag (no cut through ties / NULL placement)"""
        return len({self._window_key(v) for v in self.variants}) == 1 and all(self._cut_clean(v) for v in self.variants)

    def _bounds(self):
        if self.window is None:
            return 0, None
        off, cnt = self.window
        return max(off, 0), max(cnt, 0)

    def _cut_clean(self, groups) -> bool:
        off, cnt = self._bounds()
        pos = 0
        for g in groups:
            lo, hi = pos, pos + len(g)
            pos = hi
            for edge in ((off,) if cnt is None else (off, off + cnt)):
                if lo < edge < hi and len(set(g)) > 1:
                    return False
        return True

    def _window_key(self, groups):
        off, cnt = self._bounds()
        rows = [row for g in groups for row in g]
        rows = rows[off:] if cnt is None else rows[off:off + cnt]
        return tuple(sorted(map(repr, rows)))

    def rows(self) -> list:
        """the denoted rows when `deterministic` (order inside tie groups arbitrary)"""
        off, cnt = self._bounds()
        rows = self.all_rows
        return rows[off:] if cnt is None else rows[off:off + cnt]

    def admits(self, actual: list) -> typing.Optional[str]:
        """None if `actual` (list of row tuples) is one of the admissible results, else a reason"""
        reasons = []
        for groups in self.variants:
            why = self._admits(groups, actual)
            if why is None:
                return None
            reasons.append(why)
        return reasons[0]

    def _admits(self, groups, actual) -> typing.Optional[str]:
        off, cnt = self._bounds()
        total = sum(len(g) for g in groups)
        want = max(total - off, 0) if cnt is None else max(min(total - off, cnt), 0)
        if len(actual) != want:
            return f'{len(actual)} rows returned, {want} denoted'
        if not self.ordered:
            pool = collections.Counter(row for g in groups for row in g)
            got = collections.Counter(actual)
            if self.window is None:
                return None if pool == got else 'row bags differ'
            return None if not (got - pool) else 'rows outside the denoted bag'
        pos, taken = 0, 0
        for g in groups:
            lo, hi = pos, pos + len(g)
            pos = hi
            a, b = max(lo, off), min(hi, off + want)
            if a >= b:
                continue
            seg = collections.Counter(actual[taken:taken + (b - a)])
            taken += b - a
            pool = collections.Counter(g)
            if b - a == len(g):
                if seg != pool:
                    return 'rows differ (or are out of order)'
            elif seg - pool:
                return 'rows differ (or are out of order)'
        return None


#: admissible NULL placements of an ORDER BY term: NULL is the smallest value (SQLite), the largest one, always last
#: (DuckDB), always first — the documentation does not define it, any consistent convention is accepted
NULL_PLACEMENTS = ('smallest', 'last', 'largest', 'first')


def _place(v, desc: bool, convention: str):
    nulls_first = {'smallest': not desc, 'largest': desc, 'last': False, 'first': True}[convention]
    if v is None:
        return (0 if nulls_first else 2, 0)
    return (1, _Key(v, desc))


class _Key:
    __slots__ = ('v', 'desc')

    def __init__(self, v, desc):
        self.v, self.desc = (int(v) if isinstance(v, bool) else v), desc

    def __lt__(self, other):
        return self.v > other.v if self.desc else self.v < other.v

    def __eq__(self, other):
        return self.v == other.v


def d_from(src, db) -> list:
    """rows (environments) of an origin"""
    tag = src[0]
    if tag == 'table':
        cols, rows = db[PHYS[src[1]]]
        return [{(src, c): v for c, v in zip(cols, row)} for row in rows]
    if tag == 'ref':
        inst = src[1]
        if inst[0] == 'table':
            cols, rows = db[PHYS[inst[1]]]
            return [{(src, c): v for c, v in zip(cols, row)} for row in rows]
        if inst[0] in ('query', 'set'):
            exp = d_out(inst, db)
            if not exp.deterministic:
                raise Undefined('nested statement whose result is not a function of the content')
            return [{(src, n): v for n, v in zip(exp.names, row) if n is not None} for row in exp.rows()]
        raise Undefined('reference to ' + inst[0])
    if tag == 'join':
        _, l, r, kind, cond = src
        lrows, rrows = d_from(l, db), d_from(r, db)
        lnull = {(e[1], e[2]): None for e, _ in avail(l)}
        rnull = {(e[1], e[2]): None for e, _ in avail(r)}
        if kind == 'cross':
            if cond is not None:
                raise Undefined('cross join with a condition')
            return [{**a, **b} for a in lrows for b in rrows]
        if cond is None:
            raise Undefined('join without a condition')
        out, lhit, rhit = [], set(), set()
        for i, a in enumerate(lrows):
            for j, b in enumerate(rrows):
                env = {**a, **b}
                if ev(cond, env) is True:
                    out.append(env)
                    lhit.add(i)
                    rhit.add(j)
        if kind in ('left', 'full'):
            out += [{**a, **rnull} for i, a in enumerate(lrows) if i not in lhit]
        if kind in ('right', 'full'):
            out += [{**lnull, **b} for j, b in enumerate(rrows) if j not in rhit]
        return out
    raise Undefined('query placed on a ' + tag + ' without a reference')


def d_out(stmt, db) -> Expected:
    tag = stmt[0]
    if tag == 'set':
        _, l, r, kind = stmt
        le, re_ = d_out(l, db), d_out(r, db)
        if not (le.deterministic and re_.deterministic):
            raise Undefined('set operand whose result is not a function of the content')
        lrows, rrows = le.rows(), re_.rows()
        if kind == 'union':
            rows = list(dict.fromkeys(lrows + rrows))
        elif kind == 'intersection':
            rows = list(dict.fromkeys(x for x in lrows if x in set(rrows)))
        else:
            rows = list(dict.fromkeys(x for x in lrows if x not in set(rrows)))
        return Expected(le.names, [[rows]], None, ordered=False, distinct=True)
    if tag != 'query':
        raise Undefined('not a statement: ' + tag)
    _, src, sel, pre, grp, post, order, rows = stmt
    envs = d_from(src, db)
    feats = tuple(sel) if sel else tuple(e for e, _ in avail(src))
    if not feats:
        raise Undefined('no features')
    if pre is not None:
        envs = [e for e in envs if ev(pre, e) is True]
    aggregating = bool(grp) or any(has_agg(f) for f in feats) or (post is not None and has_agg(post)) or \
        any(has_agg(o[1]) for o in order)
    if aggregating:
        if grp:
            buckets: dict = {}
            for e in envs:
                buckets.setdefault(tuple(ev(g, e) for g in grp), []).append(e)
            units = [(members, members[0]) for members in buckets.values()]
        else:
            nulls = {(e[1], e[2]): None for e, _ in avail(src)}
            units = [(envs, envs[0] if envs else nulls)]
    else:
        units = [(None, e) for e in envs]
    if post is not None:
        units = [(g, e) for g, e in units if ev(post, e, g) is True]
    projected = [(tuple(ev(f, e, g) for f in feats), tuple(ev(o[1], e, g) for o in order)) for g, e in units]
    names = [dslgen.name_of(f) for f in feats]
    window = None if rows is None else (rows[2], rows[1])
    if not order:
        return Expected(names, [[[p for p, _ in projected]]], window, ordered=False)
    variants = []
    for convention in NULL_PLACEMENTS:
        keyed = sorted(projected, key=lambda pk: tuple(_place(v, o[2] == 'desc', convention) for v, o in zip(pk[1], order)))
        groups = [[p for p, _ in g] for _, g in itertools.groupby(keyed, key=lambda pk: tuple(map(repr, pk[1])))]
        variants.append(groups)
    return Expected(names, variants, window, ordered=True)


def denote(stmt, db) -> Expected:
    return d_out(stmt, db)


# ---- shrinking --------------------------------------------------------------------------------------------------
def shrink_candidates(stmt):
    """smaller statements (one clause dropped / one operand taken) — candidates only, the caller re-validates"""
    if stmt[0] == 'set':
        yield stmt[1]
        yield stmt[2]
        for i in (1, 2):
            for c in shrink_candidates(stmt[i]):
                if c[0] in ('query', 'set'):
                    yield stmt[:i] + (c,) + stmt[i + 1:]
        return
    if stmt[0] != 'query':
        return
    _, src, sel, pre, grp, post, order, rows = stmt
    if rows is not None:
        yield stmt[:7] + (None,)
    if order:
        yield stmt[:6] + ((),) + stmt[7:]
        if len(order) > 1:
            yield stmt[:6] + (order[:1],) + stmt[7:]
    if post is not None:
        yield stmt[:5] + (None,) + stmt[6:]
    if pre is not None:
        yield stmt[:3] + (None,) + stmt[4:]
        if pre[0] == 'expr' and pre[1] in ('and', 'or', 'not'):
            for a in pre[2:]:
                yield stmt[:3] + (a,) + stmt[4:]
    if len(sel) > 1:
        for i in range(len(sel)):
            yield stmt[:2] + (sel[:i] + sel[i + 1:],) + stmt[3:]
    for i, f in enumerate(sel):
        base = f[1] if f[0] == 'alias' else f
        if base[0] == 'expr' and base[1] not in AGGS:
            for a in base[2:]:
                if a[0] != 'lit':
                    g = ('alias', a, f[2]) if f[0] == 'alias' else a
                    yield stmt[:2] + (sel[:i] + (g,) + sel[i + 1:],) + stmt[3:]
    if src[0] == 'ref' and src[1][0] in ('query', 'set'):
        yield src[1]


# ---- families of statements that differ in exactly one place ----------------------------------------------------------
def substitute(node, old, new):
    """replace every occurrence of the sub-tree `old` (also inside the origins of elements) by `new`"""
    if node == old:
        return new
    if isinstance(node, tuple):
        return tuple(substitute(a, old, new) for a in node)
    return node


def _fsites(f, path, ref):
    tag = f[0]
    if tag == 'lit':
        yield path, ref, 'lit', f
    elif tag == 'alias':
        yield path, ref, 'alias', f
        yield from _fsites(f[1], path + (1,), ref)
    elif tag == 'expr':
        yield path, ref, 'op', f
        for i, a in enumerate(f[2:], start=2):
            yield from _fsites(a, path + (i,), ref)


def sites(node, path=(), ref=None):
    """Places of a statement where a one-token change yields another well-formed statement:
    (path, path of the innermost enclosing reference | None, sort, node).  The origins stored inside elements are not
    visited (they repeat the FROM tree; `vary` keeps them consistent)."""
    tag = node[0]
    if tag == 'ref':
        yield path, ref, 'ref', node
        yield from sites(node[1], path + (1,), path)
    elif tag == 'join':
        if node[3] != 'cross':
            yield path, ref, 'join', node
        yield from sites(node[1], path + (1,), ref)
        yield from sites(node[2], path + (2,), ref)
        if node[4] is not None:
            yield from _fsites(node[4], path + (4,), ref)
    elif tag == 'set':
        yield path, ref, 'set', node
        yield from sites(node[1], path + (1,), ref)
        yield from sites(node[2], path + (2,), ref)
    elif tag == 'query':
        yield path, ref, 'query', node
        yield from sites(node[1], path + (1,), ref)
        for i, f in enumerate(node[2]):
            yield from _fsites(f, path + (2, i), ref)
        if node[3] is not None:
            yield from _fsites(node[3], path + (3,), ref)
        for i, f in enumerate(node[4]):
            yield from _fsites(f, path + (4, i), ref)
        if node[5] is not None:
            yield from _fsites(node[5], path + (5,), ref)
        for i, o in enumerate(node[6]):
            yield path + (6, i), ref, 'ord', o
            yield from _fsites(o[1], path + (6, i, 1), ref)


def _put(stmt, path, ref, new_node):
    """the statement with the node at `path` replaced; every copy of the enclosing reference (the origins of the
    elements addressing it) follows"""
    mutated = dslgen.replace(stmt, path, new_node)
    if ref is None:
        return mutated
    return substitute(stmt, dslgen.get(stmt, ref), dslgen.get(mutated, ref))


_SWAPS = {**{o: CMP for o in CMP}, **{o: ARITH for o in ARITH}, 'and': ('and', 'or'), 'or': ('and', 'or'),
          'isnull': ('isnull', 'notnull'), 'notnull': ('isnull', 'notnull'), 'min': ('min', 'max', 'sum'),
          'max': ('min', 'max', 'sum'), 'sum': ('min', 'max', 'sum')}
#: literal values a literal is varied over (-1 and -2 have equal Python hashes: a statement cache keyed by hash alone would
#: confuse them; the other colliding pair, 0 and 2**61-1, overflows the engines' and pandas' 64-bit arithmetic when it
#: lands in an arithmetic expression: it is only used in a comparison of the hand-picked histories)
INT_VARIANTS = (0, 1, 2, 3, 4, 5, 6, 7, -1, -2, 10)
#: string literals: also values that differ in case / trailing blank only (a key normalising the text would confuse them)
STR_VARIANTS = STR_LITS + ('A', 'a ', 'ZZ')


def vary(stmt, rng, site, limit: int = 3) -> list:
    """statements that differ from `stmt` at the site only: other literal values / operators of the same sort / join
    kinds / set kinds / the opposite direction / another reference name / another or swapped alias"""
    path, ref, sort, node = site
    out = []
    if sort == 'lit':
        kind, value = node[1]
        if kind == 'int':
            pool = [v for v in INT_VARIANTS if v != value]
            twin = {-1: -2, -2: -1}.get(value)
            picks = rng.sample(pool, limit)
            if twin is not None and twin not in picks:
                picks[0] = twin
            out = [_put(stmt, path, ref, ('lit', ('int', v))) for v in picks]
        elif kind == 'str':
            picks = rng.sample([v for v in STR_VARIANTS if v != value], limit)
            if value.upper() != value and value.upper() in STR_VARIANTS and value.upper() not in picks:
                picks[0] = value.upper()
            out = [_put(stmt, path, ref, ('lit', ('str', v))) for v in picks]
        elif kind == 'bool':
            out = [_put(stmt, path, ref, ('lit', ('bool', not value)))]
    elif sort == 'op':
        cands = [o for o in _SWAPS.get(node[1], ()) if o != node[1]]
        if node[1] in ('min', 'max', 'sum') and kind6(node[2]) != 'integer':
            cands = [o for o in cands if o != 'sum']
        rng.shuffle(cands)
        out = [_put(stmt, path, ref, node[:1] + (o,) + node[2:]) for o in cands[:limit]]
    elif sort == 'join':
        cands = [k for k in dslgen.JOIN_KINDS[:4] if k != node[3]]
        out = [_put(stmt, path, ref, node[:3] + (k,) + node[4:]) for k in cands[:limit]]
    elif sort == 'set':
        out = [_put(stmt, path, ref, node[:3] + (k,)) for k in dslgen.SET_KINDS if k != node[3]]
    elif sort == 'ord':
        out = [_put(stmt, path, ref, node[:2] + ('desc' if node[2] == 'asc' else 'asc',))]
    elif sort == 'ref':
        used = {s[2] for s in _all_refs(stmt)} | set(PHYS.values())
        names = [n for n in REF_NAMES if n not in used]
        if names:
            out = [substitute(stmt, node, node[:2] + (rng.choice(names),))]
    elif sort == 'alias':
        if ref is None and len(path) == 2 and path[0] == 2 and stmt[0] == 'query':  # an output column of the statement
            taken = {dslgen.name_of(f) for f in stmt[2]}
            names = [n for n in ALIASES if n not in taken]
            if names:
                out = [_put(stmt, path, ref, node[:2] + (rng.choice(names),))]
    elif sort == 'query':
        # two aliased output columns of the same kind trade their names: whoever addresses them by name gets the other
        sel = node[2]
        pairs = [(i, j) for i in range(len(sel)) for j in range(i + 1, len(sel))
                 if sel[i][0] == 'alias' and sel[j][0] == 'alias' and sel[i][2] != sel[j][2] and _same_kind(sel[i], sel[j])]
        if pairs:
            i, j = rng.choice(pairs)
            swapped = list(sel)
            swapped[i], swapped[j] = sel[i][:2] + (sel[j][2],), sel[j][:2] + (sel[i][2],)
            out = [_put(stmt, path, ref, node[:2] + (tuple(swapped),) + node[3:])]
    return [s for s in out if s != stmt]


def _same_kind(a, b) -> bool:
    try:
        return kind6(a) == kind6(b)
    except ValueError:
        return False


def _all_refs(node):
    if isinstance(node, tuple):
        if node and node[0] == 'ref' and len(node) == 3:
            yield node
        for a in node:
            yield from _all_refs(a)


def family(stmt, rng, sorts=None, limit: int = 3) -> list:
    """[(sort, [stmt, variant...])]: for every site (of the sorts asked for) the statement and its one-place variants"""
    out = []
    for site in sites(stmt):
        if sorts is not None and site[2] not in sorts:
            continue
        try:
            members = vary(stmt, rng, site, limit)
        except (ValueError, IndexError):
            continue
        if members:
            out.append((site[2], [stmt] + members))
    return out


#: windows a LIMIT / OFFSET family ranges over
WINDOWS = ((1, 0), (2, 0), (3, 0), (2, 1), (3, 1), (1, 2), (2, 2), (3, 2), (100, 0), (100, 1), (100, 3), (0, 0), (1, 5))


def limit_family(rng, nested: bool = False) -> list:
    """statements that differ in LIMIT / OFFSET only, totally ordered by the unique key (so that each denotes exactly
    one result): directly, or inside a nested statement that the outer one reads through a reference"""
    t = rng.choice(CATALOG)
    src = t if rng.random() < 0.6 else ('ref', t, rng.choice(REF_NAMES))
    feats = avail(src)
    ident = next(e for e, _ in feats if e[2] == 'id')
    others = [e for e, _ in feats if e[2] != 'id']
    sel = (ident,) + tuple(rng.sample(others, rng.randint(1, 2)))
    pre = None
    if rng.random() < 0.4:
        pre = ('expr', rng.choice(('gt', 'ge', 'ne')), ident, ('lit', ('int', rng.choice((0, 1, 2, 3)))))
    order = (('ord', ident, rng.choice(('asc', 'desc'))),)
    out = []
    for count, offset in rng.sample(WINDOWS, 4):
        q = ('query', src, sel, pre, (), None, order, ('rows', count, offset))
        if nested:
            r = ('ref', q, 'sub')
            q = ('query', r, tuple(('elem', r, dslgen.name_of(f)) for f in sel), None, (), None, (), None)
        out.append(q)
    return out


# ---- reader level: feeds, storages, mappings, file formats ------------------------------------------------------------
#: the feeds of a reader-level history: (kind, storage index, mapping).  Feeds 4 / 5 use the SAME connection as feeds 0 / 1
#: but map the schemas to other physical tables of that database ("b" tables)
FEEDS = (('alchemy', 0, 'a'), ('alchemy', 1, 'a'), ('lazy', 2, 'a'), ('lazy', 3, 'a'), ('alchemy', 0, 'b'), ('alchemy', 1, 'b'))
FEED_KINDS = tuple(f[0] for f in FEEDS)
STORAGE = tuple(f[1] for f in FEEDS)
MAPPING = tuple(f[2] for f in FEEDS)
STORAGE_KINDS = ('alchemy', 'alchemy', 'lazy', 'lazy')
#: physical table names of the second mapping
ALT = {'people': 'people_b', 'dept': 'dept_b', 'unit_tbl': 'unit_b'}
#: physical name (either mapping) -> catalog table
TABLE_OF = {**{PHYS[t[1]]: t for t in CATALOG}, **{ALT[PHYS[t[1]]]: t for t in CATALOG}}
#: how a table of a file backed (monolite) storage is kept: format -> (origin group, user kwargs, header line written)
FORMATS = {
    'csv': ('csv', None, True),                                   # plain path, class defaults
    'csv-semicolon': ('csv', {'sep': ';'}, True),                 # a non-colliding reader option
    'csv-noheader': ('csv', {'header': None}, False),             # a user option that overrides a class default
    'csv-noheader-semicolon': ('csv', {'header': None, 'sep': ';'}, False),
    'csv-header0': ('csv', {'header': 0}, True),                  # the default spelled out
    'parquet': ('parquet', None, None),
    'inline': ('inline', None, None),
}


def sources_of(feed: int):
    """`Feed.sources` of a reader-level feed for the model: ((table-ast physical-name) ...)"""
    if FEED_KINDS[feed] == 'lazy':
        return tuple((t, t[1]) for t in CATALOG)
    if MAPPING[feed] == 'b':
        return tuple((t, ALT[PHYS[t[1]]]) for t in CATALOG)
    return sources_sexp()


def view(feed: int, db: dict) -> dict:
    """the content of the feed's storage as the feed's mapping shows it: {catalog physical name: (cols, rows)}"""
    if MAPPING[feed] == 'b':
        return {name: db[ALT[name]] for name in PHYS.values()}
    return {name: db[name] for name in PHYS.values()}


def gen_db6(rng, empty_bias: float = 0.05) -> dict:
    """content of a SQL storage: the tables of both mappings (different content)"""
    db = gen_db(rng, empty_bias)
    other = gen_db(rng, empty_bias)
    db.update({ALT[name]: table for name, table in other.items()})
    return db


# ---- the Python operator surface ------------------------------------------------------------------------------------------
#: binary operators of the Python syntax: AST op -> (python operator name, symbol)
PY_BINARY = {'add': ('add', '+'), 'sub': ('sub', '-'), 'mul': ('mul', '*'), 'div': ('truediv', '/'), 'mod': ('mod', '%'),
             'lt': ('lt', '<'), 'le': ('le', '<='), 'gt': ('gt', '>'), 'ge': ('ge', '>='), 'eq': ('eq', '=='), 'ne': ('ne', '!='),
             'and': ('and', '&'), 'or': ('or', '|')}
_MIRROR = {'lt': 'gt', 'gt': 'lt', 'le': 'ge', 'ge': 'le', 'eq': 'eq', 'ne': 'ne'}


class SugarBuilder(dslgen.Builder):
    """Builds expressions the way a statement author writes them: THROUGH the Python operators of `dsl.Operable`, with
    plain Python values (not `dsl.Literal`) wherever the AST has a literal operand - `100 / T.size`, `5 < T.age`,
    `(T.a > 1) & ~T.flag`.  Everything else as `dslgen.Builder`."""

    def __init__(self):
        super().__init__(proxy=True)

    def operand(self, ast):
        """plain Python value for a literal, feature otherwise"""
        if ast[0] == 'lit':
            return self.value(ast[1])
        return self.feature(ast)

    def feature(self, ast, toplevel: bool = False):
        import operator as o

        from forml.io import dsl

        if ast[0] == 'expr' and (ast[1] in PY_BINARY or ast[1] == 'not'):
            if ast[1] == 'not':
                arg = self.operand(ast[2])
                return ~(arg if isinstance(arg, dsl.Feature) else dsl.Literal(arg))
            left, right = self.operand(ast[2]), self.operand(ast[3])
            if not isinstance(left, dsl.Feature) and not isinstance(right, dsl.Feature):
                left = dsl.Literal(left)  # two plain values would be computed by Python itself
            return {'and': o.and_, 'or': o.or_}.get(ast[1], getattr(o, PY_BINARY[ast[1]][0], None))(left, right)
        return super().feature(ast, toplevel)


def py_text(f) -> str:
    """the Python source of a feature AST as `SugarBuilder` writes it (for reports)"""
    tag = f[0]
    if tag == 'lit':
        return repr(f[1][1])
    if tag == 'elem':
        origin = f[1][1] if f[1][0] == 'table' else f[1][2]
        return f'{origin}.{f[2]}'
    if tag == 'alias':
        return f'({py_text(f[1])}).alias({f[2]!r})'
    if tag == 'expr':
        if f[1] == 'not':
            return f'~({py_text(f[2])})'
        if f[1] in PY_BINARY:
            return f'({py_text(f[2])} {PY_BINARY[f[1]][1]} {py_text(f[3])})'
        return f'{dslgen.OP_CLASS[f[1]]}({", ".join(py_text(a) for a in f[2:])})'
    return repr(f)


def to_pyexpr(f):
    """the Python expression behind a feature AST, in the wire format of the driver's `(sugar ...)`"""
    if f[0] == 'lit':
        return ('val', f[1])
    if f[0] == 'expr' and f[1] == 'not':
        inner = to_pyexpr(f[2])
        return ('inv', ('feat', f[2]) if inner[0] == 'val' else inner)
    if f[0] == 'expr' and f[1] in PY_BINARY:
        a, b = to_pyexpr(f[2]), to_pyexpr(f[3])
        if a[0] == 'val' and b[0] == 'val':
            a = ('feat', f[2])
        return ('bin', PY_BINARY[f[1]][0], a, b)
    return ('feat', f)


def read_back(obj):
    """`dslgen.to_ast` with the comparison proxies (`Comparison.Pythonic`) resolved to the comparison they stand for"""
    def fix(x):
        if isinstance(x, tuple):
            if x and x[0] == 'pythonic':
                return ('expr',) + tuple(fix(a) for a in x[1:])
            return tuple(fix(a) for a in x)
        return x

    return fix(dslgen.to_ast(obj))


def unmirror(f):
    """normal form under the interpreter's own mirroring of comparisons (`5 < x` is dispatched as `x > 5`, an element
    of a reference against a column tries the column's reflected method first): the operands of every comparison in a
    fixed order, the operator mirrored along; nothing else moves"""
    if not isinstance(f, tuple):
        return f
    f = tuple(unmirror(a) for a in f)
    if f and f[0] == 'expr' and f[1] in _MIRROR and len(f) == 4 and repr(f[2]) > repr(f[3]):
        return ('expr', _MIRROR[f[1]], f[3], f[2])
    return f


def sugar_expr(rng, feats, kind: str, depth: int, ops=ARITH):
    """an expression in which literals stand on either side of the operators (literal-left favoured)"""
    r = rng
    col = lambda k: r.choice([e for e, kk in feats if kk == k] or [None])  # noqa: E731
    lit = lambda k: ('lit', ('int', r.choice((1, 2, 3, 5, 7, 10, 100))) if k == 'integer' else ('str', r.choice(STR_LITS)))  # noqa: E731
    if kind == 'integer':
        c = col('integer')
        if depth <= 0 or c is None:
            return c if c is not None and r.random() < 0.6 else lit('integer')
        a, b = sugar_expr(r, feats, 'integer', depth - 1, ops), sugar_expr(r, feats, 'integer', depth - 1, ops)
        if a[0] == 'lit' and b[0] == 'lit':
            b = c
        if r.random() < 0.5 and a[0] != 'lit':
            a = lit('integer')  # literal on the LEFT: the reflected method
            if b[0] == 'lit':
                b = c
        return ('expr', r.choice(ops), a, b)
    # boolean
    choice = r.random()
    if depth <= 0 or choice < 0.5:
        k = r.choice(('integer', 'integer', 'string'))
        c = col(k) or col('integer')
        k = 'integer' if c is None or kind6(c) == 'integer' else 'string'
        other = lit(k) if r.random() < 0.7 or depth <= 0 else sugar_expr(r, feats, 'integer', depth - 1, ops) if k == 'integer' else lit(k)
        a, b = (other, c) if r.random() < 0.55 else (c, other)
        if a is None or b is None:
            a, b = lit('integer'), ('expr', 'add', lit('integer'), lit('integer'))
        return ('expr', r.choice(CMP), a, b)
    if choice < 0.85:
        return ('expr', r.choice(('and', 'or')), sugar_expr(r, feats, 'boolean', depth - 1, ops), sugar_expr(r, feats, 'boolean', depth - 1, ops))
    return ('expr', 'not', sugar_expr(r, feats, 'boolean', depth - 1, ops))


def sugar_statement(rng):
    """a statement whose projection and filter are written with the Python operators (modelled classes only)"""
    t = rng.choice(CATALOG)
    src = t if rng.random() < 0.7 else ('ref', t, rng.choice(REF_NAMES))
    feats = avail(src)
    sel = [('elem', src, 'id')]
    for name in rng.sample(ALIASES, rng.randint(1, 2)):
        sel.append(('alias', sugar_expr(rng, feats, rng.choice(('integer', 'integer', 'boolean')), 2), name))
    pre = sugar_expr(rng, feats, 'boolean', 2) if rng.random() < 0.7 else None
    return ('query', src, tuple(sel), pre, (), None, (), None)


def sugar_probes(rng, n: int) -> list:
    """feature ASTs over every overloaded operator - incl. division and modulus, which are only checked structurally"""
    feats = avail(PERSON) + avail(('ref', PERSON, 'p'))
    out = []
    x, y = ('elem', PERSON, 'age'), ('elem', ('ref', PERSON, 'p'), 'boss')
    for op in ARITH + ('div', 'mod'):
        for a, b in ((('lit', ('int', 100)), x), (x, ('lit', ('int', 7))), (x, y), (y, x),
                     (('lit', ('int', 3)), ('expr', 'add', x, ('lit', ('int', 1))))):
            out.append(('expr', op, a, b))
    for op in CMP:
        for a, b in ((('lit', ('int', 5)), x), (x, ('lit', ('int', 5))), (x, y), (y, x)):
            out.append(('expr', op, a, b))
    flag = ('elem', PERSON, 'active')
    for op in ('and', 'or'):
        out.append(('expr', op, ('lit', ('bool', True)), flag))
        out.append(('expr', op, flag, ('lit', ('bool', False))))
        out.append(('expr', op, ('expr', 'lt', x, ('lit', ('int', 5))), ('expr', 'eq', ('lit', ('int', 1)), y)))
    out.append(('expr', 'not', flag))
    out.append(('expr', 'not', ('expr', 'gt', ('lit', ('int', 2)), x)))
    while len(out) < n:
        out.append(sugar_expr(rng, feats, rng.choice(('integer', 'boolean')), 3, ARITH + ('div', 'mod')))
    return out
