"""C19 — content negotiation (Encoding.parse / match, get_encoder, get_decoder, codec round trip)
vs lean/ForML/Model/Codec.lean."""
from __future__ import annotations

import fractions
import functools
import itertools
import re
import typing

from core import framework as fw
from core import sexp

F = fractions.Fraction

# ---- pools ----------------------------------------------------------------------------------------
CONCRETE_KINDS = [
    'application/json', 'text/csv', 'text/html', 'text/plain', 'image/gif', 'application/xml',
    'application/octet-stream', 'application/vnd.api+json', 'foo/bar', 'text/tsv', 'application/jsonl',
]
PATTERN_KINDS = [
    '*/*', '*', 'application/*', 'text/*', '*/json', '*/csv', 'app*', 't*/c*v', 'application/?son', 'text/?sv',
    'text/[ct]sv', 'text/[!t]sv', 'application/[j-k]son', 'application/[!a-i]son', '*/[jc]s*', 'text/c??',
    '??????????????/*', 'application/json*', '*json', 'image/*', '[at]*/*', 'text/[', 'text/[]c]sv', 'text/[c-]sv',
]
OPT_KEYS = ['format', 'charset', 'version', 'a']
OPT_VALUES = {
    'format': ['pandas-records', 'pandas-columns', 'pandas-index', 'pandas-split', 'pandas-table', 'pandas-values',
               'Pandas-Records', 'other'],
    'charset': ['utf-8', 'UTF-8', 'latin1'],
    'version': ['1', '1.0', '2'],
    'a': ['x', 'y', 'x y', 'k=v', 'p;q'],
}
Q_POOL = ['0', '0.0', '0.1', '0.25', '0.3', '0.30', '0.300', '0.5', '.5', '0.50', '0.500', '0.501', '0.75', '0.8',
          '0.9', '0.999', '1', '1.', '1.0', '1.00', '1.000', '2', '0.001', '00.5', '01']
BAD_Q = ['abc', '', '1..2', '0.5x', 'x', '.', '--1', '0.5.', '1/2', 'q']
WS = ['', '', '', ' ', ' ', '  ', '\t', ' \t ']


# texts that pandas.read_csv re-types (numbers, missing-value markers, booleans)
TYPED_TEXT = ['007', '12', '0', '-5', '1e3', '3.5', 'NA', 'nan', 'null', 'None', 'True', 'false', 'N/A', 'inf']
_NUMERIC = re.compile(r'[+-]?(\d+\.?\d*|\.\d+)([eE][+-]?\d+)?$|[+-]?inf$', re.I)
_NA = {'', '#N/A', '#N/A N/A', '#NA', '-1.#IND', '-1.#QNAN', '-NaN', '-nan', '1.#IND', '1.#QNAN', '<NA>', 'N/A', 'NA',
       'NULL', 'NaN', 'None', 'n/a', 'nan', 'null'}
_BOOL = {'true', 'false'}


def looks_typed(text: str) -> bool:
    return bool(_NUMERIC.match(text)) or text in _NA or text.lower() in _BOOL


def _canon_enc(kind: str, options: typing.Mapping[str, str]):
    return [kind, sorted([k, v] for k, v in options.items())]


def _enc_sexp(kind: str, options: typing.Mapping[str, str]):
    return [kind, [[k, v] for k, v in options.items()]]


# ---- oracle pieces written from the property text (no fnmatch, no regex, no sorted-on-impl) ---------
def _spec_tokens(pat: str):
    """'*' any run, '?' one character, '[seq]' one of / '[!seq]' none of (with a-z ranges, a leading ']' literal),
    an unterminated '[' is literal."""
    out = []
    i, n = 0, len(pat)
    while i < n:
        c = pat[i]
        if c == '*':
            out.append(('star',))
        elif c == '?':
            out.append(('any',))
        elif c == '[':
            j = i + 1
            neg = j < n and pat[j] == '!'
            if neg:
                j += 1
            start = j
            if j < n and pat[j] == ']':
                j += 1
            while j < n and pat[j] != ']':
                j += 1
            if j >= n:
                out.append(('lit', '['))
            else:
                body = pat[start:j]
                members = []
                k = 0
                while k < len(body):
                    if k + 2 < len(body) and body[k + 1] == '-':
                        members.append((body[k], body[k + 2]))
                        k += 3
                    else:
                        members.append((body[k], body[k]))
                        k += 1
                out.append(('set', neg, tuple(members)))
                i = j
        else:
            out.append(('lit', c))
        i += 1
    return out


def spec_wild(pat: str, name: str) -> bool:
    toks = _spec_tokens(pat)

    @functools.lru_cache(maxsize=None)
    def go(i: int, j: int) -> bool:
        if i == len(toks):
            return j == len(name)
        t = toks[i]
        if t[0] == 'star':
            return any(go(i + 1, k) for k in range(j, len(name) + 1))
        if j == len(name):
            return False
        c = name[j]
        if t[0] == 'any':
            ok = True
        elif t[0] == 'lit':
            ok = t[1] == c
        else:
            ok = any(lo <= c <= hi for lo, hi in t[2]) != t[1]
        return ok and go(i + 1, j + 1)

    return go(0, 0)


def spec_match(pk: str, po: dict, ck: str, co: dict) -> bool:
    """the property: kind matches as a wildcard pattern and all of the pattern's options are present with equal values"""
    return spec_wild(pk, ck) and all(k in co and co[k] == v for k, v in po.items())


class C19(fw.Check):
    ID = 'C19'
    LEAN_MODULES = ['ForML.Props.C19']
    DRIVER = 'drv_c19'
    RULE = ('Headers: 1..5 (sometimes 0 or 6..8) media ranges from pools of 11 concrete kinds and 24 wildcard patterns '
            '(*, ?, [..], [!..], ranges, unterminated [), random upper-casing, 0..3 options (quoted / spaced / repeated '
            'keys / flag parameters without =), q from a 25-value pool built for ties (missing, 0, 1., .5, 0.50, 0.500, '
            'Q=, quoted), random blanks/tabs around , ; =; a malformed stream (q not a number, empty items, stray ; and '
            'quotes) compared with the model only.  A header case is distinct by its text and non-trivial when it has '
            '>= 2 ranges.  Pairs: every (pattern, concrete) pair of a pool of >= 40 encodings; random glob strings over '
            '{a,b,c,/,-,*,?,[,],!}.  Encoders: 1..4 pool encodings and parsed Accept headers; decoders: every pool '
            'encoding and parsed Content-Type headers.  Round trip: tables of 1..4 columns x 1..5 rows of ints / texts '
            'for text/csv, pandas-records -> application/json, pandas-columns -> application/json; the format=pandas-* '
            'decoders are attempted and counted as unusable when pandas.read_json refuses a literal string.  Oracle on '
            'the real code: order = sort by (-q, position) of the generated ranges; match = spec wildcard matcher + '
            'option subset; encoder = encoding accepted by the first client pattern that accepts any supported one, '
            'error iff none; decoder = its pattern accepts the content type, error iff none; decoded table == table.')
    TRUSTED = [
        'cgi.parse_header, fnmatch.translate, float(): the slices reachable from the generated grammar are modelled and '
        'correspondence-checked; beyond it (q with sign/exponent/inf/>3 decimals, non-ASCII blanks or case, bracket '
        'bodies where a dropped range is followed by "!") modelled-not-verified',
        'pandas JSON/CSV writers and readers: sampled by the round trip only; the Lean round trip theorem covers the '
        'unquoted text/csv token slice',
        'CPython sorted() stability (the model is a stable insertion sort; tie order is compared on every header)',
    ]
    ASSUMPTIONS = ['header text is ASCII; q has at most three decimals (RFC 9110 grammar)',
                   'round trip tables: non-empty, distinct column names, int cells and text cells that do not look like '
                   'numbers / NA markers / booleans (CSV is untyped)']

    # ---- tables -----------------------------------------------------------------------------------
    @staticmethod
    def _live_tables():
        from forml.io.layout import _codec

        encs = [(e.encoding.kind, dict(e.encoding.options)) for e in _codec.ENCODERS]
        decs = [(enc.kind, dict(enc.options)) for _, enc in _codec.DECODERS]
        return encs, decs

    def gen_tables(self):
        import sys
        if fw.REPO not in sys.path:
            sys.path.insert(0, fw.REPO)
        encs, decs = self._live_tables()

        def chars(s: str) -> str:
            def one(c):
                if c == "'":
                    return "'\\''"
                if c == '\\':
                    return "'\\\\'"
                if not (32 <= ord(c) < 127):
                    return f'(Char.ofNat {ord(c)})'
                return f"'{c}'"
            return '[' + ', '.join(one(c) for c in s) + ']'

        def enc(kind, opts):
            o = ', '.join(f'({chars(k)}, {chars(v)})' for k, v in opts.items())
            header = kind + ''.join(f'; {k}={v}' for k, v in opts.items())
            return f'  -- {header}\n  ⟨{chars(kind)}, [{o}]⟩'

        body = ['/- GENERATED by harness/props/c19.py gen_tables() from the live forml.io.layout._codec.ENCODERS / DECODERS',
                '   (order and encodings). Do not edit. -/', 'import ForML.Model.Codec', 'namespace ForML.Codec.Tables', '',
                '/-- `ENCODERS[i].encoding` -/', 'def encoders : List Encoding := [',
                ',\n'.join(enc(k, o) for k, o in encs), ']', '',
                '/-- `DECODERS[i][1]` -/', 'def decoders : List Encoding := [',
                ',\n'.join(enc(k, o) for k, o in decs), ']', '', 'end ForML.Codec.Tables', '']
        return {'ForML/Generated/C19Tables.lean': '\n'.join(body)}

    # ---- generators -------------------------------------------------------------------------------
    def _case_kind(self, kind: str) -> str:
        r = self.rng.random()
        if r < 0.7:
            return kind
        if r < 0.8:
            return kind.upper()
        return ''.join(c.upper() if self.rng.random() < 0.4 else c for c in kind)

    def _range_spec(self, ties: typing.Optional[list] = None):
        """one media range: (text, expected kind, expected options, q)"""
        rng = self.rng
        kind = rng.choice(CONCRETE_KINDS if rng.random() < 0.6 else PATTERN_KINDS)
        params = []  # (key text, value text or None, effective key, effective value)
        for _ in range(rng.choice([0, 0, 0, 1, 1, 2, 3])):
            k = rng.choice(OPT_KEYS)
            v = rng.choice(OPT_VALUES[k])
            ktxt = k if rng.random() < 0.8 else k.upper()
            style = rng.random()
            if ' ' in v or ';' in v or style < 0.2:
                vtxt = '"' + v + '"'
            else:
                vtxt = v
            params.append((ktxt, vtxt, k, v))
        if rng.random() < 0.1:
            params.append((rng.choice(['flag', 'x', 'Q']), None, None, None))  # no '=': ignored by cgi
        qsrc = rng.random()
        if qsrc < 0.7:
            q = rng.choice(ties) if ties and rng.random() < 0.6 else rng.choice(Q_POOL)
            qtxt = q if rng.random() < 0.9 else '"' + q + '"'
            params.insert(rng.randint(0, len(params)), ('q' if rng.random() < 0.85 else 'Q', qtxt, 'q', q))
            if rng.random() < 0.05:  # a repeated q: the last one counts (dict semantics)
                q2 = rng.choice(Q_POOL)
                params.append(('q', q2, 'q', q2))
        text = rng.choice(WS) + self._case_kind(kind) + rng.choice(WS)
        eff: dict = {}
        for ktxt, vtxt, k, v in params:
            text += ';' + rng.choice(WS)
            if vtxt is None:
                text += ktxt
            else:
                text += ktxt + rng.choice(['', '', ' ']) + '=' + rng.choice(['', '', ' ']) + vtxt
                eff[k] = v
            text += rng.choice(WS)
        q = F(eff.pop('q')) if 'q' in eff else F(1)
        return text, kind.strip().lower(), eff, q

    def _header_spec(self):
        rng = self.rng
        n = rng.choice([1, 2, 2, 3, 3, 3, 4, 4, 5, 5, 6, 8])
        ties = rng.sample(Q_POOL, 2) + ['0.5', '0.50']
        items = [self._range_spec(ties) for _ in range(n)]
        text = items[0][0]
        for it in items[1:]:
            text += rng.choice(WS) + ',' + rng.choice(WS) + it[0]
        return text, [(k, o, q) for _, k, o, q in items]

    def _malformed(self) -> str:
        rng = self.rng
        style = rng.randrange(6)
        base, _ = self._header_spec()
        if style == 0:
            return base + rng.choice([';q=', '; q = ', ';Q=']) + rng.choice(BAD_Q)
        if style == 1:
            return rng.choice(['', ',', ',,', ' , ', base + ',', ',' + base, base + ',,' + base])
        if style == 2:
            return base.replace(';', ';;', 1) + rng.choice([';', ';;', '; ;x'])
        if style == 3:
            return base + rng.choice([';a="x', ';a="x;q=0.1', ';a="x\\";q=0.1";q=0.2', ';a="\\\\";q=0.3', ';a="', ';a=""', ';a="""'])
        if style == 4:
            return rng.choice(['a;q=abc,b', 'a;q=0.5,b;q=x', 'a,b;q=', ';q=0.5', '=;q=0.2,a', 'a;=x;q=0.7', 'a; =  ;q=.1,b'])
        return base.replace('q=', 'q=' + rng.choice(BAD_Q), 1) if 'q=' in base else base + ';q=' + rng.choice(BAD_Q)

    def _pool(self):
        """>= 40 encodings: (kind, options) — patterns and concretes, with and without options"""
        rng = self.rng
        pool = [(k, o) for k, o in self._encs] + [(k, o) for k, o in self._decs]
        pool += [(k, {}) for k in CONCRETE_KINDS] + [(k, {}) for k in PATTERN_KINDS]
        for _ in range(24):
            kind = rng.choice(CONCRETE_KINDS[:3] + PATTERN_KINDS[:6])
            ks = rng.sample(OPT_KEYS, rng.choice([1, 1, 2, 3]))
            pool.append((kind, {k: rng.choice(OPT_VALUES[k]) for k in ks}))
        seen, out = set(), []
        for k, o in pool:
            key = (k, tuple(sorted(o.items())))
            if key not in seen:
                seen.add(key)
                out.append((k, o))
        return out

    # ---- implementation adapters --------------------------------------------------------------------
    @staticmethod
    def _impl_parse(header: str):
        from forml.io import layout
        try:
            return 'ok', [(e.kind, dict(e.options)) for e in layout.Encoding.parse(header)]
        except ValueError:
            return 'error', 'badQ'
        except Exception as e:  # pylint: disable=broad-except
            return 'error', type(e).__name__

    def _impl_encoder(self, encs):
        from forml.io import layout
        from forml.io.layout import _codec
        try:
            codec = layout.get_encoder(*[layout.Encoding(k, **o) for k, o in encs])
        except layout.Encoding.Unsupported:
            return None
        return next(i for i, c in enumerate(_codec.ENCODERS) if c is codec)

    def _impl_decoder(self, enc):
        from forml.io import layout
        from forml.io.layout import _codec
        try:
            codec = layout.get_decoder(layout.Encoding(enc[0], **enc[1]))
        except layout.Encoding.Unsupported:
            return None
        return next(i for i, (c, _) in enumerate(_codec.DECODERS) if c is codec)

    @staticmethod
    def _model_idx(ans: str):
        m = sexp.loads(ans)
        if m == 'none':
            return None
        if isinstance(m, list) and m[0] == 'some':
            return int(m[1])
        return ('model', m)

    # ---- oracles --------------------------------------------------------------------------------------
    def _oracle_parse(self, header, spec, impl):
        """spec = generated ranges [(kind, options, q)]; expected = ordered by descending q, ties in header order"""
        order = sorted(range(len(spec)), key=lambda i: (-spec[i][2], i))
        want = [_canon_enc(spec[i][0], spec[i][1]) for i in order]
        if impl[0] != 'ok':
            return f'Encoding.parse raised {impl[1]} on a well-formed header', 'parse-raises'
        got = [_canon_enc(k, o) for k, o in impl[1]]
        if got == want:
            return None
        if sorted(map(repr, got)) != sorted(map(repr, want)):
            return f'Encoding.parse returned {got}, the header holds {want}', 'parse-content'
        return f'Encoding.parse order {[g[0] for g in got]} but by descending q (ties in header order) {[w[0] for w in want]}', 'parse-order'

    def _oracle_encoder(self, ts, idx):
        """first client pattern accepting any supported encoding decides; error iff none"""
        for k, o in ts:
            accepted = [i for i, (ek, eo) in enumerate(self._encs) if spec_match(k, o, ek, eo)]
            if accepted:
                if idx is None:
                    return f'get_encoder raised Unsupported although {k} {o} accepts encoder #{accepted[0]}', 'encoder-unsupported'
                if idx not in accepted:
                    return (f'get_encoder chose #{idx} {self._encs[idx]} which the first satisfiable client pattern '
                            f'{k} {o} does not accept'), 'encoder-choice'
                return None
        if idx is not None:
            return f'get_encoder chose #{idx} although no client pattern accepts a supported encoding', 'encoder-spurious'
        return None

    def _oracle_decoder(self, src, idx):
        k, o = src
        if '*' in k:
            return None  # not a concrete content type: the property does not speak about it
        accepted = [i for i, (dk, do) in enumerate(self._decs) if spec_match(dk, do, k, o)]
        if idx is None:
            if accepted:
                return f'get_decoder raised Unsupported for {k} {o} although decoder #{accepted[0]} declares it', 'decoder-unsupported'
            return None
        if idx not in accepted:
            return f'get_decoder chose #{idx} {self._decs[idx]} which does not match {k} {o}', 'decoder-choice'
        return None

    # ---- streams --------------------------------------------------------------------------------------
    def _headers(self):
        corpus = [
            ('image/GIF; q=0.6; a=x, text/html; q=1.0', [('image/gif', {'a': 'x'}, F('0.6')), ('text/html', {}, F(1))]),
            ('a/b;q=0.5, c/d;q=0.5, e/f;q=0.50, g/h', [('a/b', {}, F(1, 2)), ('c/d', {}, F(1, 2)), ('e/f', {}, F(1, 2)), ('g/h', {}, F(1))]),
            ('text/csv;q=0, application/json;q=0.001', [('text/csv', {}, F(0)), ('application/json', {}, F(1, 1000))]),
            ('*/*;q=0.1,application/*;q=0.2,Application/JSON;Format=pandas-split;q=0.3',
             [('*/*', {}, F(1, 10)), ('application/*', {}, F(1, 5)), ('application/json', {'format': 'pandas-split'}, F(3, 10))]),
            (' text/csv ; a = "p;q" ;q=.5 ,\ttext/html', [('text/csv', {'a': 'p;q'}, F(1, 2)), ('text/html', {}, F(1))]),
            ('a;q=1;q=0.2, b;q=0.3', [('a', {}, F(1, 5)), ('b', {}, F(3, 10))]),
        ]
        cases = list(corpus)
        for _ in range(self.n(3000, 100000)):
            cases.append(self._header_spec())
        answers = self.model([sexp.dumps(['parse', h]) for h, _ in cases] + [sexp.dumps(['accept', h]) for h, _ in cases]
                             + [sexp.dumps(['content', h]) for h, _ in cases])
        n = len(cases)
        for i, (header, spec) in enumerate(cases):
            impl = self._impl_parse(header)
            m = sexp.loads(answers[i])
            qs = [q for _, _, q in spec]
            shape = f'header n={len(spec)} ' + ('ties' if len(set(qs)) < len(qs) else 'distinct-q')
            self.case(('h', header), shape, nontrivial=len(spec) >= 2,
                      sample={'header': header, 'parsed': [k for k, _ in impl[1]] if impl[0] == 'ok' else impl})
            ci = ['ok', [_canon_enc(k, o) for k, o in impl[1]]] if impl[0] == 'ok' else list(impl)
            cm = ['ok', [_canon_enc(k, dict(map(tuple, o))) for k, o in m[1]]] if m[0] == 'ok' else m
            if ci != cm:
                self.diverge('Encoding.parse', {'header': header, 'spec': self._spec_json(spec)}, ci, cm)
            bad = self._oracle_parse(header, spec, impl)
            if bad:
                self.violate(bad[0], {'kind': 'parse', 'header': header, 'spec': self._spec_json(spec)}, bad[1])
            if impl[0] != 'ok':
                continue
            # the gateway path: rest.py parses Accept, Generic.respond -> get_encoder(*accept);
            # Content-Type: parse(...)[0], Generic.receive -> get_decoder
            idx = self._impl_encoder(impl[1])
            midx = self._model_idx(answers[n + i])
            if idx != midx:
                self.diverge('get_encoder(*parse(accept))', {'header': header}, idx, midx)
            bad = self._oracle_encoder(impl[1], idx)
            if bad:
                self.violate(bad[0], {'kind': 'accept', 'header': header}, bad[1])
            didx = self._impl_decoder(impl[1][0])
            mdidx = self._model_idx(answers[2 * n + i])
            if didx != mdidx:
                self.diverge('get_decoder(parse(content-type)[0])', {'header': header}, didx, mdidx)
            bad = self._oracle_decoder(impl[1][0], didx)
            if bad:
                self.violate(bad[0], {'kind': 'content', 'header': header}, bad[1])

    @staticmethod
    def _spec_json(spec):
        return [[k, o, str(q)] for k, o, q in spec]

    def _malformed_stream(self):
        cases = ['', ',', 'a,,b', 'a;q=abc', 'a;q=', 'a;=x', 'a;b', 'a;b=1;b=2;c=3', ';', 'a;q="0.5', 'a;x="1;q=0";q=0.5,b;q=0.7']
        cases += [self._malformed() for _ in range(self.n(600, 20000))]
        answers = self.model([sexp.dumps(['parse', h]) for h in cases])
        for header, ans in zip(cases, answers):
            impl = self._impl_parse(header)
            m = sexp.loads(ans)
            self.case(('m', header), 'malformed -> ' + (impl[0] if impl[0] == 'ok' else str(impl[1])), nontrivial=True)
            ci = ['ok', [_canon_enc(k, o) for k, o in impl[1]]] if impl[0] == 'ok' else list(impl)
            cm = ['ok', [_canon_enc(k, dict(map(tuple, o))) for k, o in m[1]]] if m[0] == 'ok' else m
            if ci != cm:
                self.diverge('Encoding.parse (malformed stream)', {'header': header}, ci, cm)

    def _pairs(self):
        from forml.io import layout
        pool = self._pool()
        pairs = list(itertools.product(pool, pool))
        answers = self.model([sexp.dumps(['match', _enc_sexp(*p), _enc_sexp(*c)]) for p, c in pairs])
        objs = [layout.Encoding(k, **o) for k, o in pool]
        index = {id(x): i for i, x in enumerate(pool)}
        for (p, c), ans in zip(pairs, answers):
            impl = objs[index[id(p)]].match(objs[index[id(c)]])
            concrete = not any(ch in c[0] for ch in '*?[')
            self.case(('p', p[0], tuple(sorted(p[1].items())), c[0], tuple(sorted(c[1].items()))),
                      f'pair {"concrete" if concrete else "non-concrete"} -> {impl}', nontrivial=impl or bool(p[1]))
            if (ans == 'true') != impl:
                self.diverge('Encoding.match', {'pattern': list(p), 'other': list(c)}, impl, ans)
            if concrete and impl != spec_match(p[0], p[1], c[0], c[1]):
                self.violate(f'Encoding{p}.match(Encoding{c}) is {impl}: kind-as-wildcard {spec_wild(p[0], c[0])}, '
                             f'options subset {all(c[1].get(k) == v for k, v in p[1].items())}',
                             {'kind': 'match', 'pattern': list(p), 'other': list(c)},
                             'match-accepts-wrong' if impl else 'match-rejects-wrong')
        self.extra['pool_size'] = len(pool)
        return pool

    def _globs(self):
        import fnmatch
        rng = self.rng
        cases = [('[!]', '!'), ('[]]', ']'), ('[a-]', '-'), ('[-a]', '-'), ('[a-c-e]', 'd'), ('[c-a]', 'b'), ('[!c-a]', 'b'),
                 ('a[', 'a['), ('[]-a]', '^'), ('**a', 'a'), ('*a*b*', 'xaybz'), ('[a-b--c]', '-'), ('[a--]', 'b'), ('[--a]', '/')]
        for _ in range(self.n(2000, 60000)):
            if rng.random() < 0.5:
                pat = ''.join(rng.choice('aabc/-*?[]!') for _ in range(rng.randint(0, 7)))
            else:  # structured: literals, * ? and closed bracket expressions (negated, ranges, leading ] or -)
                pat = ''
                for _ in range(rng.randint(1, 4)):
                    piece = rng.random()
                    if piece < 0.45:
                        pat += '[' + rng.choice(['', '', '!']) + rng.choice(['', '', ']', '-']) + ''.join(
                            rng.choice('abc/-') for _ in range(rng.randint(1, 4))) + ']'
                    elif piece < 0.6:
                        pat += rng.choice('*?')
                    else:
                        pat += rng.choice('abc/')
            pat = re.sub(r'(?<!\[)!', 'b', pat)  # '!' only as a negation mark (see TRUSTED)
            if rng.random() < 0.4:
                name = ''.join(rng.choice('aabc/-]') for _ in range(rng.randint(0, 5)))
            else:  # derived from the pattern so that matches are frequent
                name, inset = '', False
                for i, c in enumerate(pat):
                    if c == '*':
                        name += ''.join(rng.choice('abc/') for _ in range(rng.randint(0, 2)))
                    elif c == '?':
                        name += rng.choice('abc/-')
                    elif c == '[' and not inset:
                        inset = True
                        body = pat[i + 1:].split(']')[0] or ']'
                        name += rng.choice(body if rng.random() < 0.7 and not body.startswith('!') else 'abc-]/')
                    elif c == ']' and inset:
                        inset = False
                    elif not inset:
                        name += c
            cases.append((pat, name))
        answers = self.model([sexp.dumps(['glob', p, s]) for p, s in cases])
        for (p, s), ans in zip(cases, answers):
            impl = fnmatch.fnmatchcase(s, p)
            self.case(('g', p, s), f'glob {"[" if "[" in p else "*?" if any(c in p for c in "*?") else "lit"} -> {impl}',
                      nontrivial=any(c in p for c in '*?['))
            if (ans == 'true') != impl:
                self.diverge('fnmatch', {'pattern': p, 'name': s}, impl, ans)

    def _negotiation(self, pool):
        rng = self.rng
        cases = [[('foo/bar', {}), ('application/*', {})], [], [('*/*', {})], [('text/*', {}), ('application/json', {})]]
        for _ in range(self.n(1500, 20000)):
            cases.append([rng.choice(pool) for _ in range(rng.choice([1, 1, 2, 2, 3, 4]))])
        answers = self.model([sexp.dumps(['encoder', [_enc_sexp(*t) for t in ts]]) for ts in cases])
        for ts, ans in zip(cases, answers):
            idx = self._impl_encoder(ts)
            midx = self._model_idx(ans)
            self.case(('e', tuple((k, tuple(sorted(o.items()))) for k, o in ts)),
                      f'encoder n={len(ts)} -> {"unsupported" if idx is None else "#" + str(idx)}', nontrivial=len(ts) >= 2)
            if idx != midx:
                self.diverge('get_encoder', {'targets': [list(t) for t in ts]}, idx, midx)
            bad = self._oracle_encoder(ts, idx)
            if bad:
                self.violate(bad[0], {'kind': 'encoder', 'targets': [list(t) for t in ts]}, bad[1])
        answers = self.model([sexp.dumps(['decoder', _enc_sexp(*src)]) for src in pool])
        for src, ans in zip(pool, answers):
            idx = self._impl_decoder(src)
            midx = self._model_idx(ans)
            self.case(('d', src[0], tuple(sorted(src[1].items()))),
                      f'decoder -> {"unsupported" if idx is None else "#" + str(idx)}', nontrivial=True)
            if idx != midx:
                self.diverge('get_decoder', {'source': list(src)}, idx, midx)
            bad = self._oracle_decoder(src, idx)
            if bad:
                self.violate(bad[0], {'kind': 'decoder', 'source': list(src)}, bad[1])

    # ---- codec round trip -------------------------------------------------------------------------------
    def _table(self, slice_only: bool):
        rng = self.rng
        ncol = rng.randint(1, 4)
        names = rng.sample(['A', 'B', 'col_1', 'x', 'Label', 'z9'] + ([] if slice_only else ['x y', 'a,b']), ncol)
        kinds = [rng.choice(['int', 'str']) for _ in range(ncol)]
        alphabet = 'xyzwk' if slice_only else 'xyzwk ,"\'-'
        rows = []
        for _ in range(rng.randint(1, 5)):
            row = []
            for kd in kinds:
                if kd == 'int':
                    row.append(rng.randint(-1000, 1000))
                else:
                    body = ''.join(rng.choice(alphabet) for _ in range(rng.randint(0, 4)))
                    row.append(rng.choice('xyzwk') + body + rng.choice('xyzwk'))
            rows.append(row)
        return names, kinds, rows

    def _roundtrip_once(self, names, kinds, rows, enc_idx, dec_enc):
        """encode with ENCODERS[enc_idx], decode with get_decoder(dec_enc); returns (status, detail, encoded text)"""
        from forml.io import dsl, layout
        from forml.io.layout import _codec
        schema = dsl.Schema.from_fields(*(dsl.Field(dsl.Integer() if kd == 'int' else dsl.String(), name=nm)
                                          for nm, kd in zip(names, kinds)))
        encoder = _codec.ENCODERS[enc_idx]
        data = encoder.dumps(layout.Outcome(schema, [list(r) for r in rows]))
        try:
            decoder = layout.get_decoder(layout.Encoding(dec_enc[0], **dec_enc[1]))
            entry = decoder.loads(data)
        except FileNotFoundError:
            return 'unusable', 'pandas.read_json treats the literal as a path', data
        got_names = [f.name for f in entry.schema]
        got_rows = [[int(v) if kd == 'int' and not isinstance(v, str) and v == v else v for v, kd in zip(r, kinds)]
                    for r in entry.data.to_rows()]
        got_rows = [[v if isinstance(v, (int, str)) else repr(v) for v in r] for r in got_rows]
        if got_names != list(names) or got_rows != [list(r) for r in rows]:
            retyped = (encoder.encoding.kind == 'text/csv' and got_names == list(names) and len(got_rows) == len(rows)
                       and all(g == w or (kd == 'str' and looks_typed(w))
                               for gr, wr in zip(got_rows, rows) for g, w, kd in zip(gr, wr, kinds)))
            return 'differs', {'columns': got_names, 'rows': got_rows, 'retyped_text_only': retyped}, data
        return 'same', None, data

    @staticmethod
    def _rt_signature(label: str, detail) -> str:
        """the known root cause (untyped CSV: text cells that look like numbers / NA / booleans are re-typed by the
        reader) gets its own key; any other difference of any pair keeps the pair's key"""
        return 'roundtrip-csv-text-retyped' if detail.get('retyped_text_only') else 'roundtrip-' + label

    def _codec_pairs(self):
        """(label, encoder index, content type given to get_decoder): the decoder's pattern matches the encoder's encoding"""
        pairs = []
        for i, (k, o) in enumerate(self._encs):
            pairs.append((f'{k};{o.get("format", "")}', i, (k, o)))  # the declared encoding itself
        for i, (k, o) in enumerate(self._encs):
            if k == 'application/json' and o.get('format') in ('pandas-records', 'pandas-columns'):
                pairs.append((f'{k};{o["format"]} as plain application/json', i, (k, {})))
        return pairs

    def _roundtrip(self):
        pairs = self._codec_pairs()
        usable: dict = {}
        tables = [(['A', 'B'], ['int', 'str'], [[1, 'a'], [2, 'b']])]
        tables += [self._table(slice_only=False) for _ in range(self.n(120, 1500))]
        for names, kinds, rows in tables:
            for label, ei, dec in pairs:
                if usable.get(label) is False:
                    continue
                status, detail, data = self._roundtrip_once(names, kinds, rows, ei, dec)
                if status == 'unusable':
                    usable[label] = False
                    self.case(('rt-unusable', label), f'roundtrip {label} unusable here', nontrivial=False)
                    continue
                usable[label] = True
                self.case(('rt', label, tuple(names), tuple(map(tuple, rows))), f'roundtrip {label}', nontrivial=len(rows) > 1)
                if status == 'differs':
                    self.violate(f'{label}: dumps -> loads returned {detail} for columns {names} rows {rows}',
                                 {'kind': 'roundtrip', 'names': names, 'kinds': kinds, 'rows': rows, 'encoder': list(self._encs[ei]), 'decoder': list(dec)},
                                 self._rt_signature(label, detail))
        # text cells that look typed: JSON keeps them (typed format), text/csv does not (known finding C19-F1)
        for _ in range(self.n(40, 400)):
            names, kinds, rows = self._table(slice_only=True)
            if 'str' not in kinds:
                kinds[0] = 'str'
            col = kinds.index('str')
            whole = self.rng.random() < 0.6
            for r in rows:
                for j, kd in enumerate(kinds):
                    if kd == 'str' and isinstance(r[j], int):
                        r[j] = 'x'
                if whole or self.rng.random() < 0.5:
                    r[col] = self.rng.choice(TYPED_TEXT)
            for label, ei, dec in pairs:
                if not usable.get(label):
                    continue
                status, detail, data = self._roundtrip_once(names, kinds, rows, ei, dec)
                self.case(('rt-typed', label, tuple(names), tuple(map(tuple, rows))), f'roundtrip typed-looking text {label} -> {status}',
                          nontrivial=True)
                if status == 'differs':
                    self.violate(f'{label}: dumps -> loads returned {detail} for columns {names} rows {rows}',
                                 {'kind': 'roundtrip', 'names': names, 'kinds': kinds, 'rows': rows,
                                  'encoder': list(self._encs[ei]), 'decoder': list(dec)}, self._rt_signature(label, detail))
        self.extra['codec_pairs'] = {k: ('exercised' if v else 'unusable in this environment (pandas.read_json)') for k, v in usable.items()}
        if not any(usable.values()):
            raise fw.MachineryError('no codec pair is usable in this environment')
        # the unquoted CSV slice against the Lean token model (text and cells)
        csv = next((i for i, (k, _) in enumerate(self._encs) if k == 'text/csv'), None)
        if csv is None:
            return
        slices = [self._table(slice_only=True) for _ in range(self.n(100, 1000))]
        lines = [sexp.dumps(['csv', [list(n)] + [[str(v) for v in r] for r in rows]]) for n, _, rows in slices]
        for (names, kinds, rows), ans in zip(slices, self.model(lines)):
            _, _, data = self._roundtrip_once(names, kinds, rows, csv, ('text/csv', {}))
            m = sexp.loads(ans)
            self.case(('csv', tuple(names), tuple(map(tuple, rows))), 'csv slice vs model', nontrivial=True)
            want_cells = [list(names)] + [[str(v) for v in r] for r in rows]
            if m[0] != data.decode() or m[1] != want_cells:
                self.diverge('text/csv dumps on the unquoted slice', {'names': names, 'rows': rows}, data.decode(), m)

    # ---- driver of the check ------------------------------------------------------------------------------
    def correspondence(self):
        self._encs, self._decs = self._live_tables()
        self.extra['tables'] = {'ENCODERS': [k + ''.join(f'; {a}={b}' for a, b in o.items()) for k, o in self._encs],
                                'DECODERS': [k + ''.join(f'; {a}={b}' for a, b in o.items()) for k, o in self._decs]}
        self._headers()
        self._malformed_stream()
        pool = self._pairs()
        self._globs()
        self._negotiation(pool)
        self._roundtrip()
        self._generic()

    def _generic(self):
        """`application.Generic.receive/respond` use exactly get_decoder / get_encoder"""
        from forml import application
        from forml.io import dsl, layout
        from forml.io.layout import _codec
        app = application.Generic('c19')
        schema = dsl.Schema.from_fields(dsl.Field(dsl.Integer(), name='A'), dsl.Field(dsl.String(), name='B'))
        outcome = layout.Outcome(schema, [[1, 'x'], [2, 'y']])
        for header in ['text/csv', 'foo/bar, text/*;q=0.5', 'application/json;q=0.1, text/csv;q=0.2', '*/*', 'foo/bar',
                       'application/json; format=pandas-split']:
            accept = layout.Encoding.parse(header)
            want = self._impl_encoder([(e.kind, dict(e.options)) for e in accept])
            try:
                payload = app.respond(outcome, accept, None)
                got = next(i for i, c in enumerate(_codec.ENCODERS) if c.encoding == payload.encoding)
                same = payload.data == _codec.ENCODERS[got].dumps(outcome)
            except layout.Encoding.Unsupported:
                got, same = None, True
            self.case(('generic-respond', header), 'Generic.respond', nontrivial=True)
            if got != want or not same:
                self.violate(f'Generic.respond for Accept {header!r} used encoder {got}, get_encoder gives {want}',
                             {'kind': 'generic-respond', 'header': header}, 'generic-respond')
        request = layout.Request(b'A,B\n1,x\n2,y\n', layout.Encoding.parse('Text/CSV; charset=utf-8')[0])
        decoded = app.receive(request)
        rows = [[int(list(r)[0]), list(r)[1]] for r in decoded.entry.data.to_rows()]
        self.case(('generic-receive',), 'Generic.receive', nontrivial=True)
        if rows != [[1, 'x'], [2, 'y']] or request.accept != (request.payload.encoding,):
            self.violate(f'Generic.receive decoded {rows}', {'kind': 'generic-receive'}, 'generic-receive')
        try:
            app.receive(layout.Request(b'x', layout.Encoding('foo/bar')))
            self.violate('Generic.receive accepted foo/bar', {'kind': 'generic-receive-unsupported'}, 'generic-receive')
        except layout.Encoding.Unsupported:
            pass

    # ---- failing-input search ---------------------------------------------------------------------------
    def search(self, reason):
        """Run the oracles on the real code around the diverging cases: sub-headers of diverging headers
        (single ranges, adjacent pairs, prefixes), every pool encoding as a one-element Accept / Content-Type."""
        self._encs, self._decs = self._live_tables()
        tried = 0
        for d in self.divergences[:50]:
            case = d.case if isinstance(d.case, dict) else {}
            header = case.get('header')
            if header is None:
                continue
            parts = [p for p in header.split(',')]
            subs = {p for p in parts} | {','.join(parts[i:i + 2]) for i in range(len(parts))} | {','.join(parts[:i]) for i in range(1, len(parts) + 1)}
            for sub in sorted(subs, key=len):
                impl = self._impl_parse(sub)
                tried += 1
                if impl[0] != 'ok':
                    continue
                idx = self._impl_encoder(impl[1])
                bad = self._oracle_encoder(impl[1], idx)
                if bad:
                    self.violate(bad[0], {'kind': 'accept', 'header': sub}, bad[1])
                    break
                bad = self._oracle_decoder(impl[1][0], self._impl_decoder(impl[1][0]))
                if bad:
                    self.violate(bad[0], {'kind': 'content', 'header': sub}, bad[1])
                    break
        for _ in range(2000):
            header, spec = self._header_spec()
            impl = self._impl_parse(header)
            tried += 1
            bad = self._oracle_parse(header, spec, impl)
            if bad:
                # shrink: drop ranges while the oracle still fails
                changed = True
                while changed and len(spec) > 1:
                    changed = False
                    for i in range(len(spec)):
                        parts = header.split(',')
                        if len(parts) != len(spec):
                            break
                        h2, s2 = ','.join(parts[:i] + parts[i + 1:]), spec[:i] + spec[i + 1:]
                        b2 = self._oracle_parse(h2, s2, self._impl_parse(h2))
                        if b2 and b2[1] == bad[1]:
                            header, spec, bad, changed = h2, s2, b2, True
                            break
                self.violate(bad[0], {'kind': 'parse', 'header': header, 'spec': self._spec_json(spec)}, bad[1])
                break
        self.notes.append(f'failing-input search ({reason}): {tried} headers re-examined by the oracles on the real code')

    def replay_finding(self, entry):
        w = entry['witness']
        self._encs, self._decs = self._live_tables()
        kind = w.get('kind')
        if kind == 'parse':
            spec = [(k, o, F(q)) for k, o, q in w['spec']]
            bad = self._oracle_parse(w['header'], spec, self._impl_parse(w['header']))
        elif kind in ('accept', 'content'):
            impl = self._impl_parse(w['header'])
            if impl[0] != 'ok':
                return fw.Violation(f'Encoding.parse raised {impl[1]}', w, 'parse-raises')
            if kind == 'accept':
                bad = self._oracle_encoder(impl[1], self._impl_encoder(impl[1]))
            else:
                bad = self._oracle_decoder(impl[1][0], self._impl_decoder(impl[1][0]))
        elif kind == 'match':
            from forml.io import layout
            p, c = w['pattern'], w['other']
            impl = layout.Encoding(p[0], **p[1]).match(layout.Encoding(c[0], **c[1]))
            bad = None if impl == spec_match(p[0], p[1], c[0], c[1]) else (
                f'Encoding.match is {impl}', 'match-accepts-wrong' if impl else 'match-rejects-wrong')
        elif kind == 'encoder':
            ts = [(k, o) for k, o in w['targets']]
            bad = self._oracle_encoder(ts, self._impl_encoder(ts))
        elif kind == 'decoder':
            src = (w['source'][0], w['source'][1])
            bad = self._oracle_decoder(src, self._impl_decoder(src))
        elif kind == 'roundtrip':
            ei = next((i for i, e in enumerate(self._encs) if list(e) == list(w['encoder'])), None)
            if ei is None:
                return None
            status, detail, _ = self._roundtrip_once(w['names'], w['kinds'], w['rows'], ei, tuple(w['decoder']))
            bad = ((f'dumps -> loads returned {detail} for rows {w["rows"]}', self._rt_signature(w['encoder'][0], detail))
                   if status == 'differs' else None)
        else:
            return None
        return fw.Violation(bad[0], w, bad[1]) if bad else None


if __name__ == '__main__':
    raise SystemExit(fw.run(C19))
