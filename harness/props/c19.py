"""C19 — content negotiation (Encoding.parse / match, get_encoder, get_decoder, codec round trip)
vs lean/ForML/Model/Codec.lean."""
from __future__ import annotations

import fractions
import functools
import itertools
import re
import typing

from core import framework as fw
from core import sexp

F = fractions.Fraction

# ---- pools ----------------------------------------------------------------------------------------
CONCRETE_KINDS = [
    'application/json', 'text/csv', 'text/html', 'text/plain', 'image/gif', 'application/xml',
    'application/octet-stream', 'application/vnd.api+json', 'foo/bar', 'text/tsv', 'application/jsonl',
]
PATTERN_KINDS = [
    '*/*', '*', 'application/*', 'text/*', '*/json', '*/csv', 'app*', 't*/c*v', 'application/?son', 'text/?sv',
    'text/[ct]sv', 'text/[!t]sv', 'application/[j-k]son', 'application/[!a-i]son', '*/[jc]s*', 'text/c??',
    '??????????????/*', 'application/json*', '*json', 'image/*', '[at]*/*', 'text/[', 'text/[]c]sv', 'text/[c-]sv',
]
OPT_KEYS = ['format', 'charset', 'version', 'a']
OPT_VALUES = {
    'format': ['pandas-records', 'pandas-columns', 'pandas-index', 'pandas-split', 'pandas-table', 'pandas-values',
               'Pandas-Records', 'other'],
    'charset': ['utf-8', 'UTF-8', 'latin1'],
    'version': ['1', '1.0', '2'],
    'a': ['x', 'y', 'x y', 'k=v', 'p;q', 'say "hi"', 'back\\slash', '"', ''],
}
Q_POOL = ['0', '0.0', '0.1', '0.25', '0.3', '0.30', '0.300', '0.5', '.5', '0.50', '0.500', '0.501', '0.75', '0.8',
          '0.9', '0.999', '1', '1.', '1.0', '1.00', '1.000', '2', '0.001', '00.5', '01',
          # out of the RFC range, still numbers for float(): ordered like any other key
          '-1', '-0.5', '+0.5', '+1', '-0', '-0.0', '+.5', '1.5', '10', '-.001']
BAD_Q = ['abc', '', '1..2', '0.5x', 'x', '.', '--1', '0.5.', '1/2', 'q']
WS = ['', '', '', ' ', ' ', '  ', '\t', ' \t ']
WS_EXOTIC = ['\x0c', '\x0b', '\r\n', '\x1f', '\x1c ', '\n']  # str.isspace / regex \s beyond blank and tab


# texts that pandas.read_csv re-types (numbers, missing-value markers, booleans)
TYPED_TEXT = ['007', '12', '0', '-5', '1e3', '3.5', 'NA', 'nan', 'null', 'None', 'True', 'false', 'N/A', 'inf']
_NUMERIC = re.compile(r'[+-]?(\d+\.?\d*|\.\d+)([eE][+-]?\d+)?$|[+-]?inf$', re.I)
_NA = {'', '#N/A', '#N/A N/A', '#NA', '-1.#IND', '-1.#QNAN', '-NaN', '-nan', '1.#IND', '1.#QNAN', '<NA>', 'N/A', 'NA',
       'NULL', 'NaN', 'None', 'n/a', 'nan', 'null'}
_BOOL = {'true', 'false'}


def looks_typed(text: str) -> bool:
    return bool(_NUMERIC.match(text)) or text in _NA or text.lower() in _BOOL


def _canon_enc(kind: str, options: typing.Mapping[str, str]):
    return [kind, sorted([k, v] for k, v in options.items())]


def _enc_sexp(kind: str, options: typing.Mapping[str, str]):
    return [kind, [[k, v] for k, v in options.items()]]


# ---- oracle pieces written from the property text (no fnmatch, no regex, no sorted-on-impl) ---------
def _spec_tokens(pat: str):
    """'*' any run, '?' one character, '[seq]' one of / '[!seq]' none of (with a-z ranges, a leading ']' literal),
    an unterminated '[' is literal."""
    out = []
    i, n = 0, len(pat)
    while i < n:
        c = pat[i]
        if c == '*':
            out.append(('star',))
        elif c == '?':
            out.append(('any',))
        elif c == '[':
            j = i + 1
            neg = j < n and pat[j] == '!'
            if neg:
                j += 1
            start = j
            if j < n and pat[j] == ']':
                j += 1
            while j < n and pat[j] != ']':
                j += 1
            if j >= n:
                out.append(('lit', '['))
            else:
                body = pat[start:j]
                members = []
                k = 0
                while k < len(body):
                    if k + 2 < len(body) and body[k + 1] == '-':
                        members.append((body[k], body[k + 2]))
                        k += 3
                    else:
                        members.append((body[k], body[k]))
                        k += 1
                out.append(('set', neg, tuple(members)))
                i = j
        else:
            out.append(('lit', c))
        i += 1
    return out


def spec_wild(pat: str, name: str) -> bool:
    toks = _spec_tokens(pat)

    @functools.lru_cache(maxsize=None)
    def go(i: int, j: int) -> bool:
        if i == len(toks):
            return j == len(name)
        t = toks[i]
        if t[0] == 'star':
            return any(go(i + 1, k) for k in range(j, len(name) + 1))
        if j == len(name):
            return False
        c = name[j]
        if t[0] == 'any':
            ok = True
        elif t[0] == 'lit':
            ok = t[1] == c
        else:
            ok = any(lo <= c <= hi for lo, hi in t[2]) != t[1]
        return ok and go(i + 1, j + 1)

    return go(0, 0)


def spec_match(pk: str, po: dict, ck: str, co: dict) -> bool:
    """the property: kind matches as a wildcard pattern and all of the pattern's options are present with equal values"""
    return spec_wild(pk, ck) and all(k in co and co[k] == v for k, v in po.items())


class C19(fw.Check):
    ID = 'C19'
    LEAN_MODULES = ['ForML.Props.C19']
    DRIVER = 'drv_c19'
    RULE = ('Headers: 1..5 (sometimes 6 or 8) media ranges from pools of 11 concrete kinds and 24 wildcard patterns (*, ?, [..], '
            '[!..], ranges, unterminated [), random upper-casing of kinds and option names, 0..3 options with distinct names '
            '(token or quoted-string values incl. blanks, ;, =, escaped quotes and backslashes, empty), q from a 35-value pool built '
            'for ties (missing, 0, 1., .5, 0.50, 0.500, Q=, quoted, signed and > 1 values), random blanks/tabs around , ; =.  A '
            'header case is distinct by its text and non-trivial when it has >= 2 ranges.  Each header is also used as Accept '
            '(get_encoder(*parse(h))) and as Content-Type (get_decoder(parse(h)[0])).  A separate stream outside the grammar '
            '(q not a number / empty / repeated, empty items, parameters without =, stray ; and quotes, commas inside quoted '
            'strings, Python-only white space) is compared with the model and reported as a fidelity note only.  Pairs: every '
            '(pattern, other) pair of a pool of >= 40 encodings (oracle on the concrete others); random glob strings over '
            '{a,b,c,/,-,*,?,[,],!} against fnmatch.  Encoders: 1..4 pool encodings; decoders: every pool encoding.  REST: the '
            'gateway route driven through starlette with generated Content-Type and Accept headers (status 415 vs chosen '
            'response encoding).  Round trip: tables of 1..4 columns x 1..5 rows of ints, texts (blanks, commas, quotes) and '
            'floats of <= 10 decimal places for text/csv, pandas-records -> application/json, pandas-columns -> '
            'application/json (the format=pandas-* decoders are attempted and counted as unusable when pandas.read_json refuses a '
            'literal string); plus typed-looking text cells (C19-F1) and floats of 11..14 decimal places (C19-F2).  Oracle on '
            'the real code: order = sort by (-q, position) of the generated ranges; match = own wildcard matcher + option '
            'subset; encoder = any encoding accepted by the first client pattern that accepts a supported one, error iff none; '
            'decoder = its pattern accepts the content type, error iff none; decoded table == table (numbers by value).')
    TRUSTED = [
        'cgi.parse_header, fnmatch.translate, float(): the slices reachable from the generated grammar are modelled and '
        'correspondence-checked; beyond it (q with exponent/inf/nan/_/>3 decimals, non-ASCII blanks or case, bracket '
        'bodies where a dropped range is followed by "!") modelled-not-verified; headers outside the RFC grammar are compared '
        'with the model as a fidelity note, not as a verdict',
        'pandas JSON/CSV writers and readers: sampled by the round trip only; the Lean round trip theorems cover the '
        'unquoted text/csv token slice, single typed cells and the ten-place rounding of float cells',
        'CPython sorted() stability (the model is a stable insertion sort; tie order is compared on every header)',
        'starlette test client (the REST route is driven in-process, no socket)',
    ]
    ASSUMPTIONS = ['header text is ASCII; q has at most three decimals (RFC 9110 grammar), sign and values > 1 included',
                   'round trip tables: at least one row (the decoder refuses an empty frame by design), distinct column names, '
                   'int cells, text cells, float cells that are decimal numbers of at most 15 significant digits (full 17-digit '
                   'doubles are not compared: pandas.read_csv\'s default converter is 1 ulp off on about a quarter of them)',
                   'the format=pandas-* JSON decoders cannot run under the installed pandas 3 (read_json takes a literal as a path): '
                   'their negotiation is checked, their decoding is not']

    # ---- tables -----------------------------------------------------------------------------------
    @staticmethod
    def _live_tables():
        from forml.io.layout import _codec

        encs = [(e.encoding.kind, dict(e.encoding.options)) for e in _codec.ENCODERS]
        decs = [(enc.kind, dict(enc.options)) for _, enc in _codec.DECODERS]
        return encs, decs

    def gen_tables(self):
        import sys
        if fw.REPO not in sys.path:
            sys.path.insert(0, fw.REPO)
        encs, decs = self._live_tables()

        def chars(s: str) -> str:
            def one(c):
                if c == "'":
                    return "'\\''"
                if c == '\\':
                    return "'\\\\'"
                if not (32 <= ord(c) < 127):
                    return f'(Char.ofNat {ord(c)})'
                return f"'{c}'"
            return '[' + ', '.join(one(c) for c in s) + ']'

        def enc(kind, opts):
            o = ', '.join(f'({chars(k)}, {chars(v)})' for k, v in opts.items())
            header = kind + ''.join(f'; {k}={v}' for k, v in opts.items())
            return f'  -- {header}\n  ⟨{chars(kind)}, [{o}]⟩'

        body = ['/- GENERATED by harness/props/c19.py gen_tables() from the live forml.io.layout._codec.ENCODERS / DECODERS',
                '   (order and encodings). Do not edit. -/', 'import ForML.Model.Codec', 'namespace ForML.Codec.Tables', '',
                '/-- `ENCODERS[i].encoding` -/', 'def encoders : List Encoding := [',
                ',\n'.join(enc(k, o) for k, o in encs), ']', '',
                '/-- `DECODERS[i][1]` -/', 'def decoders : List Encoding := [',
                ',\n'.join(enc(k, o) for k, o in decs), ']', '', 'end ForML.Codec.Tables', '']
        return {'ForML/Generated/C19Tables.lean': '\n'.join(body)}

    # ---- generators -------------------------------------------------------------------------------
    def _case_kind(self, kind: str) -> str:
        r = self.rng.random()
        if r < 0.7:
            return kind
        if r < 0.8:
            return kind.upper()
        return ''.join(c.upper() if self.rng.random() < 0.4 else c for c in kind)

    def _ws(self, exotic: bool = False) -> str:
        if exotic and self.rng.random() < 0.05:
            return self.rng.choice(WS_EXOTIC)
        return self.rng.choice(WS)

    def _range_spec(self, ties: typing.Optional[list] = None, kinds: typing.Optional[list] = None, exotic: bool = False):
        """one media range: (text, expected kind, expected options, q).  `exotic` adds what is outside the header grammar
        of RFC 9110 (parameters without '=', a repeated q, Python-only white space): model comparison only."""
        rng = self.rng
        kind = rng.choice(kinds) if kinds else rng.choice(CONCRETE_KINDS if rng.random() < 0.6 else PATTERN_KINDS)
        params = []  # (key text, value text or None, effective key, effective value)
        nopt = rng.choice([0, 0, 0, 1, 1, 2, 3])
        for k in ([rng.choice(OPT_KEYS) for _ in range(nopt)] if exotic else rng.sample(OPT_KEYS, nopt)):  # repeated keys: exotic only
            v = rng.choice(OPT_VALUES[k])
            ktxt = k if rng.random() < 0.8 else k.upper()
            if any(c in v for c in ' ;"') or v == '' and rng.random() < 0.5 or rng.random() < 0.2:
                vtxt = '"' + v.replace('\\', '\\\\').replace('"', '\\"') + '"'  # quoted-string with quoted-pairs
            else:
                vtxt = v
            params.append((ktxt, vtxt, k, v))
        if exotic and rng.random() < 0.2:
            params.append((rng.choice(['flag', 'x', 'Q']), None, None, None))  # no '=': ignored by cgi
        qsrc = rng.random()
        if qsrc < 0.7:
            q = rng.choice(ties) if ties and rng.random() < 0.6 else rng.choice(Q_POOL)
            qtxt = q if rng.random() < 0.9 else '"' + q + rng.choice(['', ' ']) + '"'
            params.insert(rng.randint(0, len(params)), ('q' if rng.random() < 0.85 else 'Q', qtxt, 'q', q))
            if exotic and rng.random() < 0.1:  # a repeated q: the last one counts (dict semantics)
                q2 = rng.choice(Q_POOL)
                params.append(('q', q2, 'q', q2))
        text = self._ws(exotic) + self._case_kind(kind) + self._ws(exotic)
        eff: dict = {}
        for ktxt, vtxt, k, v in params:
            text += ';' + self._ws(exotic)
            if vtxt is None:
                text += ktxt
            else:
                text += ktxt + rng.choice(['', '', ' ']) + '=' + rng.choice(['', '', ' ']) + vtxt
                eff[k] = v
            text += self._ws(exotic)
        q = F(eff.pop('q')) if 'q' in eff else F(1)
        return text, kind.strip().lower(), eff, q

    def _header_spec(self, kinds: typing.Optional[list] = None, exotic: bool = False, sizes=(1, 2, 2, 3, 3, 3, 4, 4, 5, 5, 6, 8)):
        rng = self.rng
        n = rng.choice(sizes)
        ties = rng.sample(Q_POOL, 2) + ['0.5', '0.50']
        items = [self._range_spec(ties, kinds, exotic) for _ in range(n)]
        text = items[0][0]
        for it in items[1:]:
            text += self._ws(exotic) + ',' + self._ws(exotic) + it[0]
        return text, [(k, o, q) for _, k, o, q in items]

    def _malformed(self) -> str:
        rng = self.rng
        style = rng.randrange(7)
        base, _ = self._header_spec(exotic=True)
        if style == 6:
            return base
        if style == 0:
            return base + rng.choice([';q=', '; q = ', ';Q=']) + rng.choice(BAD_Q)
        if style == 1:
            return rng.choice(['', ',', ',,', ' , ', base + ',', ',' + base, base + ',,' + base])
        if style == 2:
            return base.replace(';', ';;', 1) + rng.choice([';', ';;', '; ;x'])
        if style == 3:
            return base + rng.choice([';a="x', ';a="x;q=0.1', ';a="x\\";q=0.1";q=0.2', ';a="\\\\";q=0.3', ';a="', ';a=""', ';a="""',
                                      ';a="x,y"', ';a="x , y";q=0.4', ';a="x,b/c;q=0.9"', ';q="0.4,0.9"'])
        if style == 4:
            return rng.choice(['a;q=abc,b', 'a;q=0.5,b;q=x', 'a,b;q=', ';q=0.5', '=;q=0.2,a', 'a;=x;q=0.7', 'a; =  ;q=.1,b'])
        return base.replace('q=', 'q=' + rng.choice(BAD_Q), 1) if 'q=' in base else base + ';q=' + rng.choice(BAD_Q)

    def _pool(self):
        """>= 40 encodings: (kind, options) — patterns and concretes, with and without options"""
        rng = self.rng
        pool = [(k, o) for k, o in self._encs] + [(k, o) for k, o in self._decs]
        pool += [(k, {}) for k in CONCRETE_KINDS] + [(k, {}) for k in PATTERN_KINDS]
        for _ in range(24):
            kind = rng.choice(CONCRETE_KINDS[:3] + PATTERN_KINDS[:6])
            ks = rng.sample(OPT_KEYS, rng.choice([1, 1, 2, 3]))
            pool.append((kind, {k: rng.choice(OPT_VALUES[k]) for k in ks}))
        seen, out = set(), []
        for k, o in pool:
            key = (k, tuple(sorted(o.items())))
            if key not in seen:
                seen.add(key)
                out.append((k, o))
        return out

    # ---- implementation adapters --------------------------------------------------------------------
    @staticmethod
    def _impl_parse(header: str):
        from forml.io import layout
        try:
            return 'ok', [(e.kind, dict(e.options)) for e in layout.Encoding.parse(header)]
        except ValueError:
            return 'error', 'badQ'
        except Exception as e:  # pylint: disable=broad-except
            return 'error', type(e).__name__

    def _impl_encoder(self, encs):
        from forml.io import layout
        from forml.io.layout import _codec
        try:
            codec = layout.get_encoder(*[layout.Encoding(k, **o) for k, o in encs])
        except layout.Encoding.Unsupported:
            return None
        return next(i for i, c in enumerate(_codec.ENCODERS) if c is codec)

    def _impl_decoder(self, enc):
        from forml.io import layout
        from forml.io.layout import _codec
        try:
            codec = layout.get_decoder(layout.Encoding(enc[0], **enc[1]))
        except layout.Encoding.Unsupported:
            return None
        return next(i for i, (c, _) in enumerate(_codec.DECODERS) if c is codec)

    @staticmethod
    def _model_idx(ans: str):
        m = sexp.loads(ans)
        if m == 'none':
            return None
        if isinstance(m, list) and m[0] == 'some':
            return int(m[1])
        return ('model', m)

    def _outside(self, what, case, impl, model):
        """model and code differ on an input the property does not speak about (a header outside its grammar, a
        non-concrete encoding where a concrete one is expected): recorded in the evidence, not a verdict"""
        self._outside_list.append({'what': what, 'case': case, 'impl': impl, 'model': model})

    def _outside_report(self):
        self.extra['outside_property_mismatches'] = len(self._outside_list)
        if self._outside_list:
            self.extra['outside_property_samples'] = self._outside_list[:3]
            self.notes.append(f'{len(self._outside_list)} inputs outside the property (malformed headers, non-concrete content types) are '
                              f'handled differently by model and code (first: {self._outside_list[0]}) - model fidelity note, not a verdict')

    # ---- oracles --------------------------------------------------------------------------------------
    def _oracle_parse(self, header, spec, impl):
        """spec = generated ranges [(kind, options, q)]; expected = ordered by descending q, ties in header order"""
        order = sorted(range(len(spec)), key=lambda i: (-spec[i][2], i))
        want = [_canon_enc(spec[i][0], spec[i][1]) for i in order]
        if impl[0] != 'ok':
            return f'Encoding.parse raised {impl[1]} on a well-formed header', 'parse-raises'
        got = [_canon_enc(k, o) for k, o in impl[1]]
        if got == want:
            return None
        if sorted(map(repr, got)) != sorted(map(repr, want)):
            return f'Encoding.parse returned {got}, the header holds {want}', 'parse-content'
        return f'Encoding.parse order {[g[0] for g in got]} but by descending q (ties in header order) {[w[0] for w in want]}', 'parse-order'

    def _oracle_encoder(self, ts, idx):
        """first client pattern accepting any supported encoding decides; error iff none"""
        for k, o in ts:
            accepted = [i for i, (ek, eo) in enumerate(self._encs) if spec_match(k, o, ek, eo)]
            if accepted:
                if idx is None:
                    return f'get_encoder raised Unsupported although {k} {o} accepts encoder #{accepted[0]}', 'encoder-unsupported'
                if idx not in accepted:
                    return (f'get_encoder chose #{idx} {self._encs[idx]} which the first satisfiable client pattern '
                            f'{k} {o} does not accept'), 'encoder-choice'
                return None
        if idx is not None:
            return f'get_encoder chose #{idx} although no client pattern accepts a supported encoding', 'encoder-spurious'
        return None

    def _oracle_decoder(self, src, idx):
        k, o = src
        if any(ch in k for ch in '*?['):
            return None  # not a concrete content type: the property does not speak about it
        accepted = [i for i, (dk, do) in enumerate(self._decs) if spec_match(dk, do, k, o)]
        if idx is None:
            if accepted:
                return f'get_decoder raised Unsupported for {k} {o} although decoder #{accepted[0]} declares it', 'decoder-unsupported'
            return None
        if idx not in accepted:
            return f'get_decoder chose #{idx} {self._decs[idx]} which does not match {k} {o}', 'decoder-choice'
        return None

    # ---- streams --------------------------------------------------------------------------------------
    def _headers(self):
        corpus = [
            ('image/GIF; q=0.6; a=x, text/html; q=1.0', [('image/gif', {'a': 'x'}, F('0.6')), ('text/html', {}, F(1))]),
            ('a/b;q=0.5, c/d;q=0.5, e/f;q=0.50, g/h', [('a/b', {}, F(1, 2)), ('c/d', {}, F(1, 2)), ('e/f', {}, F(1, 2)), ('g/h', {}, F(1))]),
            ('text/csv;q=0, application/json;q=0.001', [('text/csv', {}, F(0)), ('application/json', {}, F(1, 1000))]),
            ('*/*;q=0.1,application/*;q=0.2,Application/JSON;Format=pandas-split;q=0.3',
             [('*/*', {}, F(1, 10)), ('application/*', {}, F(1, 5)), ('application/json', {'format': 'pandas-split'}, F(3, 10))]),
            (' text/csv ; a = "p;q" ;q=.5 ,\ttext/html', [('text/csv', {'a': 'p;q'}, F(1, 2)), ('text/html', {}, F(1))]),
            ('a;q=-1, b;q=2, c;q=+0.5, d;q=-0.0, e;q=0', [('a', {}, F(-1)), ('b', {}, F(2)), ('c', {}, F(1, 2)), ('d', {}, F(0)), ('e', {}, F(0))]),
            ('text/csv; a="say \\"hi\\""; q="0.5", */*;q=0.5', [('text/csv', {'a': 'say "hi"'}, F(1, 2)), ('*/*', {}, F(1, 2))]),
        ]
        cases = list(corpus)
        for _ in range(self.n(8000, 100000)):
            cases.append(self._header_spec())
        answers = self.model([sexp.dumps(['parse', h]) for h, _ in cases] + [sexp.dumps(['accept', h]) for h, _ in cases]
                             + [sexp.dumps(['content', h]) for h, _ in cases])
        n = len(cases)
        for i, (header, spec) in enumerate(cases):
            impl = self._impl_parse(header)
            m = sexp.loads(answers[i])
            qs = [q for _, _, q in spec]
            shape = f'header n={len(spec)} ' + ('ties' if len(set(qs)) < len(qs) else 'distinct-q')
            self.case(('h', header), shape, nontrivial=len(spec) >= 2,
                      sample={'header': header, 'parsed': [k for k, _ in impl[1]] if impl[0] == 'ok' else impl})
            ci = ['ok', [_canon_enc(k, o) for k, o in impl[1]]] if impl[0] == 'ok' else list(impl)
            cm = ['ok', [_canon_enc(k, dict(map(tuple, o))) for k, o in m[1]]] if m[0] == 'ok' else m
            if ci != cm:
                self.diverge('Encoding.parse', {'header': header, 'spec': self._spec_json(spec)}, ci, cm)
            bad = self._oracle_parse(header, spec, impl)
            if bad:
                self.violate(bad[0], {'kind': 'parse', 'header': header, 'spec': self._spec_json(spec)}, bad[1])
            if impl[0] != 'ok' or not impl[1]:
                continue
            # the gateway path: rest.py parses Accept, Generic.respond -> get_encoder(*accept);
            # Content-Type: parse(...)[0], Generic.receive -> get_decoder
            idx = self._impl_encoder(impl[1])
            midx = self._model_idx(answers[n + i])
            if idx != midx:
                self.diverge('get_encoder(*parse(accept))', {'header': header}, idx, midx)
            bad = self._oracle_encoder(impl[1], idx)
            if bad:
                self.violate(bad[0], {'kind': 'accept', 'header': header}, bad[1])
            didx = self._impl_decoder(impl[1][0])
            mdidx = self._model_idx(answers[2 * n + i])
            if didx != mdidx:
                (self._outside if any(ch in impl[1][0][0] for ch in '*?[') else self.diverge)(
                    'get_decoder(parse(content-type)[0])', {'header': header}, didx, mdidx)
            bad = self._oracle_decoder(impl[1][0], didx)
            if bad:
                self.violate(bad[0], {'kind': 'content', 'header': header}, bad[1])

    @staticmethod
    def _spec_json(spec):
        return [[k, o, str(q)] for k, o, q in spec]

    def _malformed_stream(self):
        """Headers outside the property's grammar (bad or repeated q, empty items, parameters without '=', stray ; and quotes,
        commas inside quoted strings, Python-only white space): the model is compared with the code, a mismatch is recorded
        in the evidence (`outside_property_mismatches`, notes) but is not a verdict — the property says nothing about these."""
        cases = ['', ',', 'a,,b', 'a;q=abc', 'a;q=', 'a;=x', 'a;b', 'a;b=1;b=2;c=3', ';', 'a;q="0.5', 'a;x="1;q=0";q=0.5,b;q=0.7',
                 'a;q=1;q=0.2, b;q=0.3', 'a;x="1,2";q=0.1, b', 'a\x0c;\x1fq=0.5\x1c,\nb']
        cases += [self._malformed() for _ in range(self.n(1500, 20000))]
        answers = self.model([sexp.dumps(['parse', h]) for h in cases])
        for header, ans in zip(cases, answers):
            impl = self._impl_parse(header)
            m = sexp.loads(ans)
            self.case(('m', header), 'outside grammar -> ' + (impl[0] if impl[0] == 'ok' else str(impl[1])), nontrivial=True)
            ci = ['ok', [_canon_enc(k, o) for k, o in impl[1]]] if impl[0] == 'ok' else list(impl)
            cm = ['ok', [_canon_enc(k, dict(map(tuple, o))) for k, o in m[1]]] if m[0] == 'ok' else m
            if ci != cm:
                self._outside('Encoding.parse', {'header': header}, ci, cm)

    def _pairs(self):
        from forml.io import layout
        pool = self._pool()
        pairs = list(itertools.product(pool, pool))
        answers = self.model([sexp.dumps(['match', _enc_sexp(*p), _enc_sexp(*c)]) for p, c in pairs])
        objs = [layout.Encoding(k, **o) for k, o in pool]
        index = {id(x): i for i, x in enumerate(pool)}
        for (p, c), ans in zip(pairs, answers):
            impl = objs[index[id(p)]].match(objs[index[id(c)]])
            concrete = not any(ch in c[0] for ch in '*?[')
            self.case(('p', p[0], tuple(sorted(p[1].items())), c[0], tuple(sorted(c[1].items()))),
                      f'pair {"concrete" if concrete else "non-concrete"} -> {impl}', nontrivial=impl or bool(p[1]))
            if (ans == 'true') != impl:
                (self.diverge if concrete else self._outside)('Encoding.match', {'pattern': list(p), 'other': list(c)}, impl, ans)
            if concrete and impl != spec_match(p[0], p[1], c[0], c[1]):
                self.violate(f'Encoding{p}.match(Encoding{c}) is {impl}: kind-as-wildcard {spec_wild(p[0], c[0])}, '
                             f'options subset {all(c[1].get(k) == v for k, v in p[1].items())}',
                             {'kind': 'match', 'pattern': list(p), 'other': list(c)},
                             'match-accepts-wrong' if impl else 'match-rejects-wrong')
        self.extra['pool_size'] = len(pool)
        return pool

    def _globs(self):
        import fnmatch
        rng = self.rng
        cases = [('[!]', '!'), ('[]]', ']'), ('[a-]', '-'), ('[-a]', '-'), ('[a-c-e]', 'd'), ('[c-a]', 'b'), ('[!c-a]', 'b'),
                 ('a[', 'a['), ('[]-a]', '^'), ('**a', 'a'), ('*a*b*', 'xaybz'), ('[a-b--c]', '-'), ('[a--]', 'b'), ('[--a]', '/')]
        for _ in range(self.n(2000, 60000)):
            if rng.random() < 0.5:
                pat = ''.join(rng.choice('aabc/-*?[]!') for _ in range(rng.randint(0, 7)))
            else:  # structured: literals, * ? and closed bracket expressions (negated, ranges, leading ] or -)
                pat = ''
                for _ in range(rng.randint(1, 4)):
                    piece = rng.random()
                    if piece < 0.45:
                        pat += '[' + rng.choice(['', '', '!']) + rng.choice(['', '', ']', '-']) + ''.join(
                            rng.choice('abc/-') for _ in range(rng.randint(1, 4))) + ']'
                    elif piece < 0.6:
                        pat += rng.choice('*?')
                    else:
                        pat += rng.choice('abc/')
            pat = re.sub(r'(?<!\[)!', 'b', pat)  # '!' only as a negation mark (see TRUSTED)
            if rng.random() < 0.4:
                name = ''.join(rng.choice('aabc/-]') for _ in range(rng.randint(0, 5)))
            else:  # derived from the pattern so that matches are frequent
                name, inset = '', False
                for i, c in enumerate(pat):
                    if c == '*':
                        name += ''.join(rng.choice('abc/') for _ in range(rng.randint(0, 2)))
                    elif c == '?':
                        name += rng.choice('abc/-')
                    elif c == '[' and not inset:
                        inset = True
                        body = pat[i + 1:].split(']')[0] or ']'
                        name += rng.choice(body if rng.random() < 0.7 and not body.startswith('!') else 'abc-]/')
                    elif c == ']' and inset:
                        inset = False
                    elif not inset:
                        name += c
            cases.append((pat, name))
        answers = self.model([sexp.dumps(['glob', p, s]) for p, s in cases])
        for (p, s), ans in zip(cases, answers):
            impl = fnmatch.fnmatchcase(s, p)
            self.case(('g', p, s), f'glob {"[" if "[" in p else "*?" if any(c in p for c in "*?") else "lit"} -> {impl}',
                      nontrivial=any(c in p for c in '*?['))
            if (ans == 'true') != impl:
                self.diverge('fnmatch', {'pattern': p, 'name': s}, impl, ans)

    def _negotiation(self, pool):
        rng = self.rng
        cases = [[('foo/bar', {}), ('application/*', {})], [], [('*/*', {})], [('text/*', {}), ('application/json', {})]]
        for _ in range(self.n(4000, 20000)):
            cases.append([rng.choice(pool) for _ in range(rng.choice([1, 1, 2, 2, 3, 4]))])
        answers = self.model([sexp.dumps(['encoder', [_enc_sexp(*t) for t in ts]]) for ts in cases])
        for ts, ans in zip(cases, answers):
            idx = self._impl_encoder(ts)
            midx = self._model_idx(ans)
            self.case(('e', tuple((k, tuple(sorted(o.items()))) for k, o in ts)),
                      f'encoder n={len(ts)} -> {"unsupported" if idx is None else "#" + str(idx)}', nontrivial=len(ts) >= 2)
            if idx != midx:
                self.diverge('get_encoder', {'targets': [list(t) for t in ts]}, idx, midx)
            bad = self._oracle_encoder(ts, idx)
            if bad:
                self.violate(bad[0], {'kind': 'encoder', 'targets': [list(t) for t in ts]}, bad[1])
        answers = self.model([sexp.dumps(['decoder', _enc_sexp(*src)]) for src in pool])
        for src, ans in zip(pool, answers):
            idx = self._impl_decoder(src)
            midx = self._model_idx(ans)
            self.case(('d', src[0], tuple(sorted(src[1].items()))),
                      f'decoder -> {"unsupported" if idx is None else "#" + str(idx)}', nontrivial=True)
            if idx != midx:
                (self._outside if any(ch in src[0] for ch in '*?[') else self.diverge)('get_decoder', {'source': list(src)}, idx, midx)
            bad = self._oracle_decoder(src, idx)
            if bad:
                self.violate(bad[0], {'kind': 'decoder', 'source': list(src)}, bad[1])

    # ---- codec round trip -------------------------------------------------------------------------------
    def _float(self, decimals: typing.Tuple[int, int], wide: bool = True) -> float:
        """a decimal number of at most 15 significant digits (the precision to which a double identifies a decimal)"""
        rng = self.rng
        ip = rng.choice([0, 0, rng.randint(0, 9), rng.randint(0, 9999)]) if wide else rng.randint(0, 9)
        nd = rng.randint(*decimals)
        frac = ''.join(rng.choice('0123456789') for _ in range(nd))
        return float(f"{rng.choice(['', '-'])}{ip}.{frac or '0'}")

    def _table(self, slice_only: bool, floats: typing.Optional[typing.Tuple[int, int]] = None):
        rng = self.rng
        ncol = rng.randint(1, 4)
        names = rng.sample(['A', 'B', 'col_1', 'x', 'Label', 'z9'] + ([] if slice_only else ['x y', 'a,b']), ncol)
        kinds = [rng.choice(['int', 'str'] + (['float', 'float'] if floats else [])) for _ in range(ncol)]
        alphabet = 'xyzwk' if slice_only else 'xyzwk ,"\'-'
        rows = []
        for _ in range(rng.randint(1, 5)):
            row = []
            for kd in kinds:
                if kd == 'int':
                    row.append(rng.randint(-1000, 1000))
                elif kd == 'float':
                    row.append(self._float(floats))
                else:
                    body = ''.join(rng.choice(alphabet) for _ in range(rng.randint(0, 4)))
                    row.append(rng.choice('xyzwk') + body + rng.choice('xyzwk'))
            rows.append(row)
        return names, kinds, rows

    @staticmethod
    def _plain(v):
        """a decoded cell as a plain Python value: int / float (NaN for every missing-value object) / bool / str"""
        import numbers
        if isinstance(v, str):
            return v
        if isinstance(v, bool) or type(v).__name__ in ('bool_', 'bool'):  # numpy.bool_ (named 'bool' in numpy 2)
            return bool(v)
        if isinstance(v, numbers.Integral):
            return int(v)
        if isinstance(v, numbers.Real):
            return float(v)
        if v is None or v != v:
            return float('nan')
        return repr(v)

    @staticmethod
    def _same_cell(g, w, kd) -> bool:
        """the decoded cell is the cell that was encoded (numbers by value, text by text)"""
        if kd == 'str':
            return isinstance(g, str) and g == w
        if isinstance(g, (bool, str)):
            return False
        return isinstance(g, (int, float)) and g == w  # a row of numbers only is handed out as one float array: by value

    @staticmethod
    def _is_retyped_text(g, w) -> bool:
        """g is what a type-inferring reader makes of the text w (number / missing value / boolean)"""
        if isinstance(g, str):
            return False
        if w in _NA:
            return isinstance(g, float) and g != g
        if w.lower() in _BOOL:
            return isinstance(g, bool) and g == (w.lower() == 'true')
        if _NUMERIC.match(w):
            return isinstance(g, (int, float)) and not isinstance(g, bool) and float(g) == float(w)
        return False

    @staticmethod
    def _is_rounded(g, w) -> bool:
        """g is the float w rounded to ten decimal places (and not w itself)"""
        return (isinstance(g, (int, float)) and not isinstance(g, bool) and float(g) != w
                and abs(float(g) - w) <= 0.5000001e-10 and float(g) == float(f'{float(g):.10f}'))

    @staticmethod
    def _jsonable(v):
        return v if isinstance(v, (int, str, bool)) or (isinstance(v, float) and v == v and abs(v) != float('inf')) else repr(v)

    def _roundtrip_once(self, names, kinds, rows, enc_idx, dec_enc):
        """encode with ENCODERS[enc_idx], decode with get_decoder(dec_enc); returns (status, detail, encoded bytes)"""
        from forml.io import dsl, layout
        from forml.io.layout import _codec
        kind_of = {'int': dsl.Integer, 'str': dsl.String, 'float': dsl.Float}
        schema = dsl.Schema.from_fields(*(dsl.Field(kind_of[kd](), name=nm) for nm, kd in zip(names, kinds)))
        encoder = _codec.ENCODERS[enc_idx]
        data = encoder.dumps(layout.Outcome(schema, [list(r) for r in rows]))
        try:
            decoder = layout.get_decoder(layout.Encoding(dec_enc[0], **dec_enc[1]))
            entry = decoder.loads(data)
        except FileNotFoundError:
            return 'unusable', 'pandas.read_json treats the literal as a path', data
        except Exception as err:  # pylint: disable=broad-except
            return 'differs', {'error': f'{type(err).__name__}: {err}'[:200], 'cause': None}, data
        got_names = [f.name for f in entry.schema]
        got_rows = [[self._plain(v) for v in r] for r in entry.data.to_rows()]
        if (got_names == list(names) and len(got_rows) == len(rows) and all(len(gr) == len(wr) for gr, wr in zip(got_rows, rows))
                and all(self._same_cell(g, w, kd) for gr, wr in zip(got_rows, rows) for g, w, kd in zip(gr, wr, kinds))):
            return 'same', None, data
        cause = None
        if got_names == list(names) and len(got_rows) == len(rows) and all(len(gr) == len(wr) for gr, wr in zip(got_rows, rows)):
            diff = [(g, w, kd) for gr, wr in zip(got_rows, rows) for g, w, kd in zip(gr, wr, kinds) if not self._same_cell(g, w, kd)]
            if encoder.encoding.kind == 'text/csv' and all(kd == 'str' and looks_typed(w) and self._is_retyped_text(g, w) for g, w, kd in diff):
                cause = 'csv-text-retyped'
            elif encoder.encoding.kind == 'application/json' and all(kd == 'float' and self._is_rounded(g, w) for g, w, kd in diff):
                cause = 'json-float-rounded'
        return 'differs', {'columns': got_names, 'rows': [[self._jsonable(v) for v in r] for r in got_rows], 'cause': cause}, data

    @staticmethod
    def _rt_signature(label: str, detail) -> str:
        """the two known root causes get their own keys — untyped CSV (every differing cell is a text cell that looks
        like a number / NA marker / boolean and came back as exactly that typed reading) and the ten-decimal rounding of the
        JSON encoders (every differing cell is a float cell that came back as itself rounded to ten places); any other
        difference of any pair keeps the pair's key"""
        return 'roundtrip-' + (detail.get('cause') or label)

    def _codec_pairs(self):
        """(label, encoder index, content type given to get_decoder): the decoder's pattern matches the encoder's encoding"""
        pairs = []
        for i, (k, o) in enumerate(self._encs):
            pairs.append((f'{k};{o.get("format", "")}', i, (k, o)))  # the declared encoding itself
        for i, (k, o) in enumerate(self._encs):
            if k == 'application/json' and o.get('format') in ('pandas-records', 'pandas-columns'):
                pairs.append((f'{k};{o["format"]} as plain application/json', i, (k, {})))
        return pairs

    def _rt_case(self, tag, names, kinds, rows, pairs, usable, probe: bool):
        for label, ei, dec in pairs:
            if usable.get(label) is False or (not probe and not usable.get(label)):
                continue
            status, detail, data = self._roundtrip_once(names, kinds, rows, ei, dec)
            if status == 'unusable':
                usable[label] = False
                self.case(('rt-unusable', label), f'roundtrip {label} unusable here', nontrivial=False)
                continue
            usable[label] = True
            self.case((tag, label, tuple(names), tuple(map(tuple, rows))), f'roundtrip {tag} {label} -> {status}', nontrivial=len(rows) > 1 or tag != 'rt')
            if status == 'differs':
                self.violate(f'{label}: dumps -> loads returned {detail} for columns {names} rows {rows} (encoded: {data[:120]!r})',
                             {'kind': 'roundtrip', 'names': names, 'kinds': kinds, 'rows': rows, 'encoder': list(self._encs[ei]), 'decoder': list(dec)},
                             self._rt_signature(label, detail))

    def _roundtrip(self):
        pairs = self._codec_pairs()
        usable: dict = {}
        # ints, texts, floats of at most ten decimal places: every usable pair returns the table
        tables = [(['A', 'B'], ['int', 'str'], [[1, 'a'], [2, 'b']]), (['A', 'B'], ['float', 'str'], [[0.5, 'a'], [-2.25, 'b']])]
        tables += [self._table(slice_only=False, floats=(0, 10) if i % 2 else None) for i in range(self.n(400, 2000))]
        for names, kinds, rows in tables:
            self._rt_case('rt', names, kinds, rows, pairs, usable, probe=True)
        # text cells that look typed: JSON keeps them (typed format), text/csv does not (known finding C19-F1)
        for _ in range(self.n(40, 400)):
            names, kinds, rows = self._table(slice_only=True)
            if 'str' not in kinds:
                kinds[0] = 'str'
            col = kinds.index('str')
            whole = self.rng.random() < 0.6
            for r in rows:
                for j, kd in enumerate(kinds):
                    if kd == 'str' and isinstance(r[j], int):
                        r[j] = 'x'
                if whole or self.rng.random() < 0.5:
                    r[col] = self.rng.choice(TYPED_TEXT)
            self._rt_case('rt-typed-text', names, kinds, rows, pairs, usable, probe=False)
        # float cells with 11..14 decimal places (<= 15 significant digits): text/csv keeps them, every JSON encoder
        # rounds to ten places (known finding C19-F2)
        for _ in range(self.n(40, 400)):
            names, kinds, rows = self._table(slice_only=True)
            if 'float' not in kinds:
                kinds[0] = 'float'
            for r in rows:
                for j, kd in enumerate(kinds):
                    if kd == 'float':
                        r[j] = self._float((11, 14), wide=False) if self.rng.random() < 0.8 else self._float((0, 10))
                    elif kd == 'str' and not isinstance(r[j], str):
                        r[j] = 'x'
            self._rt_case('rt-fine-float', names, kinds, rows, pairs, usable, probe=False)
        self.extra['codec_pairs'] = {k: ('exercised' if v else 'unusable in this environment (pandas.read_json)') for k, v in usable.items()}
        if not any(usable.values()):
            raise fw.MachineryError('no codec pair is usable in this environment')
        self._json_precision()
        # the unquoted CSV slice against the Lean token model (text and cells)
        csv = next((i for i, (k, _) in enumerate(self._encs) if k == 'text/csv'), None)
        if csv is None:
            return
        slices = [self._table(slice_only=True) for _ in range(self.n(100, 1000))]
        lines = [sexp.dumps(['csv', [list(n)] + [[str(v) for v in r] for r in rows]]) for n, _, rows in slices]
        for (names, kinds, rows), ans in zip(slices, self.model(lines)):
            _, _, data = self._roundtrip_once(names, kinds, rows, csv, ('text/csv', {}))
            m = sexp.loads(ans)
            self.case(('csv', tuple(names), tuple(map(tuple, rows))), 'csv slice vs model', nontrivial=True)
            want_cells = [list(names)] + [[str(v) for v in r] for r in rows]
            if m[0] != data.decode() or m[1] != want_cells:
                self.diverge('text/csv dumps on the unquoted slice', {'names': names, 'rows': rows}, data.decode(), m)

    def _json_precision(self):
        """what the JSON encoders write for a float cell vs `Dec.jsonRender` (ties of the rounding are avoided: the
        eleventh decimal digit is never 4 or 5)"""
        import json
        from forml.io import dsl, layout
        from forml.io.layout import _codec
        rng = self.rng
        jsons = [i for i, (k, o) in enumerate(self._encs) if k == 'application/json' and o.get('format') in ('pandas-records', 'pandas-values', 'pandas-split')]
        if not jsons:
            return
        cases = [(1, 12), (5, 1), (123456789096, 12), (0, 3)]
        for _ in range(self.n(150, 3000)):
            scale = rng.randint(0, 14)
            digits = [rng.choice('0123456789') for _ in range(scale + 1)]  # one integer digit + scale decimals
            if scale > 10:
                digits[11] = rng.choice('01236789')
            cases.append((int(''.join(digits)), scale))
        schema = dsl.Schema.from_fields(dsl.Field(dsl.Float(), name='A'))
        answers = self.model([sexp.dumps(['jsonfloat', n, k]) for n, k in cases])
        for (n, k), ans in zip(cases, answers):
            value = float(f'{n}e-{k}')
            ei = rng.choice(jsons)
            text = _codec.ENCODERS[ei].dumps(layout.Outcome(schema, [[value], [1.5]])).decode()
            doc = json.loads(text, parse_float=F, parse_int=F)
            cell = doc[0]['A'] if isinstance(doc, list) and isinstance(doc[0], dict) else (doc[0][0] if isinstance(doc, list) else doc['data'][0][0])
            m = sexp.loads(ans)
            self.case(('jsonfloat', n, k), f'json float decimals {"<=10" if k <= 10 else ">10"}', nontrivial=True)
            if F(int(m[0]), 10 ** int(m[1])) != cell:
                self.diverge('float cell written by a JSON encoder', {'n': n, 'scale': k, 'encoder': list(self._encs[ei])}, str(cell), m)

    # ---- driver of the check ------------------------------------------------------------------------------
    def correspondence(self):
        self._encs, self._decs = self._live_tables()
        self._outside_list = []
        self.extra['tables'] = {'ENCODERS': [k + ''.join(f'; {a}={b}' for a, b in o.items()) for k, o in self._encs],
                                'DECODERS': [k + ''.join(f'; {a}={b}' for a, b in o.items()) for k, o in self._decs]}
        self._headers()
        self._malformed_stream()
        pool = self._pairs()
        self._globs()
        self._negotiation(pool)
        self._roundtrip()
        self._generic()
        self._rest()
        self._outside_report()

    def _generic(self):
        """`application.Generic.receive/respond` use exactly get_decoder / get_encoder"""
        from forml import application
        from forml.io import dsl, layout
        from forml.io.layout import _codec
        app = application.Generic('c19')
        schema = dsl.Schema.from_fields(dsl.Field(dsl.Integer(), name='A'), dsl.Field(dsl.String(), name='B'))
        outcome = layout.Outcome(schema, [[1, 'x'], [2, 'y']])
        for header in ['text/csv', 'foo/bar, text/*;q=0.5', 'application/json;q=0.1, text/csv;q=0.2', '*/*', 'foo/bar',
                       'application/json; format=pandas-split']:
            accept = layout.Encoding.parse(header)
            want = self._impl_encoder([(e.kind, dict(e.options)) for e in accept])
            try:
                payload = app.respond(outcome, accept, None)
                got = next(i for i, c in enumerate(_codec.ENCODERS) if c.encoding == payload.encoding)
                same = payload.data == _codec.ENCODERS[got].dumps(outcome)
            except layout.Encoding.Unsupported:
                got, same = None, True
            self.case(('generic-respond', header), 'Generic.respond', nontrivial=True)
            if got != want or not same:
                self.violate(f'Generic.respond for Accept {header!r} used encoder {got}, get_encoder gives {want}',
                             {'kind': 'generic-respond', 'header': header}, 'generic-respond')
        request = layout.Request(b'A,B\n1,x\n2,y\n', layout.Encoding.parse('Text/CSV; charset=utf-8')[0])
        self.case(('generic-receive',), 'Generic.receive', nontrivial=True)
        try:
            decoded = app.receive(request)
            rows = [[int(list(r)[0]), list(r)[1]] for r in decoded.entry.data.to_rows()]
        except layout.Encoding.Unsupported as err:
            rows = f'Unsupported: {err}'
        if rows != [[1, 'x'], [2, 'y']] or request.accept != (request.payload.encoding,):
            self.violate(f'Generic.receive of a text/csv; charset=utf-8 request gave {rows}', {'kind': 'generic-receive'}, 'generic-receive')
        try:
            app.receive(layout.Request(b'x', layout.Encoding('foo/bar')))
            self.violate('Generic.receive accepted foo/bar', {'kind': 'generic-receive-unsupported'}, 'generic-receive')
        except layout.Encoding.Unsupported:
            pass

    # ---- the REST gateway route (provider/gateway/rest.py Apply) ------------------------------------------------
    @staticmethod
    def _header_encoding(value: str):
        """(kind, options) of a response Content-Type header as written by `Encoding.header` (plain split: no quoting there)"""
        parts = [p.strip() for p in value.split(';')]
        return parts[0].lower(), dict(p.split('=', 1) for p in parts[1:] if '=' in p)

    def _rest_oracle(self, ctype_spec, accept_spec, status, ctype_out):
        """415 exactly when the declared content type has no decoder or no Accept range has an encoder; otherwise the
        response is encoded by an encoder accepted by the first satisfiable Accept range (in preference order)"""
        best = min(range(len(ctype_spec)), key=lambda i: (-ctype_spec[i][2], i))
        ck, co, _ = ctype_spec[best]
        if any(c in ck for c in '*?['):
            return None  # not a concrete content type: the property does not speak about it
        decodable = any(spec_match(dk, do, ck, co) for dk, do in self._decs)
        order = sorted(range(len(accept_spec)), key=lambda i: (-accept_spec[i][2], i))
        accepted = None
        for i in order:
            k, o, _ = accept_spec[i]
            hits = [j for j, (ek, eo) in enumerate(self._encs) if spec_match(k, o, ek, eo)]
            if hits:
                accepted = hits
                break
        if not decodable or accepted is None:
            if status != 415:
                return (f'REST gateway answered {status} although ' + ('no decoder declares the content type' if not decodable else
                        'no Accept range is supported'), 'rest-unsupported-not-refused')
            return None
        if status == 415:
            return 'REST gateway refused (415) a request whose content type has a decoder and whose Accept has a supported range', 'rest-refused'
        if status != 200:
            return f'REST gateway answered {status}', 'rest-status'
        gk, go = self._header_encoding(ctype_out)  # starlette adds "; charset=utf-8" to text/* media types: extra options are fine
        if not any(self._encs[j][0] == gk and all(go.get(k) == v for k, v in self._encs[j][1].items()) and
                   (self._encs[j][1] or 'format' not in go) for j in accepted):
            return (f'REST gateway responded with {ctype_out!r}, the first supported Accept range (by q, ties in header order) '
                    f'accepts only {[self._encs[j] for j in accepted]}'), 'rest-encoder-choice'
        return None

    def _rest_call(self, client, ctype: str, accept: str, body: bytes):
        r = client.post('/c19', content=body, headers={'content-type': ctype, 'accept': accept})
        return r.status_code, r.headers.get('content-type', '')

    def _rest_client(self):
        from starlette import applications, testclient
        from forml import application
        from forml.io import layout
        from forml.provider.gateway import rest
        descriptor = application.Generic('c19')

        async def handler(_, request):
            entry = descriptor.receive(request).entry
            outcome = layout.Outcome(entry.schema, entry.data.to_rows())
            return layout.Response(descriptor.respond(outcome, request.accept, None), 'c19')

        return testclient.TestClient(applications.Starlette(routes=[rest.Apply(handler)]), raise_server_exceptions=False)

    REST_KINDS = ['text/csv', 'text/csv', 'application/json', 'application/json', 'foo/bar', 'text/plain', 'application/xml', 'text/*']
    REST_ACCEPT = ['application/json', 'text/csv', 'text/*', '*/*', 'application/*', 'foo/bar', 'text/html', 'image/*', '*/json', 't*/c*v']
    BODIES = {'text/csv': b'A,B\n1,x\n2,y\n', 'application/json': b'[{"A":1,"B":"x"},{"A":2,"B":"y"}]'}

    def _rest_case(self):
        """a Content-Type header (1..3 ranges, no format option: the pandas-* decoders are unusable here) and an Accept header"""
        while True:
            ctype, cspec = self._header_spec(kinds=self.REST_KINDS, sizes=(1, 1, 1, 2, 3))
            if not any('format' in o for _, o, _ in cspec):
                break
        accept, aspec = self._header_spec(kinds=self.REST_ACCEPT if self.rng.random() < 0.5 else None)
        return ctype, cspec, accept, aspec

    def _rest(self):
        try:
            client = self._rest_client()
        except ImportError as err:  # starlette's test client needs httpx
            self.notes.append(f'REST route not driven: {err}')
            return
        corpus = [('text/csv', 'foo/bar, application/*;q=0.5'), ('text/csv', 'foo/bar'), ('application/octet-stream', '*/*'),
                  ('text/csv;q=0.1, application/json', 'text/*;q=0.2, application/json;q=0.2;format=pandas-split'),
                  ('Text/CSV; charset=utf-8', 'application/json;q=0.5, text/csv;q=0.50, */*;q=0.1')]
        cases = []
        for ctype, accept in corpus:
            cases.append((ctype, self._respec(ctype), accept, self._respec(accept)))
        cases += [self._rest_case() for _ in range(self.n(400, 1500))]
        for ctype, cspec, accept, aspec in cases:
            best = min(range(len(cspec)), key=lambda i: (-cspec[i][2], i))
            body = self.BODIES.get(cspec[best][0], b'A\n1\n')
            status, out = self._rest_call(client, ctype, accept, body)
            self.case(('rest', ctype, accept), f'rest -> {status}', nontrivial=True)
            bad = self._rest_oracle(cspec, aspec, status, out)
            if bad:
                self.violate(bad[0] + f' (Content-Type {ctype!r}, Accept {accept!r})',
                             {'kind': 'rest', 'content_type': ctype, 'content_spec': self._spec_json(cspec), 'accept': accept,
                              'accept_spec': self._spec_json(aspec)}, bad[1])

    @staticmethod
    def _respec(header: str):
        """spec of a hand-written corpus header of the plain grammar (no quoting)"""
        spec = []
        for item in header.split(','):
            parts = [p.strip() for p in item.split(';')]
            opts = {k.strip().lower(): v.strip() for k, v in (p.split('=', 1) for p in parts[1:])}
            q = F(opts.pop('q')) if 'q' in opts else F(1)
            spec.append((parts[0].lower(), opts, q))
        return spec

    # ---- failing-input search ---------------------------------------------------------------------------
    def search(self, reason):
        """Run the oracles on the real code around the diverging cases: sub-headers of diverging headers
        (single ranges, adjacent pairs, prefixes), every pool encoding as a one-element Accept / Content-Type."""
        self._encs, self._decs = self._live_tables()
        tried = 0
        for d in self.divergences[:50]:
            case = d.case if isinstance(d.case, dict) else {}
            header = case.get('header')
            if header is None:
                continue
            parts = [p for p in header.split(',')]
            subs = {p for p in parts} | {','.join(parts[i:i + 2]) for i in range(len(parts))} | {','.join(parts[:i]) for i in range(1, len(parts) + 1)}
            for sub in sorted(subs, key=len):
                impl = self._impl_parse(sub)
                tried += 1
                if impl[0] != 'ok' or not impl[1]:
                    continue
                idx = self._impl_encoder(impl[1])
                bad = self._oracle_encoder(impl[1], idx)
                if bad:
                    self.violate(bad[0], {'kind': 'accept', 'header': sub}, bad[1])
                    break
                bad = self._oracle_decoder(impl[1][0], self._impl_decoder(impl[1][0]))
                if bad:
                    self.violate(bad[0], {'kind': 'content', 'header': sub}, bad[1])
                    break
        for _ in range(2000):
            header, spec = self._header_spec()
            impl = self._impl_parse(header)
            tried += 1
            bad = self._oracle_parse(header, spec, impl)
            if bad:
                # shrink: drop ranges while the oracle still fails
                changed = True
                while changed and len(spec) > 1:
                    changed = False
                    for i in range(len(spec)):
                        parts = header.split(',')
                        if len(parts) != len(spec):
                            break
                        h2, s2 = ','.join(parts[:i] + parts[i + 1:]), spec[:i] + spec[i + 1:]
                        b2 = self._oracle_parse(h2, s2, self._impl_parse(h2))
                        if b2 and b2[1] == bad[1]:
                            header, spec, bad, changed = h2, s2, b2, True
                            break
                self.violate(bad[0], {'kind': 'parse', 'header': header, 'spec': self._spec_json(spec)}, bad[1])
                break
        self.notes.append(f'failing-input search ({reason}): {tried} headers re-examined by the oracles on the real code')

    def replay_finding(self, entry):
        w = entry['witness']
        self._encs, self._decs = self._live_tables()
        kind = w.get('kind')
        if kind == 'parse':
            spec = [(k, o, F(q)) for k, o, q in w['spec']]
            bad = self._oracle_parse(w['header'], spec, self._impl_parse(w['header']))
        elif kind in ('accept', 'content'):
            impl = self._impl_parse(w['header'])
            if impl[0] != 'ok' or not impl[1]:
                return fw.Violation(f'Encoding.parse gave {impl[1]}', w, 'parse-raises')
            if kind == 'accept':
                bad = self._oracle_encoder(impl[1], self._impl_encoder(impl[1]))
            else:
                bad = self._oracle_decoder(impl[1][0], self._impl_decoder(impl[1][0]))
        elif kind == 'match':
            from forml.io import layout
            p, c = w['pattern'], w['other']
            impl = layout.Encoding(p[0], **p[1]).match(layout.Encoding(c[0], **c[1]))
            bad = None if impl == spec_match(p[0], p[1], c[0], c[1]) else (
                f'Encoding.match is {impl}', 'match-accepts-wrong' if impl else 'match-rejects-wrong')
        elif kind == 'encoder':
            ts = [(k, o) for k, o in w['targets']]
            bad = self._oracle_encoder(ts, self._impl_encoder(ts))
        elif kind == 'decoder':
            src = (w['source'][0], w['source'][1])
            bad = self._oracle_decoder(src, self._impl_decoder(src))
        elif kind == 'rest':
            cspec = [(k, o, F(q)) for k, o, q in w['content_spec']]
            aspec = [(k, o, F(q)) for k, o, q in w['accept_spec']]
            best = min(range(len(cspec)), key=lambda i: (-cspec[i][2], i))
            status, out = self._rest_call(self._rest_client(), w['content_type'], w['accept'], self.BODIES.get(cspec[best][0], b'A\n1\n'))
            bad = self._rest_oracle(cspec, aspec, status, out)
        elif kind == 'roundtrip':
            ei = next((i for i, e in enumerate(self._encs) if list(e) == list(w['encoder'])), None)
            if ei is None:
                return None
            status, detail, _ = self._roundtrip_once(w['names'], w['kinds'], w['rows'], ei, tuple(w['decoder']))
            bad = ((f'dumps -> loads returned {detail} for rows {w["rows"]}', self._rt_signature(w['encoder'][0], detail))
                   if status == 'differs' else None)
        else:
            return None
        return fw.Violation(bad[0], w, bad[1]) if bad else None


if __name__ == '__main__':
    raise SystemExit(fw.run(C19))
