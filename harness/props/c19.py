"""C19 — content negotiation (Encoding.parse / match, get_encoder, get_decoder, codec round trip)
vs lean/ForML/Model/Codec.lean."""
from __future__ import annotations

import fractions
import functools
import itertools
import re
import typing

from core import framework as fw
from core import sexp

F = fractions.Fraction

# ---- pools ----------------------------------------------------------------------------------------
CONCRETE_KINDS = [
    'application/json', 'text/csv', 'text/html', 'text/plain', 'image/gif', 'application/xml',
    'application/octet-stream', 'application/vnd.api+json', 'foo/bar', 'text/tsv', 'application/jsonl',
]
PATTERN_KINDS = [
    '*/*', '*', 'application/*', 'text/*', '*/json', '*/csv', 'app*', 't*/c*v', 'application/?son', 'text/?sv',
    'text/[ct]sv', 'text/[!t]sv', 'application/[j-k]son', 'application/[!a-i]son', '*/[jc]s*', 'text/c??',
    '??????????????/*', 'application/json*', '*json', 'image/*', '[at]*/*', 'text/[', 'text/[]c]sv', 'text/[c-]sv',
]
OPT_KEYS = ['format', 'charset', 'version', 'a']
OPT_VALUES = {
    'format': ['pandas-records', 'pandas-columns', 'pandas-index', 'pandas-split', 'pandas-table', 'pandas-values',
               'Pandas-Records', 'other'],
    'charset': ['utf-8', 'UTF-8', 'latin1'],
    'version': ['1', '1.0', '2'],
    'a': ['x', 'y', 'x y', 'k=v', 'p;q', 'say "hi"', 'back\\slash', '"', ''],
}
Q_POOL = ['0', '0.0', '0.1', '0.25', '0.3', '0.30', '0.300', '0.5', '.5', '0.50', '0.500', '0.501', '0.75', '0.8',
          '0.9', '0.999', '1', '1.', '1.0', '1.00', '1.000', '2', '0.001', '00.5', '01',
          # out of the RFC range, still numbers for float(): ordered like any other key
          '-1', '-0.5', '+0.5', '+1', '-0', '-0.0', '+.5', '1.5', '10', '-.001']
BAD_Q = ['abc', '', '1..2', '0.5x', 'x', '.', '--1', '0.5.', '1/2', 'q']
WS = ['', '', '', ' ', ' ', '  ', '\t', ' \t ']
WS_EXOTIC = ['\x0c', '\x0b', '\r\n', '\x1f', '\x1c ', '\n']  # str.isspace / regex \s beyond blank and tab


# texts that pandas.read_csv re-types (numbers, missing-value markers, booleans)
TYPED_TEXT = ['007', '12', '0', '-5', '1e3', '3.5', 'NA', 'nan', 'null', 'None', 'True', 'false', 'N/A', 'inf']
_NUMERIC = re.compile(r'[ \t]*[+-]?((\d+\.?\d*|\.\d+)([eE][+-]?\d+)?|inf|infinity)[ \t]*$', re.I)
_NA = {'', '#N/A', '#N/A N/A', '#NA', '-1.#IND', '-1.#QNAN', '-NaN', '-nan', '1.#IND', '1.#QNAN', '<NA>', 'N/A', 'NA',
       'NULL', 'NaN', 'None', 'n/a', 'nan', 'null'}
_BOOL = {'true', 'false'}


def looks_typed(text: str) -> bool:
    return bool(_NUMERIC.match(text)) or text in _NA or text.lower() in _BOOL


def _texts(m):
    """answers of the model driver: (%%codes%% n ...) is a text with control characters"""
    if isinstance(m, list):
        if m and m[0] == '%%codes%%':
            return ''.join(chr(int(c)) for c in m[1:])
        return [_texts(x) for x in m]
    return m


def _loads(ans: str):
    return _texts(sexp.loads(ans))


def _canon_enc(kind: str, options: typing.Mapping[str, str]):
    return [kind, sorted([k, v] for k, v in options.items())]


def _enc_sexp(kind: str, options: typing.Mapping[str, str]):
    return [kind, [[k, v] for k, v in options.items()]]


# ---- oracle pieces written from the property text (no fnmatch, no regex, no sorted-on-impl) ---------
def _spec_tokens(pat: str):
    """'*' any run, '?' one character, '[seq]' one of / '[!seq]' none of (with a-z ranges, a leading ']' literal),
    an unterminated '[' is literal."""
    out = []
    i, n = 0, len(pat)
    while i < n:
        c = pat[i]
        if c == '*':
            out.append(('star',))
        elif c == '?':
            out.append(('any',))
        elif c == '[':
            j = i + 1
            neg = j < n and pat[j] == '!'
            if neg:
                j += 1
            start = j
            if j < n and pat[j] == ']':
                j += 1
            while j < n and pat[j] != ']':
                j += 1
            if j >= n:
                out.append(('lit', '['))
            else:
                body = pat[start:j]
                members = []
                k = 0
                while k < len(body):
                    if k + 2 < len(body) and body[k + 1] == '-':
                        members.append((body[k], body[k + 2]))
                        k += 3
                    else:
                        members.append((body[k], body[k]))
                        k += 1
                out.append(('set', neg, tuple(members)))
                i = j
        else:
            out.append(('lit', c))
        i += 1
    return out


def spec_wild(pat: str, name: str) -> bool:
    toks = _spec_tokens(pat)

    @functools.lru_cache(maxsize=None)
    def go(i: int, j: int) -> bool:
        if i == len(toks):
            return j == len(name)
        t = toks[i]
        if t[0] == 'star':
            return any(go(i + 1, k) for k in range(j, len(name) + 1))
        if j == len(name):
            return False
        c = name[j]
        if t[0] == 'any':
            ok = True
        elif t[0] == 'lit':
            ok = t[1] == c
        else:
            ok = any(lo <= c <= hi for lo, hi in t[2]) != t[1]
        return ok and go(i + 1, j + 1)

    return go(0, 0)


def spec_match(pk: str, po: dict, ck: str, co: dict) -> bool:
    """the property: kind matches as a wildcard pattern and all of the pattern's options are present with equal values"""
    return spec_wild(pk, ck) and all(k in co and co[k] == v for k, v in po.items())


# ---- concrete syntax of a header (mirror of lean/ForML/Model/CodecHeader.lean RangeSpec / ParamSpec) -------------
# range = {'w0', 'kind', 'params', 'wEnd'}; param = ('kv', pre, w1, name, w2, w3, value, quoted) | ('flag', pre, w1, text)
PY_WS = ' \t\n\r\x0b\x0c\x1c\x1d\x1e\x1f'  # ASCII members of str.isspace


def spec_escape(value: str) -> str:
    return value.replace('\\', '\\\\').replace('"', '\\"')


def spec_value_text(value: str, quoted: bool) -> str:
    return '"' + spec_escape(value) + '"' if quoted else value


def spec_render_range(r) -> str:
    out = r['w0'] + r['kind']
    for p in r['params']:
        if p[0] == 'kv':
            _, pre, w1, name, w2, w3, value, quoted = p
            vt = spec_value_text(value, quoted)
            out += pre + ';' + w1 + name + w2 + '=' + (w3 + vt if vt else '')
        else:
            _, pre, w1, text = p
            out += pre + ';' + (w1 + text if text else '')
    return out + r['wEnd']


def spec_render(specs) -> str:
    return ','.join(spec_render_range(r) for r in specs)


def q_value(text: str):
    """the number a q text spells, as a Fraction — own reading of the grammar ws* [+-]? DIGIT* [. DIGIT{0,3}] ws*
    (at least one digit); None for anything else"""
    t = text.strip(PY_WS)
    sign = 1
    if t[:1] in ('+', '-'):
        sign = -1 if t[0] == '-' else 1
        t = t[1:]
    ip, dot, fp = t.partition('.')
    if not (ip + fp) or not (ip + fp).isascii() or not (ip + fp).isdigit() or len(fp) > 3 or '.' in fp:
        return None
    return sign * (F(int(ip or '0')) + (F(int(fp), 10 ** len(fp)) if fp else 0))


def spec_meaning(r):
    """(kind as written, [(name, value)] with dict semantics incl. q, quality or None when q is not a number)"""
    opts: dict = {}
    for p in r['params']:
        if p[0] == 'kv':
            opts[p[3].lower()] = p[6]
    q = q_value(opts['q']) if 'q' in opts else F(1)
    return r['kind'], list(opts.items()), q


def spec_sexp(specs):
    return [[r['w0'], r['kind'], [list(p) for p in r['params']], r['wEnd']] for r in specs]


def spec_in_property(specs) -> bool:
    """the grammar the property quantifies over: 1.. media ranges, blank/tab as optional white space, `name=value` options with
    distinct names (token or quoted-string values without comma), q a number — no parameter without '=', no repetition"""
    for r in specs:
        if any(c not in ' \t' for c in r['w0'] + r['wEnd']) or not r['kind'] or any(c in PY_WS + ',;"=' for c in r['kind']):
            return False
        names = []
        for p in r['params']:
            if p[0] != 'kv':
                return False
            _, pre, w1, name, w2, w3, value, quoted = p
            if any(c not in ' \t' for c in pre + w1 + w2 + w3) or not name or any(c in PY_WS + ',;"=\\' for c in name):
                return False
            if quoted:
                if ',' in value or value.endswith('\\'):
                    return False
            elif any(c in PY_WS + ',;"' for c in value):
                return False
            names.append(name.lower())
        if len(set(names)) != len(names):
            return False
        if spec_meaning(r)[2] is None:
            return False
    return bool(specs)


def recognise(text: str):
    """Own scanner of the header grammar: the list of range specs whose rendering is exactly `text`, or None when the text is not
    of the grammar (a comma inside a quoted-string, a parameter without '=', stray separators or quotes, ...).  Independent of
    forml, of cgi and of the Lean model."""
    specs = []
    for it in text.split(','):
        n = len(it)

        def ws(i):
            while i < n and it[i] in ' \t':
                i += 1
            return i
        j = ws(0)
        w0 = it[:j]
        k = j
        while k < n and it[k] not in ' \t;':
            if it[k] in '"=':
                return None
            k += 1
        kind = it[j:k]
        if not kind:
            return None
        params = []
        pos = k
        while True:
            j = ws(pos)
            pre = it[pos:j]
            if j == n:
                w_end = pre
                break
            if it[j] != ';':
                return None
            a = ws(j + 1)
            w1 = it[j + 1:a]
            b = a
            while b < n and it[b] not in ' \t;="':
                b += 1
            name = it[a:b]
            if not name:
                return None
            c = ws(b)
            w2 = it[b:c]
            if c == n or it[c] != '=':
                return None
            c += 1
            d = ws(c)
            w3 = it[c:d]
            if d < n and it[d] == '"':
                e, val = d + 1, []
                while True:
                    if e >= n:
                        return None
                    ch = it[e]
                    if ch == '"':
                        break
                    if ch == '\\':
                        if e + 1 < n and it[e + 1] in '\\"':
                            val.append(it[e + 1])
                            e += 2
                            continue
                        return None
                    val.append(ch)
                    e += 1
                value, quoted, end = ''.join(val), True, e + 1
            else:
                e = d
                while e < n and it[e] not in ' \t;"':
                    e += 1
                value, quoted, end = it[d:e], False, e
                if not value:
                    w3, end = '', c
            params.append(('kv', pre, w1, name, w2, w3, value, quoted))
            pos = end
        specs.append({'w0': w0, 'kind': kind, 'params': params, 'wEnd': w_end})
    if spec_render(specs) != text or not spec_in_property(specs):
        return None
    return specs


class C19(fw.Check):
    ID = 'C19'
    LEAN_MODULES = ['ForML.Props.C19', 'ForML.Props.C19Header', 'ForML.Props.C19Table']
    DRIVER = 'drv_c19'
    RULE = ('Headers: 1..5 (sometimes 6 or 8) media ranges from pools of 11 concrete kinds and 24 wildcard patterns (*, ?, [..], '
            '[!..], ranges, unterminated [), random upper-casing of kinds and option names, 0..3 options with distinct names '
            '(token or quoted-string values incl. blanks, ;, =, escaped quotes and backslashes, empty), q from a 35-value pool built '
            'for ties (missing, 0, 1., .5, 0.50, 0.500, Q=, quoted, signed and > 1 values), random blanks/tabs around , ; =.  A '
            'header case is distinct by its text and non-trivial when it has >= 2 ranges.  The same grammar is also generated as '
            'concrete-syntax trees (the RangeSpec / QSpec objects of the Lean theorems: every piece of white space, the case of every '
            'name, token vs quoted-string per value, every quality as a spelling with sign / leading zeros / bare point / trailing '
            'zeros); Lean renderHeader must write the generator\'s text, find the tree well-formed and mean the generator\'s ranges.  '
            'Byte-level mutated headers (insert / delete / duplicate , ; = " \\ blank tab, case flips, swaps, deletions; 1..3 per header): '
            'an own scanner of the grammar decides which are still headers of the property (treated like any header, oracle included) '
            'and which are not.  Each header is also used as Accept (get_encoder(*parse(h))) and as Content-Type '
            '(get_decoder(parse(h)[0])).  Outside the grammar (q not a number / empty / repeated, empty items, parameters without =, '
            'stray ; and quotes, commas or a trailing backslash inside quoted strings, Python-only white space, the unrecognised mutants): '
            'compared with the model and reported as a fidelity note only.  Pairs: every (pattern, other) pair of a pool of >= 40 '
            'encodings (oracle on the concrete others); random glob strings over {a,b,c,/,-,*,?,[,],!} against fnmatch.  Encoders: 1..4 '
            'pool encodings; decoders: every pool encoding.  REST: the gateway route driven through starlette with generated '
            'Content-Type and Accept headers (status 415 vs chosen response encoding, and the Lean gateway model); absent / empty / '
            'unparsable headers against the model as a fidelity note.  Round trip: tables of 1..4 columns x 1..5 rows of ints, texts '
            '(blanks, commas, quotes) and floats of <= 10 decimal places for text/csv, pandas-records -> application/json, '
            'pandas-columns -> application/json (the format=pandas-* decoders are attempted and counted as unusable when '
            'pandas.read_json refuses a literal string); typed tables (int / float / text / bool columns with missing cells, empty, '
            'numeric-, marker- and boolean-looking texts, blanks-only cells, carriage returns, quotes / commas / line feeds in cells '
            'and names, columns called instances / inputs, floats of 11..14 decimals, no rows; row counts 9|10|11|12, 99|100|101, ~250 and column '
            'counts 10..12 sampled in the quick tier - 0..1001 rows, 9..25 columns swept in the thorough tier - with a row-numbering '
            'first column and numeric column labels) against the verdict and the text/csv text of the Lean table model; client-written '
            'columns-layout documents (default / reversed / shuffled / string / offset / padded row labels, 1..101 rows) through the plain '
            'JSON decoder against the model (document order); sequences of 2..6 payloads decoded by one process (equal column types under different '
            'names, permuted columns, empty frames before / after their columns are cached, object columns with None) against the '
            'Lean schema-cache machine; the read_csv tokeniser and type inference of the model against pandas.  Oracle on the real '
            'code: order = sort by (-q, position) of the generated ranges; match = own wildcard matcher + option subset; encoder = any '
            'encoding accepted by the first client pattern that accepts a supported one, error iff none; decoder = its pattern accepts '
            'the content type, error iff none; decoded table == table (numbers by value, missing = missing); fields of a decoded '
            'entry == columns of its payload.')
    TRUSTED = [
        'cgi.parse_header, fnmatch.translate, float(): the slices reachable from the generated grammar are modelled and '
        'correspondence-checked; beyond it (q with exponent/inf/nan/_/>3 decimals, non-ASCII blanks or case, bracket '
        'bodies where a dropped range is followed by "!") modelled-not-verified; headers outside the RFC grammar are compared '
        'with the model as a fidelity note, not as a verdict',
        'pandas: csv.writer quoting, the read_csv tokeniser and type inference are modelled (Model/CodecTable.lean) and compared with pandas on '
        'every run; to_json / json.loads string escaping, repr() of floats outside the positional range, the schema kinds inferred by '
        'Schema.from_frame are below the model (sampled by the round trip only); hash collisions of the schema cache key are ignored',
        'CPython sorted() stability (the model is a stable insertion sort; tie order is compared on every header)',
        'starlette test client (the REST route is driven in-process, no socket)',
        'the own header scanner (`recognise`) that decides which mutated headers are still of the property grammar',
    ]
    ASSUMPTIONS = ['header text is ASCII; q has at most three decimals (RFC 9110 grammar), sign and values > 1 included',
                   'round trip tables: typed by column, distinct non-empty column names (dsl.Schema refuses others), every column with at least one '
                   'cell that is not missing (dsl cannot type an all-None column), int cells of at most 15 digits, finite float cells that are '
                   'decimal numbers of at most 15 significant digits (full 17-digit doubles are not compared: pandas.read_csv\'s default '
                   'converter is 1 ulp off on about a quarter of them); a table without rows is refused by the decoder by design '
                   '(Schema.from_frame: "Empty frame") unless the schema cache knows its columns - either is accepted',
                   'the format=pandas-* JSON decoders cannot run under the installed pandas 3 (read_json takes a literal as a path): '
                   'their negotiation is checked, their decoding is not']

    # ---- tables -----------------------------------------------------------------------------------
    @staticmethod
    def _live_tables():
        from forml.io.layout import _codec

        encs = [(e.encoding.kind, dict(e.encoding.options)) for e in _codec.ENCODERS]
        decs = [(enc.kind, dict(enc.options)) for _, enc in _codec.DECODERS]
        return encs, decs

    def gen_tables(self):
        import sys
        if fw.REPO not in sys.path:
            sys.path.insert(0, fw.REPO)
        encs, decs = self._live_tables()

        def chars(s: str) -> str:
            def one(c):
                if c == "'":
                    return "'\\''"
                if c == '\\':
                    return "'\\\\'"
                if not (32 <= ord(c) < 127):
                    return f'(Char.ofNat {ord(c)})'
                return f"'{c}'"
            return '[' + ', '.join(one(c) for c in s) + ']'

        def enc(kind, opts):
            o = ', '.join(f'({chars(k)}, {chars(v)})' for k, v in opts.items())
            header = kind + ''.join(f'; {k}={v}' for k, v in opts.items())
            return f'  -- {header}\n  ⟨{chars(kind)}, [{o}]⟩'

        body = ['/- GENERATED by harness/props/c19.py gen_tables() from the live forml.io.layout._codec.ENCODERS / DECODERS',
                '   (order and encodings). Do not edit. -/', 'import ForML.Model.Codec', 'namespace ForML.Codec.Tables', '',
                '/-- `ENCODERS[i].encoding` -/', 'def encoders : List Encoding := [',
                ',\n'.join(enc(k, o) for k, o in encs), ']', '',
                '/-- `DECODERS[i][1]` -/', 'def decoders : List Encoding := [',
                ',\n'.join(enc(k, o) for k, o in decs), ']', '', 'end ForML.Codec.Tables', '']
        return {'ForML/Generated/C19Tables.lean': '\n'.join(body)}

    # ---- generators -------------------------------------------------------------------------------
    def _case_kind(self, kind: str) -> str:
        r = self.rng.random()
        if r < 0.7:
            return kind
        if r < 0.8:
            return kind.upper()
        return ''.join(c.upper() if self.rng.random() < 0.4 else c for c in kind)

    def _ws(self, exotic: bool = False) -> str:
        if exotic and self.rng.random() < 0.05:
            return self.rng.choice(WS_EXOTIC)
        return self.rng.choice(WS)

    def _range_spec(self, ties: typing.Optional[list] = None, kinds: typing.Optional[list] = None, exotic: bool = False):
        """one media range: (text, expected kind, expected options, q).  `exotic` adds what is outside the header grammar
        of RFC 9110 (parameters without '=', a repeated q, Python-only white space): model comparison only."""
        rng = self.rng
        kind = rng.choice(kinds) if kinds else rng.choice(CONCRETE_KINDS if rng.random() < 0.6 else PATTERN_KINDS)
        params = []  # (key text, value text or None, effective key, effective value)
        nopt = rng.choice([0, 0, 0, 1, 1, 2, 3])
        for k in ([rng.choice(OPT_KEYS) for _ in range(nopt)] if exotic else rng.sample(OPT_KEYS, nopt)):  # repeated keys: exotic only
            v = rng.choice(OPT_VALUES[k])
            ktxt = k if rng.random() < 0.8 else k.upper()
            if any(c in v for c in ' ;"') or v == '' and rng.random() < 0.5 or rng.random() < 0.2:
                vtxt = '"' + v.replace('\\', '\\\\').replace('"', '\\"') + '"'  # quoted-string with quoted-pairs
            else:
                vtxt = v
            params.append((ktxt, vtxt, k, v))
        if exotic and rng.random() < 0.2:
            params.append((rng.choice(['flag', 'x', 'Q']), None, None, None))  # no '=': ignored by cgi
        qsrc = rng.random()
        if qsrc < 0.7:
            q = rng.choice(ties) if ties and rng.random() < 0.6 else rng.choice(Q_POOL)
            qtxt = q if rng.random() < 0.9 else '"' + q + rng.choice(['', ' ']) + '"'
            params.insert(rng.randint(0, len(params)), ('q' if rng.random() < 0.85 else 'Q', qtxt, 'q', q))
            if exotic and rng.random() < 0.1:  # a repeated q: the last one counts (dict semantics)
                q2 = rng.choice(Q_POOL)
                params.append(('q', q2, 'q', q2))
        text = self._ws(exotic) + self._case_kind(kind) + self._ws(exotic)
        eff: dict = {}
        for ktxt, vtxt, k, v in params:
            text += ';' + self._ws(exotic)
            if vtxt is None:
                text += ktxt
            else:
                text += ktxt + rng.choice(['', '', ' ']) + '=' + rng.choice(['', '', ' ']) + vtxt
                eff[k] = v
            text += self._ws(exotic)
        q = F(eff.pop('q')) if 'q' in eff else F(1)
        return text, kind.strip().lower(), eff, q

    def _header_spec(self, kinds: typing.Optional[list] = None, exotic: bool = False, sizes=(1, 2, 2, 3, 3, 3, 4, 4, 5, 5, 6, 8)):
        rng = self.rng
        n = rng.choice(sizes)
        ties = rng.sample(Q_POOL, 2) + ['0.5', '0.50']
        items = [self._range_spec(ties, kinds, exotic) for _ in range(n)]
        text = items[0][0]
        for it in items[1:]:
            text += self._ws(exotic) + ',' + self._ws(exotic) + it[0]
        return text, [(k, o, q) for _, k, o, q in items]

    # ---- concrete-syntax generator (specs of lean/ForML/Model/CodecHeader.lean) -------------------------------------
    def _pad(self, exotic: bool = False, p_empty: float = 0.55) -> str:
        rng = self.rng
        if rng.random() < p_empty:
            return ''
        alphabet = ' ' * 6 + '\t' * 2 + ('\x0c\x0b\r\n\x1c\x1f' if exotic else '')
        return ''.join(rng.choice(alphabet) for _ in range(rng.choice([1, 1, 1, 2, 3])))

    def _q_spelling(self, thousandths: typing.Optional[int] = None):
        """a spelling (w1, sign, int digits, frac digits or None, w2) of a quality in thousandths (a random one in 0..1, sometimes up
        to 2 or negative, when not given): optional sign, leading zeros, no integer part, bare point, trailing zeros"""
        rng = self.rng
        if thousandths is None:
            thousandths = rng.choice([0, 1, 100, 250, 300, 500, 500, 501, 750, 800, 900, 999, 1000, 1000, rng.randint(0, 1000),
                                      rng.randint(0, 2000), -rng.randint(0, 1000)])
        neg = thousandths < 0 or (thousandths == 0 and rng.random() < 0.1)
        ip, fp = divmod(abs(thousandths), 1000)
        frac = f'{fp:03d}'.rstrip('0')
        frac += '0' * rng.randint(0, 3 - len(frac)) if rng.random() < 0.4 else ''
        r = rng.random()
        if frac:
            fr = frac
        else:
            fr = None if r < 0.5 else rng.choice(['', '0', '00', '000'])
        if ip == 0 and fr:
            i = rng.choice(['', '0', '0', '0', '00'])
        else:
            i = ('0' if rng.random() < 0.1 else '') + str(ip)
        sign = 'minus' if neg else ('plus' if rng.random() < 0.08 else 'none')
        return {'w1': '', 'sign': sign, 'int': i, 'frac': fr, 'w2': '', 'value': -abs(thousandths) if neg else thousandths}

    @staticmethod
    def _q_text(qs) -> str:
        return (qs['w1'] + {'none': '', 'plus': '+', 'minus': '-'}[qs['sign']] + qs['int']
                + ('' if qs['frac'] is None else '.' + qs['frac']) + qs['w2'])

    def _gen_range(self, tie_values, kinds=None, exotic: bool = False):
        """one media range as a spec; `exotic` adds what the property does not speak about (parameters without '=', repeated
        names, stray ';', Python-only white space, a q that is not a number)"""
        rng = self.rng
        kind = self._case_kind(rng.choice(kinds) if kinds else rng.choice(CONCRETE_KINDS if rng.random() < 0.6 else PATTERN_KINDS))
        params = []
        nopt = rng.choice([0, 0, 0, 1, 1, 2, 3])
        keys = [rng.choice(OPT_KEYS) for _ in range(nopt)] if exotic else rng.sample(OPT_KEYS, nopt)
        for k in keys:
            v = rng.choice(OPT_VALUES[k])
            if exotic and rng.random() < 0.1:  # what the comma split and the quote parity of cgi cannot read
                v = rng.choice(['x,y', 'x , y', 'tail\\', 'a,b/c;q=0.9', ','])
            name = k if rng.random() < 0.75 else (k.upper() if rng.random() < 0.5 else k.capitalize())
            quoted = any(c in v for c in ' ;",') or v.endswith('\\') or (v == '' and rng.random() < 0.5) or rng.random() < 0.2
            if not quoted and (',' in v or v.endswith('\\')):
                continue
            if quoted and (',' in v or v.endswith('\\')) and not exotic:
                continue
            w3 = self._pad(exotic) if spec_value_text(v, quoted) else ''
            params.append(('kv', self._pad(exotic), self._pad(exotic), name, self._pad(exotic, 0.8), w3, v, quoted))
        if rng.random() < 0.7:
            if exotic and rng.random() < 0.15:
                qtext = rng.choice(BAD_Q)
            else:
                qs = self._q_spelling(rng.choice(tie_values) if rng.random() < 0.6 else None)
                self._qspecs.append(qs)
                qtext = self._q_text(qs)
            quoted = rng.random() < 0.1
            if quoted and qtext and rng.random() < 0.5:
                qtext += ' '
            if not quoted and any(c in qtext for c in PY_WS + ',;"'):
                quoted = True
            w3 = self._pad(exotic) if spec_value_text(qtext, quoted) else ''
            params.insert(rng.randint(0, len(params)),
                          ('kv', self._pad(exotic), self._pad(exotic), 'q' if rng.random() < 0.85 else 'Q', self._pad(exotic, 0.8), w3, qtext, quoted))
        if exotic:
            for _ in range(rng.choice([0, 1, 1, 2])):
                text = rng.choice(['', '', 'flag', 'x', 'Q', 'q'])
                params.insert(rng.randint(0, len(params)), ('flag', self._pad(exotic), self._pad(exotic) if text else '', text))
        return {'w0': self._pad(exotic), 'kind': kind, 'params': params, 'wEnd': self._pad(exotic)}

    def _gen_specs(self, kinds=None, exotic: bool = False, sizes=(1, 2, 2, 3, 3, 3, 4, 4, 5, 5, 6, 8)):
        rng = self.rng
        ties = [rng.choice([0, 100, 300, 500, 500, 800, 1000, 1000]), rng.randint(0, 1000)]
        return [self._gen_range(ties, kinds, exotic) for _ in range(rng.choice(sizes))]

    @staticmethod
    def _specs_sem(specs):
        """[(kind as the constructor normalises it, options without q, quality)] of in-property specs"""
        out = []
        for r in specs:
            kind, opts, q = spec_meaning(r)
            out.append((kind.strip().lower(), {k: v for k, v in opts if k != 'q'}, q))
        return out

    def _check_render(self, batches):
        """the Lean renderer writes the same text as this generator, finds the specs well-formed (the hypothesis of
        C19_parse_render) and means the same ranges: a disagreement is a defect of the machinery, not of forml"""
        answers = self.model([sexp.dumps(['render', spec_sexp(specs)]) for specs in batches])
        for specs, ans in zip(batches, answers):
            m = _loads(ans)
            text = spec_render(specs)
            if not isinstance(m, list) or ''.join(chr(int(c)) for c in m[2]) != text:
                raise fw.MachineryError(f'Lean renderHeader and the generator disagree on {specs!r}: {m!r} vs {text!r}')
            meanings = [spec_meaning(r) for r in specs]
            if any(q is None for _, _, q in meanings):
                want = ['error', 'badQ']
            else:
                want = ['ok', [[k, [[a, b] for a, b in o], str(int(q * 1000))] for k, o, q in meanings]]
            if spec_in_property(specs) and m[0] != 'true':
                raise fw.MachineryError(f'a header of the property grammar is not well-formed for the Lean theorem: {text!r}')
            if m[1] == 'true' and m[3] != want:
                raise fw.MachineryError(f'Lean specRanges and the generator disagree on the meaning of {text!r}: {m[3]!r} vs {want!r}')

    def _check_qspecs(self):
        qs = self._qspecs[:self.n(2000, 15000)]
        answers = self.model([sexp.dumps(['qspell', q['w1'], q['sign'], q['int'], 'none' if q['frac'] is None else ['some', q['frac']], q['w2']])
                              for q in qs])
        for q, ans in zip(qs, answers):
            m = _loads(ans)
            text = self._q_text(q)
            self.case(('qspell', text), 'q spelling', nontrivial=True)
            if m[0] != 'true' or ''.join(chr(int(c)) for c in m[1]) != text or int(m[2]) != q['value'] or q_value(text) != F(q['value'], 1000):
                raise fw.MachineryError(f'Lean QSpec and the generator disagree on the spelling {text!r} of {q["value"]}/1000: {m!r}')
            try:
                got = float(text)
            except ValueError:
                got = None
            if got is None or F(got).limit_denominator(10 ** 6) != F(q['value'], 1000):
                self.diverge('float(q)', {'q': text}, got, q['value'])

    MUTATION_CHARS = ',;="\\ \t'

    def _mutate(self, text: str) -> str:
        """byte-level damage: insert / delete / duplicate a separator, quote, backslash or blank, flip the case of a letter,
        swap neighbours"""
        rng = self.rng
        for _ in range(rng.choice([1, 1, 2, 3])):
            op = rng.randrange(6)
            pos = rng.randrange(len(text) + 1)
            special = [i for i, c in enumerate(text) if c in self.MUTATION_CHARS]
            if op == 0:
                text = text[:pos] + rng.choice(self.MUTATION_CHARS) + text[pos:]
            elif op == 1 and special:
                i = rng.choice(special)
                text = text[:i] + text[i + 1:]
            elif op == 2 and special:
                i = rng.choice(special)
                text = text[:i] + text[i] + text[i:]
            elif op == 3:
                letters = [i for i, c in enumerate(text) if c.isalpha()]
                if letters:
                    i = rng.choice(letters)
                    text = text[:i] + text[i].swapcase() + text[i + 1:]
            elif op == 4 and len(text) > 1:
                i = rng.randrange(len(text) - 1)
                text = text[:i] + text[i + 1] + text[i] + text[i + 2:]
            elif text:
                i = rng.randrange(len(text))
                text = text[:i] + text[i + 1:]
        return text

    def _malformed(self) -> str:
        rng = self.rng
        style = rng.randrange(7)
        base, _ = self._header_spec(exotic=True)
        if style == 6:
            return base
        if style == 0:
            return base + rng.choice([';q=', '; q = ', ';Q=']) + rng.choice(BAD_Q)
        if style == 1:
            return rng.choice(['', ',', ',,', ' , ', base + ',', ',' + base, base + ',,' + base])
        if style == 2:
            return base.replace(';', ';;', 1) + rng.choice([';', ';;', '; ;x'])
        if style == 3:
            return base + rng.choice([';a="x', ';a="x;q=0.1', ';a="x\\";q=0.1";q=0.2', ';a="\\\\";q=0.3', ';a="', ';a=""', ';a="""',
                                      ';a="x,y"', ';a="x , y";q=0.4', ';a="x,b/c;q=0.9"', ';q="0.4,0.9"'])
        if style == 4:
            return rng.choice(['a;q=abc,b', 'a;q=0.5,b;q=x', 'a,b;q=', ';q=0.5', '=;q=0.2,a', 'a;=x;q=0.7', 'a; =  ;q=.1,b'])
        return base.replace('q=', 'q=' + rng.choice(BAD_Q), 1) if 'q=' in base else base + ';q=' + rng.choice(BAD_Q)

    def _pool(self):
        """>= 40 encodings: (kind, options) — patterns and concretes, with and without options"""
        rng = self.rng
        pool = [(k, o) for k, o in self._encs] + [(k, o) for k, o in self._decs]
        pool += [(k, {}) for k in CONCRETE_KINDS] + [(k, {}) for k in PATTERN_KINDS]
        for _ in range(24):
            kind = rng.choice(CONCRETE_KINDS[:3] + PATTERN_KINDS[:6])
            ks = rng.sample(OPT_KEYS, rng.choice([1, 1, 2, 3]))
            pool.append((kind, {k: rng.choice(OPT_VALUES[k]) for k in ks}))
        seen, out = set(), []
        for k, o in pool:
            key = (k, tuple(sorted(o.items())))
            if key not in seen:
                seen.add(key)
                out.append((k, o))
        return out

    # ---- implementation adapters --------------------------------------------------------------------
    @staticmethod
    def _impl_parse(header: str):
        from forml.io import layout
        try:
            return 'ok', [(e.kind, dict(e.options)) for e in layout.Encoding.parse(header)]
        except ValueError:
            return 'error', 'badQ'
        except Exception as e:  # pylint: disable=broad-except
            return 'error', type(e).__name__

    def _impl_encoder(self, encs):
        from forml.io import layout
        from forml.io.layout import _codec
        try:
            codec = layout.get_encoder(*[layout.Encoding(k, **o) for k, o in encs])
        except layout.Encoding.Unsupported:
            return None
        return next(i for i, c in enumerate(_codec.ENCODERS) if c is codec)

    def _impl_decoder(self, enc):
        from forml.io import layout
        from forml.io.layout import _codec
        try:
            codec = layout.get_decoder(layout.Encoding(enc[0], **enc[1]))
        except layout.Encoding.Unsupported:
            return None
        return next(i for i, (c, _) in enumerate(_codec.DECODERS) if c is codec)

    @staticmethod
    def _model_idx(ans: str):
        m = _loads(ans)
        if m == 'none':
            return None
        if isinstance(m, list) and m[0] == 'some':
            return int(m[1])
        return ('model', m)

    def _outside(self, what, case, impl, model):
        """model and code differ on an input the property does not speak about (a header outside its grammar, a
        non-concrete encoding where a concrete one is expected): recorded in the evidence, not a verdict"""
        declared = None
        text = ' '.join(str(v) for v in case.values()) if isinstance(case, dict) else str(case)
        if re.search(r'(?i)q["\s]*=["\s]*[+-]?(\d*\.\d{4,}|[\d.]*\d[\d._]*e[+-]?\d|\d[\d_]*_[\d_.]*|inf|nan)', text):
            declared = 'q spelling beyond the model (more than three decimals, exponent, inf, nan, _)'
        self._outside_list.append({'what': what, 'case': case, 'impl': impl, 'model': model, 'declared': declared})

    def _outside_report(self):
        self.extra['outside_property_mismatches'] = len(self._outside_list)
        undeclared = [o for o in self._outside_list if not o['declared']]
        self.extra['outside_property_mismatches_undeclared'] = len(undeclared)
        if self._outside_list:
            self.extra['outside_property_samples'] = (undeclared + self._outside_list)[:6]
            self.notes.append(f'{len(self._outside_list)} inputs outside the property (malformed headers, non-concrete content types) are '
                              f'handled differently by model and code (first: {self._outside_list[0]}) - model fidelity note, not a verdict')

    # ---- oracles --------------------------------------------------------------------------------------
    def _oracle_parse(self, header, spec, impl):
        """spec = generated ranges [(kind, options, q)]; expected = ordered by descending q, ties in header order"""
        order = sorted(range(len(spec)), key=lambda i: (-spec[i][2], i))
        want = [_canon_enc(spec[i][0], spec[i][1]) for i in order]
        if impl[0] != 'ok':
            return f'Encoding.parse raised {impl[1]} on a well-formed header', 'parse-raises'
        got = [_canon_enc(k, o) for k, o in impl[1]]
        if got == want:
            return None
        if sorted(map(repr, got)) != sorted(map(repr, want)):
            return f'Encoding.parse returned {got}, the header holds {want}', 'parse-content'
        return f'Encoding.parse order {[g[0] for g in got]} but by descending q (ties in header order) {[w[0] for w in want]}', 'parse-order'

    def _oracle_encoder(self, ts, idx):
        """first client pattern accepting any supported encoding decides; error iff none"""
        for k, o in ts:
            accepted = [i for i, (ek, eo) in enumerate(self._encs) if spec_match(k, o, ek, eo)]
            if accepted:
                if idx is None:
                    return f'get_encoder raised Unsupported although {k} {o} accepts encoder #{accepted[0]}', 'encoder-unsupported'
                if idx not in accepted:
                    return (f'get_encoder chose #{idx} {self._encs[idx]} which the first satisfiable client pattern '
                            f'{k} {o} does not accept'), 'encoder-choice'
                return None
        if idx is not None:
            return f'get_encoder chose #{idx} although no client pattern accepts a supported encoding', 'encoder-spurious'
        return None

    def _oracle_decoder(self, src, idx):
        k, o = src
        if any(ch in k for ch in '*?['):
            return None  # not a concrete content type: the property does not speak about it
        accepted = [i for i, (dk, do) in enumerate(self._decs) if spec_match(dk, do, k, o)]
        if idx is None:
            if accepted:
                return f'get_decoder raised Unsupported for {k} {o} although decoder #{accepted[0]} declares it', 'decoder-unsupported'
            return None
        if idx not in accepted:
            return f'get_decoder chose #{idx} {self._decs[idx]} which does not match {k} {o}', 'decoder-choice'
        return None

    # ---- streams --------------------------------------------------------------------------------------
    def _headers(self):
        corpus = [
            ('image/GIF; q=0.6; a=x, text/html; q=1.0', [('image/gif', {'a': 'x'}, F('0.6')), ('text/html', {}, F(1))]),
            ('a/b;q=0.5, c/d;q=0.5, e/f;q=0.50, g/h', [('a/b', {}, F(1, 2)), ('c/d', {}, F(1, 2)), ('e/f', {}, F(1, 2)), ('g/h', {}, F(1))]),
            ('text/csv;q=0, application/json;q=0.001', [('text/csv', {}, F(0)), ('application/json', {}, F(1, 1000))]),
            ('*/*;q=0.1,application/*;q=0.2,Application/JSON;Format=pandas-split;q=0.3',
             [('*/*', {}, F(1, 10)), ('application/*', {}, F(1, 5)), ('application/json', {'format': 'pandas-split'}, F(3, 10))]),
            (' text/csv ; a = "p;q" ;q=.5 ,\ttext/html', [('text/csv', {'a': 'p;q'}, F(1, 2)), ('text/html', {}, F(1))]),
            ('a;q=-1, b;q=2, c;q=+0.5, d;q=-0.0, e;q=0', [('a', {}, F(-1)), ('b', {}, F(2)), ('c', {}, F(1, 2)), ('d', {}, F(0)), ('e', {}, F(0))]),
            ('text/csv; a="say \\"hi\\""; q="0.5", */*;q=0.5', [('text/csv', {'a': 'say "hi"'}, F(1, 2)), ('*/*', {}, F(1, 2))]),
        ]
        cases = [(h, sp, 'corpus') for h, sp in corpus]
        for _ in range(self.n(5000, 60000)):
            cases.append(self._header_spec() + ('text',))
        # the same grammar generated as concrete syntax trees (every piece of white space, the case of every name, token or
        # quoted-string per value, every quality as a spelling): the objects C19_parse_render quantifies over
        self._qspecs = []
        batches = []
        for _ in range(self.n(3000, 30000)):
            specs = self._gen_specs()
            if not spec_in_property(specs):
                raise fw.MachineryError(f'generator left the property grammar: {specs!r}')
            batches.append(specs)
            cases.append((spec_render(specs), self._specs_sem(specs), 'syntax'))
        # byte-level damage of such headers; what is still of the grammar (own scanner) is treated like any header, the rest
        # goes to the outside-the-grammar stream
        self._mutated_out = []
        nin = 0
        for _ in range(self.n(5000, 40000)):
            text = self._mutate(spec_render(self.rng.choice(batches[:self.n(3000, 30000)])))
            specs = recognise(text)
            if specs is None:
                self._mutated_out.append(text)
            else:
                nin += 1
                batches.append(specs)
                cases.append((text, self._specs_sem(specs), 'mutated'))
        self.extra['mutated_headers'] = {'still_in_grammar': nin, 'outside': len(self._mutated_out)}
        self._check_render(batches)
        self._check_qspecs()
        answers = self.model([sexp.dumps(['parse', h]) for h, _, _ in cases] + [sexp.dumps(['accept', h]) for h, _, _ in cases]
                             + [sexp.dumps(['content', h]) for h, _, _ in cases])
        n = len(cases)
        for i, (header, spec, origin) in enumerate(cases):
            impl = self._impl_parse(header)
            m = _loads(answers[i])
            qs = [q for _, _, q in spec]
            shape = f'header {origin} n={len(spec)} ' + ('ties' if len(set(qs)) < len(qs) else 'distinct-q')
            self.case(('h', header), shape, nontrivial=len(spec) >= 2,
                      sample={'header': header, 'parsed': [k for k, _ in impl[1]] if impl[0] == 'ok' else impl})
            ci = ['ok', [_canon_enc(k, o) for k, o in impl[1]]] if impl[0] == 'ok' else list(impl)
            cm = ['ok', [_canon_enc(k, dict(map(tuple, o))) for k, o in m[1]]] if m[0] == 'ok' else m
            if ci != cm:
                self.diverge('Encoding.parse', {'header': header, 'spec': self._spec_json(spec)}, ci, cm)
            bad = self._oracle_parse(header, spec, impl)
            if bad:
                self.violate(bad[0], {'kind': 'parse', 'header': header, 'spec': self._spec_json(spec)}, bad[1])
            if impl[0] != 'ok' or not impl[1]:
                continue
            # the gateway path: rest.py parses Accept, Generic.respond -> get_encoder(*accept);
            # Content-Type: parse(...)[0], Generic.receive -> get_decoder
            idx = self._impl_encoder(impl[1])
            midx = self._model_idx(answers[n + i])
            if idx != midx:
                self.diverge('get_encoder(*parse(accept))', {'header': header}, idx, midx)
            bad = self._oracle_encoder(impl[1], idx)
            if bad:
                self.violate(bad[0], {'kind': 'accept', 'header': header}, bad[1])
            didx = self._impl_decoder(impl[1][0])
            mdidx = self._model_idx(answers[2 * n + i])
            if didx != mdidx:
                (self._outside if any(ch in impl[1][0][0] for ch in '*?[') else self.diverge)(
                    'get_decoder(parse(content-type)[0])', {'header': header}, didx, mdidx)
            bad = self._oracle_decoder(impl[1][0], didx)
            if bad:
                self.violate(bad[0], {'kind': 'content', 'header': header}, bad[1])

    @staticmethod
    def _spec_json(spec):
        return [[k, o, str(q)] for k, o, q in spec]

    def _malformed_stream(self):
        """Headers outside the property's grammar (bad or repeated q, empty items, parameters without '=', stray ; and quotes,
        commas inside quoted strings, Python-only white space): the model is compared with the code, a mismatch is recorded
        in the evidence (`outside_property_mismatches`, notes) but is not a verdict — the property says nothing about these."""
        cases = ['', ',', 'a,,b', 'a;q=abc', 'a;q=', 'a;=x', 'a;b', 'a;b=1;b=2;c=3', ';', 'a;q="0.5', 'a;x="1;q=0";q=0.5,b;q=0.7',
                 'a;q=1;q=0.2, b;q=0.3', 'a;x="1,2";q=0.1, b', 'a\x0c;\x1fq=0.5\x1c,\nb']
        cases += [self._malformed() for _ in range(self.n(1500, 20000))]
        # concrete syntax with what the property does not speak about (parameters without '=', repeated names, stray ';', Python-only
        # white space, q not a number, commas / trailing backslash in quoted strings): the Lean renderer is tied as above
        exotic = [self._gen_specs(exotic=True) for _ in range(self.n(1500, 20000))]
        self._check_render(exotic)
        cases += [spec_render(specs) for specs in exotic]
        cases += self._mutated_out
        answers = self.model([sexp.dumps(['parse', h]) for h in cases])
        for header, ans in zip(cases, answers):
            impl = self._impl_parse(header)
            m = _loads(ans)
            self.case(('m', header), 'outside grammar -> ' + (impl[0] if impl[0] == 'ok' else str(impl[1])), nontrivial=True)
            ci = ['ok', [_canon_enc(k, o) for k, o in impl[1]]] if impl[0] == 'ok' else list(impl)
            cm = ['ok', [_canon_enc(k, dict(map(tuple, o))) for k, o in m[1]]] if m[0] == 'ok' else m
            if ci != cm:
                self._outside('Encoding.parse', {'header': header}, ci, cm)

    def _pairs(self):
        from forml.io import layout
        pool = self._pool()
        pairs = list(itertools.product(pool, pool))
        answers = self.model([sexp.dumps(['match', _enc_sexp(*p), _enc_sexp(*c)]) for p, c in pairs])
        objs = [layout.Encoding(k, **o) for k, o in pool]
        index = {id(x): i for i, x in enumerate(pool)}
        for (p, c), ans in zip(pairs, answers):
            impl = objs[index[id(p)]].match(objs[index[id(c)]])
            concrete = not any(ch in c[0] for ch in '*?[')
            self.case(('p', p[0], tuple(sorted(p[1].items())), c[0], tuple(sorted(c[1].items()))),
                      f'pair {"concrete" if concrete else "non-concrete"} -> {impl}', nontrivial=impl or bool(p[1]))
            if (ans == 'true') != impl:
                (self.diverge if concrete else self._outside)('Encoding.match', {'pattern': list(p), 'other': list(c)}, impl, ans)
            if concrete and impl != spec_match(p[0], p[1], c[0], c[1]):
                self.violate(f'Encoding{p}.match(Encoding{c}) is {impl}: kind-as-wildcard {spec_wild(p[0], c[0])}, '
                             f'options subset {all(c[1].get(k) == v for k, v in p[1].items())}',
                             {'kind': 'match', 'pattern': list(p), 'other': list(c)},
                             'match-accepts-wrong' if impl else 'match-rejects-wrong')
        self.extra['pool_size'] = len(pool)
        return pool

    def _globs(self):
        import fnmatch
        rng = self.rng
        cases = [('[!]', '!'), ('[]]', ']'), ('[a-]', '-'), ('[-a]', '-'), ('[a-c-e]', 'd'), ('[c-a]', 'b'), ('[!c-a]', 'b'),
                 ('a[', 'a['), ('[]-a]', '^'), ('**a', 'a'), ('*a*b*', 'xaybz'), ('[a-b--c]', '-'), ('[a--]', 'b'), ('[--a]', '/')]
        for _ in range(self.n(2000, 60000)):
            if rng.random() < 0.5:
                pat = ''.join(rng.choice('aabc/-*?[]!') for _ in range(rng.randint(0, 7)))
            else:  # structured: literals, * ? and closed bracket expressions (negated, ranges, leading ] or -)
                pat = ''
                for _ in range(rng.randint(1, 4)):
                    piece = rng.random()
                    if piece < 0.45:
                        pat += '[' + rng.choice(['', '', '!']) + rng.choice(['', '', ']', '-']) + ''.join(
                            rng.choice('abc/-') for _ in range(rng.randint(1, 4))) + ']'
                    elif piece < 0.6:
                        pat += rng.choice('*?')
                    else:
                        pat += rng.choice('abc/')
            pat = re.sub(r'(?<!\[)!', 'b', pat)  # '!' only as a negation mark (see TRUSTED)
            if rng.random() < 0.4:
                name = ''.join(rng.choice('aabc/-]') for _ in range(rng.randint(0, 5)))
            else:  # derived from the pattern so that matches are frequent
                name, inset = '', False
                for i, c in enumerate(pat):
                    if c == '*':
                        name += ''.join(rng.choice('abc/') for _ in range(rng.randint(0, 2)))
                    elif c == '?':
                        name += rng.choice('abc/-')
                    elif c == '[' and not inset:
                        inset = True
                        body = pat[i + 1:].split(']')[0] or ']'
                        name += rng.choice(body if rng.random() < 0.7 and not body.startswith('!') else 'abc-]/')
                    elif c == ']' and inset:
                        inset = False
                    elif not inset:
                        name += c
            cases.append((pat, name))
        answers = self.model([sexp.dumps(['glob', p, s]) for p, s in cases])
        for (p, s), ans in zip(cases, answers):
            impl = fnmatch.fnmatchcase(s, p)
            self.case(('g', p, s), f'glob {"[" if "[" in p else "*?" if any(c in p for c in "*?") else "lit"} -> {impl}',
                      nontrivial=any(c in p for c in '*?['))
            if (ans == 'true') != impl:
                self.diverge('fnmatch', {'pattern': p, 'name': s}, impl, ans)

    def _negotiation(self, pool):
        rng = self.rng
        cases = [[('foo/bar', {}), ('application/*', {})], [], [('*/*', {})], [('text/*', {}), ('application/json', {})]]
        for _ in range(self.n(4000, 20000)):
            cases.append([rng.choice(pool) for _ in range(rng.choice([1, 1, 2, 2, 3, 4]))])
        answers = self.model([sexp.dumps(['encoder', [_enc_sexp(*t) for t in ts]]) for ts in cases])
        for ts, ans in zip(cases, answers):
            idx = self._impl_encoder(ts)
            midx = self._model_idx(ans)
            self.case(('e', tuple((k, tuple(sorted(o.items()))) for k, o in ts)),
                      f'encoder n={len(ts)} -> {"unsupported" if idx is None else "#" + str(idx)}', nontrivial=len(ts) >= 2)
            if idx != midx:
                self.diverge('get_encoder', {'targets': [list(t) for t in ts]}, idx, midx)
            bad = self._oracle_encoder(ts, idx)
            if bad:
                self.violate(bad[0], {'kind': 'encoder', 'targets': [list(t) for t in ts]}, bad[1])
        answers = self.model([sexp.dumps(['decoder', _enc_sexp(*src)]) for src in pool])
        for src, ans in zip(pool, answers):
            idx = self._impl_decoder(src)
            midx = self._model_idx(ans)
            self.case(('d', src[0], tuple(sorted(src[1].items()))),
                      f'decoder -> {"unsupported" if idx is None else "#" + str(idx)}', nontrivial=True)
            if idx != midx:
                (self._outside if any(ch in src[0] for ch in '*?[') else self.diverge)('get_decoder', {'source': list(src)}, idx, midx)
            bad = self._oracle_decoder(src, idx)
            if bad:
                self.violate(bad[0], {'kind': 'decoder', 'source': list(src)}, bad[1])

    # ---- codec round trip -------------------------------------------------------------------------------
    def _float(self, decimals: typing.Tuple[int, int], wide: bool = True) -> float:
        """a decimal number of at most 15 significant digits (the precision to which a double identifies a decimal)"""
        rng = self.rng
        ip = rng.choice([0, 0, rng.randint(0, 9), rng.randint(0, 9999)]) if wide else rng.randint(0, 9)
        nd = rng.randint(*decimals)
        frac = ''.join(rng.choice('0123456789') for _ in range(nd))
        return float(f"{rng.choice(['', '-'])}{ip}.{frac or '0'}")

    def _table(self, slice_only: bool, floats: typing.Optional[typing.Tuple[int, int]] = None):
        rng = self.rng
        ncol = rng.randint(1, 4)
        names = rng.sample(['A', 'B', 'col_1', 'x', 'Label', 'z9'] + ([] if slice_only else ['x y', 'a,b']), ncol)
        kinds = [rng.choice(['int', 'str'] + (['float', 'float'] if floats else [])) for _ in range(ncol)]
        alphabet = 'xyzwk' if slice_only else 'xyzwk ,"\'-'
        rows = []
        for _ in range(rng.randint(1, 5)):
            row = []
            for kd in kinds:
                if kd == 'int':
                    row.append(rng.randint(-1000, 1000))
                elif kd == 'float':
                    row.append(self._float(floats))
                else:
                    body = ''.join(rng.choice(alphabet) for _ in range(rng.randint(0, 4)))
                    row.append(rng.choice('xyzwk') + body + rng.choice('xyzwk'))
            rows.append(row)
        return names, kinds, rows

    @staticmethod
    def _plain(v):
        """a decoded cell as a plain Python value: int / float (NaN for every missing-value object) / bool / str"""
        import numbers
        if isinstance(v, str):
            return v
        if isinstance(v, bool) or type(v).__name__ in ('bool_', 'bool'):  # numpy.bool_ (named 'bool' in numpy 2)
            return bool(v)
        if isinstance(v, numbers.Integral):
            return int(v)
        if isinstance(v, numbers.Real):
            return float(v)
        if v is None or v != v:
            return float('nan')
        return repr(v)

    @staticmethod
    def _same_cell(g, w, kd) -> bool:
        """the decoded cell is the cell that was encoded (numbers by value, text by text, a missing cell is missing)"""
        if w is None:
            return isinstance(g, float) and g != g
        if kd == 'str':
            return isinstance(g, str) and g == w
        if kd == 'bool':
            return isinstance(g, bool) and g == w
        if isinstance(g, (bool, str)):
            return False
        return isinstance(g, (int, float)) and g == w  # a row of numbers only is handed out as one float array: by value

    @staticmethod
    def _is_retyped_text(g, w) -> bool:
        """g is what a type-inferring reader makes of the text w (number / missing value / boolean)"""
        if isinstance(g, str):
            return False
        if w in _NA:
            return isinstance(g, float) and g != g
        if w.lower() in _BOOL:
            return isinstance(g, bool) and g == (w.lower() == 'true')
        if _NUMERIC.match(w):
            return isinstance(g, (int, float)) and not isinstance(g, bool) and float(g) == float(w)
        return False

    @staticmethod
    def _is_rounded(g, w) -> bool:
        """g is the float w rounded to ten decimal places (and not w itself); exact arithmetic on the shortest decimal spellings"""
        if not isinstance(g, (int, float)) or isinstance(g, bool) or g != g or w != w or abs(g) == float('inf') or abs(w) == float('inf'):
            return False
        dg, dw = F(repr(float(g))), F(repr(float(w)))
        return dg != dw and abs(dg - dw) <= F(1, 2 * 10 ** 10) and (dg * 10 ** 10).denominator == 1

    @staticmethod
    def _jsonable(v):
        return v if isinstance(v, (int, str, bool)) or (isinstance(v, float) and v == v and abs(v) != float('inf')) else repr(v)

    def _roundtrip_once(self, names, kinds, rows, enc_idx, dec_enc):
        """encode with ENCODERS[enc_idx], decode with get_decoder(dec_enc); returns (status, detail, encoded bytes)"""
        from forml.io import dsl, layout
        from forml.io.layout import _codec
        kind_of = {'int': dsl.Integer, 'str': dsl.String, 'float': dsl.Float, 'bool': dsl.Boolean}
        schema = dsl.Schema.from_fields(*(dsl.Field(kind_of[kd](), name=nm) for nm, kd in zip(names, kinds)))
        encoder = _codec.ENCODERS[enc_idx]
        try:
            data = encoder.dumps(layout.Outcome(schema, [list(r) for r in rows]))
        except Exception as err:  # pylint: disable=broad-except
            return 'differs', {'error': f'encoder raised {type(err).__name__}: {err}'[:200], 'cause': None}, b''
        try:
            decoder = layout.get_decoder(layout.Encoding(dec_enc[0], **dec_enc[1]))
            entry = decoder.loads(data)
        except FileNotFoundError:
            return 'unusable', 'pandas.read_json treats the literal as a path', data
        except Exception as err:  # pylint: disable=broad-except
            cause = None
            if not rows and type(err).__name__ == 'MissingError' and 'Empty frame' in str(err):
                return 'refused', {'error': 'MissingError: Empty frame'}, data  # by design (ASSUMPTIONS): a frame without rows
            if (encoder.encoding.options.get('format') == 'pandas-columns' and not dec_enc[1] and any(n in ('instances', 'inputs') for n in names)
                    and isinstance(err, ValueError)):
                cause = 'json-columns-sniffed'
            elif encoder.encoding.kind == 'text/csv' and self._csv_cr_unquoted(names, rows):
                cause = 'csv-cr-unquoted'
            elif (encoder.encoding.kind == 'text/csv' and len(names) == 1 and rows and type(err).__name__ == 'MissingError' and 'Empty frame' in str(err)
                  and all(isinstance(r[0], str) and r[0] and not r[0].strip(' \t') for r in rows)):
                cause = 'csv-blank-line'  # every row is a line of blanks: nothing is left
            elif (encoder.encoding.kind == 'application/json' and isinstance(err, ValueError) and 'Value None is of unknown ETL type' in str(err)
                  and any(kd == 'bool' and any(r[j] is None for r in rows) for j, kd in enumerate(kinds))):
                cause = 'json-null-object-column'  # booleans with a missing cell: an object column holding None
            return 'differs', {'error': f'{type(err).__name__}: {err}'[:200], 'cause': cause}, data
        got_names = [f.name for f in entry.schema]
        got_rows = [[self._plain(v) for v in r] for r in entry.data.to_rows()]
        if (got_names == list(names) and len(got_rows) == len(rows) and all(len(gr) == len(wr) for gr, wr in zip(got_rows, rows))
                and all(self._same_cell(g, w, kd) for gr, wr in zip(got_rows, rows) for g, w, kd in zip(gr, wr, kinds))):
            return 'same', None, data
        cause = None
        if encoder.encoding.kind == 'text/csv' and self._csv_cr_unquoted(names, rows):
            cause = 'csv-cr-unquoted'  # a carriage return outside quotes is a record end for the reader: other rows / names / cells
        elif got_names == list(names) and len(got_rows) == len(rows) and all(len(gr) == len(wr) for gr, wr in zip(got_rows, rows)):
            diff = [(g, w, kd) for gr, wr in zip(got_rows, rows) for g, w, kd in zip(gr, wr, kinds) if not self._same_cell(g, w, kd)]
            if encoder.encoding.kind == 'text/csv' and all(kd == 'str' and isinstance(w, str) and looks_typed(w) and self._is_retyped_text(g, w)
                                                            for g, w, kd in diff):
                cause = 'csv-text-retyped'
            elif encoder.encoding.kind == 'application/json' and all(kd == 'float' and w is not None and self._is_rounded(g, w) for g, w, kd in diff):
                cause = 'json-float-rounded'
        elif (encoder.encoding.kind == 'text/csv' and len(names) == 1 and got_names == list(names)
              and [r for r in rows if not (isinstance(r[0], str) and r[0] and not r[0].strip(' \t'))] != rows
              and len(got_rows) == len([r for r in rows if not (isinstance(r[0], str) and r[0] and not r[0].strip(' \t'))])):
            cause = 'csv-blank-line'  # one-column table: the cells of blanks only are missing, as lines of blanks are skipped
        return 'differs', {'columns': got_names, 'rows': [[self._jsonable(v) for v in r] for r in got_rows], 'cause': cause}, data

    @staticmethod
    def _csv_cr_unquoted(names, rows) -> bool:
        """some field holds a carriage return and nothing that makes the writer quote it"""
        fields = list(names) + [v for r in rows for v in r if isinstance(v, str)]
        return any('\r' in f and not any(c in f for c in ',"\n') for f in fields)

    @staticmethod
    def _rt_signature(label: str, detail) -> str:
        """the two known root causes get their own keys — untyped CSV (every differing cell is a text cell that looks
        like a number / NA marker / boolean and came back as exactly that typed reading) and the ten-decimal rounding of the
        JSON encoders (every differing cell is a float cell that came back as itself rounded to ten places); any other
        difference of any pair keeps the pair's key"""
        return 'roundtrip-' + (detail.get('cause') or label)

    def _codec_pairs(self):
        """(label, encoder index, content type given to get_decoder): the decoder's pattern matches the encoder's encoding"""
        pairs = []
        for i, (k, o) in enumerate(self._encs):
            pairs.append((f'{k};{o.get("format", "")}', i, (k, o)))  # the declared encoding itself
        for i, (k, o) in enumerate(self._encs):
            if k == 'application/json' and o.get('format') in ('pandas-records', 'pandas-columns'):
                pairs.append((f'{k};{o["format"]} as plain application/json', i, (k, {})))
        return pairs

    def _rt_case(self, tag, names, kinds, rows, pairs, usable, probe: bool):
        for label, ei, dec in pairs:
            if usable.get(label) is False or (not probe and not usable.get(label)):
                continue
            status, detail, data = self._roundtrip_once(names, kinds, rows, ei, dec)
            if status == 'unusable':
                usable[label] = False
                self.case(('rt-unusable', label), f'roundtrip {label} unusable here', nontrivial=False)
                continue
            usable[label] = True
            self.case((tag, label, tuple(names), tuple(map(tuple, rows))), f'roundtrip {tag} {label} -> {status}', nontrivial=len(rows) > 1 or tag != 'rt')
            if status == 'differs':
                self.violate(f'{label}: dumps -> loads returned {detail} for columns {names} rows {rows} (encoded: {data[:120]!r})',
                             {'kind': 'roundtrip', 'names': names, 'kinds': kinds, 'rows': rows, 'encoder': list(self._encs[ei]), 'decoder': list(dec)},
                             self._rt_signature(label, detail))

    def _roundtrip(self):
        pairs = self._codec_pairs()
        usable: dict = {}
        # ints, texts, floats of at most ten decimal places: every usable pair returns the table
        tables = [(['A', 'B'], ['int', 'str'], [[1, 'a'], [2, 'b']]), (['A', 'B'], ['float', 'str'], [[0.5, 'a'], [-2.25, 'b']])]
        tables += [self._table(slice_only=False, floats=(0, 10) if i % 2 else None) for i in range(self.n(400, 2000))]
        for names, kinds, rows in tables:
            self._rt_case('rt', names, kinds, rows, pairs, usable, probe=True)
        # text cells that look typed: JSON keeps them (typed format), text/csv does not (known finding C19-F1)
        for _ in range(self.n(40, 400)):
            names, kinds, rows = self._table(slice_only=True)
            if 'str' not in kinds:
                kinds[0] = 'str'
            col = kinds.index('str')
            whole = self.rng.random() < 0.6
            for r in rows:
                for j, kd in enumerate(kinds):
                    if kd == 'str' and isinstance(r[j], int):
                        r[j] = 'x'
                if whole or self.rng.random() < 0.5:
                    r[col] = self.rng.choice(TYPED_TEXT)
            self._rt_case('rt-typed-text', names, kinds, rows, pairs, usable, probe=False)
        # float cells with 11..14 decimal places (<= 15 significant digits): text/csv keeps them, every JSON encoder
        # rounds to ten places (known finding C19-F2)
        for _ in range(self.n(40, 400)):
            names, kinds, rows = self._table(slice_only=True)
            if 'float' not in kinds:
                kinds[0] = 'float'
            for r in rows:
                for j, kd in enumerate(kinds):
                    if kd == 'float':
                        r[j] = self._float((11, 14), wide=False) if self.rng.random() < 0.8 else self._float((0, 10))
                    elif kd == 'str' and not isinstance(r[j], str):
                        r[j] = 'x'
            self._rt_case('rt-fine-float', names, kinds, rows, pairs, usable, probe=False)
        self.extra['codec_pairs'] = {k: ('exercised' if v else 'unusable in this environment (pandas.read_json)') for k, v in usable.items()}
        if not any(usable.values()):
            raise fw.MachineryError('no codec pair is usable in this environment')
        self._json_precision()
        self._typed_roundtrip(pairs, usable)
        self._columns_documents()
        self._schema_cache()
        self._pandas_fidelity()
        # the unquoted CSV slice against the Lean token model (text and cells)
        csv = next((i for i, (k, _) in enumerate(self._encs) if k == 'text/csv'), None)
        if csv is None:
            return
        slices = [self._table(slice_only=True) for _ in range(self.n(100, 1000))]
        lines = [sexp.dumps(['csv', [list(n)] + [[str(v) for v in r] for r in rows]]) for n, _, rows in slices]
        for (names, kinds, rows), ans in zip(slices, self.model(lines)):
            _, _, data = self._roundtrip_once(names, kinds, rows, csv, ('text/csv', {}))
            m = _loads(ans)
            self.case(('csv', tuple(names), tuple(map(tuple, rows))), 'csv slice vs model', nontrivial=True)
            want_cells = [list(names)] + [[str(v) for v in r] for r in rows]
            if m[0] != data.decode() or m[1] != want_cells:
                self.diverge('text/csv dumps on the unquoted slice', {'names': names, 'rows': rows}, data.decode(), m)

    # ---- typed tables vs the table model (lean/ForML/Model/CodecTable.lean) ------------------------------------------
    T_NAMES = ['A', 'B', 'col_1', 'x', 'Label', 'z9', 'x y', 'a,b', 'q"r', ' lead', 'NA', '1', '1.0', 'null', 'True']
    T_TEXTS = ['a', 'b', 'xy', 'k w', 'p,q', 'say "hi"', 'two\nlines', "it's", '-', 'e3', '1e', '1_000', '0x10', 'NAN', 'none', 'T', ' x', 'x ',
               '2020-01-01', '#x', 'a\\b', '/x']
    T_TYPED = TYPED_TEXT + ['', '', ' 12', '13 ', '\t7', 'Infinity', '-inf', 'TRUE', 'False', '+5', '.5', '3.', '1E3', '1e-3', '<NA>', '#N/A', 'NULL',
                            'NaN', '-nan', 'n/a', '00', '-0', '1.#IND']

    def _typed_table(self, flavour: str, nrows: typing.Optional[int] = None, ncol: typing.Optional[int] = None):
        """(names, kinds, rows, cells for the model): integer / float / text / boolean columns with missing cells.
        flavour: plain | typed-text | blank | cr | sniffed | fine-float | empty | null-bool | sized (row / column counts given: the
        first column then numbers the rows so that any permutation of rows shows; numeric column names for some wide tables)"""
        rng = self.rng
        if ncol is None:
            ncol = 1 if flavour == 'blank' else rng.randint(1, 4)
        self._table_serial = getattr(self, '_table_serial', 0) + 1
        # a suffix of their own keeps most tables away from what the schema cache of this process already holds
        base = list(self.T_NAMES) + [f'c{j}' for j in range(max(0, ncol - len(self.T_NAMES)))]
        pool = list(base) if rng.random() < 0.3 and flavour not in ('empty', 'null-bool') else [f'{n}_{self._table_serial}' for n in base]
        names = rng.sample(pool, ncol)
        if flavour == 'sized' and ncol >= 9 and rng.random() < 0.5:  # column labels '0', '1', ..., '10', ...: in order or shuffled
            names = [str(j) for j in range(ncol)]
            if rng.random() < 0.4:
                rng.shuffle(names)
        if flavour == 'sniffed':
            names[rng.randrange(ncol)] = rng.choice(['instances', 'inputs'])
        if flavour == 'cr' and rng.random() < 0.2:
            names[rng.randrange(ncol)] = rng.choice(['a\rb', 'x\r'])
        kinds = [rng.choice(['int', 'float', 'str', 'str', 'bool']) for _ in range(ncol)]
        if flavour in ('typed-text', 'blank', 'cr') and 'str' not in kinds:
            kinds[0] = 'str'
        if flavour == 'fine-float' and 'float' not in kinds:
            kinds[0] = 'float'
        if flavour == 'null-bool' and 'bool' not in kinds:
            kinds[0] = 'bool'
        if flavour == 'sized':
            kinds[0] = rng.choice(['int', 'str'])
        if nrows is None:
            nrows = 0 if flavour == 'empty' else rng.randint(1, 5)
        cols, model_cols = [], []
        special = kinds.index('str') if 'str' in kinds else None
        for j, kd in enumerate(kinds):
            cells, mcells = [], []
            whole = rng.random() < 0.6
            for i in range(nrows):
                if flavour == 'sized' and j == 0:  # the row's own number, as a number or as a text
                    cells.append(i if kd == 'int' else f'r{i}')
                    mcells.append(['i', i] if kd == 'int' else ['t', f'r{i}'])
                    continue
                if rng.random() < (0.4 if flavour == 'null-bool' else 0.12) and (kd != 'bool' or flavour == 'null-bool'):
                    cells.append(None)
                    mcells.append('null')
                    continue
                if kd == 'int':
                    v = rng.choice([rng.randint(-1000, 1000), rng.randint(-9, 9), rng.randint(-10 ** 15 + 1, 10 ** 15 - 1) if rng.random() < 0.2 else 7])
                    cells.append(v)
                    mcells.append(['i', v])
                elif kd == 'float':
                    scale = rng.randint(11, 14) if flavour == 'fine-float' and rng.random() < 0.7 else rng.randint(0, 10)
                    n = rng.randint(0, 10 ** rng.randint(1, min(15, scale + 4)) - 1)
                    while scale > 0 and n % 10 == 0:
                        n, scale = n // 10, scale - 1
                    neg = n > 0 and rng.random() < 0.4
                    cells.append(float(f"{'-' if neg else ''}{n}e-{scale}"))
                    mcells.append(['f', neg, n, scale])
                elif kd == 'bool':
                    v = rng.random() < 0.5
                    cells.append(v)
                    mcells.append(['b', v])
                else:
                    if j == special and flavour == 'typed-text' and (whole or rng.random() < 0.5):
                        v = rng.choice(self.T_TYPED)
                    elif j == special and flavour == 'blank' and rng.random() < 0.5:
                        v = rng.choice([' ', '\t', '  '])
                    elif j == special and flavour == 'cr' and rng.random() < 0.6:
                        v = rng.choice(['a\rb', '\r', 'x\r', 'p,\rq', 'say "\r"'])
                    else:
                        v = rng.choice(self.T_TEXTS)
                    cells.append(v)
                    mcells.append(['t', v])
            if nrows and all(c is None for c in cells):  # an all-None column has no dsl kind
                v = {'int': 1, 'float': 0.5, 'bool': True, 'str': 'a'}[kd]
                cells[0], mcells[0] = v, {'int': ['i', 1], 'float': ['f', False, 5, 1], 'bool': ['b', True], 'str': ['t', 'a']}[kd]
            cols.append(cells)
            model_cols.append([names[j], kd, mcells])
        rows = [[c[i] for c in cols] for i in range(nrows)]
        return names, kinds, rows, model_cols

    PAIR_OPS = {'text/csv;': 'csv', 'application/json;pandas-records as plain application/json': 'records',
                'application/json;pandas-columns as plain application/json': 'columns'}
    VERDICT_CAUSE = {'csv-retyped': 'csv-text-retyped', 'csv-cr': 'csv-cr-unquoted', 'csv-blank-line': 'csv-blank-line',
                     'json-rounded': 'json-float-rounded', 'json-sniffed': 'json-columns-sniffed', 'json-null-object': 'json-null-object-column'}

    @staticmethod
    def _positional(model_cols) -> bool:
        """every float cell is written by repr() without an exponent (the range of the model's writer)"""
        for _, _, cells in model_cols:
            for c in cells:
                if isinstance(c, list) and c[0] == 'f' and c[2] != 0 and not (10 ** (c[3] - 4) <= c[2] < 10 ** (c[3] + 16)):
                    return False
        return True

    def _typed_roundtrip(self, pairs, usable):
        """tables of typed columns with missing cells, empty / numeric-looking / marker-looking texts, carriage returns, cells of
        blanks, column names the JSON reader sniffs for, floats of more than ten decimals, no rows: the real round trip of every
        usable pair against the model's verdict (Table.csvVerdict / jsonVerdict), the model's text/csv text and the oracle"""
        flavours = ['plain'] * 5 + ['typed-text'] * 3 + ['blank', 'cr', 'sniffed', 'fine-float', 'empty', 'null-bool']
        tables = [('plain', ['A', 'B'], ['int', 'str'], [[1, 'a'], [None, 'b']], [['A', 'int', [['i', 1], 'null']], ['B', 'str', [['t', 'a'], ['t', 'b']]]]),
                  ('typed-text', ['B'], ['str'], [['007'], ['x']], [['B', 'str', [['t', '007'], ['t', 'x']]]])]
        for _ in range(self.n(300, 3000)):
            fl = self.rng.choice(flavours)
            tables.append((fl,) + self._typed_table(fl))
        # table sizes across the decimal-digit boundaries of the row / column labels ('9' | '10', '99' | '100'): sampled in the
        # quick tier, swept in the thorough one
        row_sizes = [9, 10, 11, 11, 12, 12, self.rng.choice([13, 20, 31]), 99, 100, 101, self.rng.choice([110, 250])] if self.quick else \
            [n for n in (0, 1, 2, 9, 10, 11, 12, 13, 19, 20, 21, 99, 100, 101, 102, 110, 111, 250, 1000, 1001) for _ in range(4)]
        col_sizes = [10, 11, 11, 12, 12] if self.quick else [n for n in (9, 10, 11, 12, 13, 20, 21, 25) for _ in range(4)]
        if self.escalation > 1:
            row_sizes, col_sizes = row_sizes * 2, col_sizes * 2
        for n in row_sizes:
            tables.append((f'sized rows={n}',) + self._typed_table('sized', nrows=n, ncol=self.rng.randint(1, 3)))
        for n in col_sizes:
            tables.append((f'sized cols={n}',) + self._typed_table('sized', nrows=self.rng.choice([1, 2, 3, 11]), ncol=n))
        # the JSON pairs first: a text/csv decode of the same columns would teach the schema cache what the JSON frames need (C19-F6)
        todo = sorted([(label, ei, dec) for label, ei, dec in pairs if label in self.PAIR_OPS and usable.get(label)], key=lambda t: t[0] == 'text/csv;')
        lines = [sexp.dumps(['table', self.PAIR_OPS[label], mcols]) for _, _, _, _, mcols in tables for label, _, _ in todo]
        answers = iter(self.model(lines))
        for fl, names, kinds, rows, mcols in tables:
            for label, ei, dec in todo:
                m = _loads(next(answers))
                status, detail, data = self._roundtrip_once(names, kinds, rows, ei, dec)
                self.case(('typed', label, tuple(names), tuple(map(tuple, rows))), f'typed roundtrip {fl} {self.PAIR_OPS[label]} -> model {m[1]} / real {status}',
                          nontrivial=True)
                witness = {'kind': 'roundtrip', 'names': names, 'kinds': kinds, 'rows': rows, 'encoder': list(self._encs[ei]), 'decoder': list(dec)}
                case = {'names': names, 'kinds': kinds, 'rows': rows, 'pair': label}
                if m[0] != 'true':
                    raise fw.MachineryError(f'generated table is not well-formed for the model: {case}')
                if self.PAIR_OPS[label] == 'csv' and self._positional(mcols) and ''.join(chr(int(c)) for c in m[2]) != data.decode():
                    self.diverge('text/csv text written by the encoder', case, data.decode(), ''.join(chr(int(c)) for c in m[2]))
                if status == 'differs':
                    self.violate(f'{label}: dumps -> loads returned {detail} for columns {names} rows {rows} (encoded: {data[:120]!r})',
                                 witness, self._rt_signature(label, detail))
                # the model's characterisation against what happened
                if m[1] == 'empty':
                    if status not in ('refused', 'same'):  # 'same' when the schema cache already knows the columns
                        self._outside('round trip of a table without rows', case, status, m[1])
                elif m[1] == 'same':
                    if status != 'same':
                        self.diverge('round trip characterisation: the model says the table comes back', case, [status, detail], m[1])
                elif status == 'same':
                    self._outside('round trip characterisation: the model says the table does not come back', case, status, m[1])
                elif status == 'differs' and detail.get('cause') != self.VERDICT_CAUSE[m[1]]:
                    self._outside('round trip characterisation: cause', case, detail.get('cause'), m[1])

    # ---- columns-layout documents of a client through the plain application/json decoder ------------------------------
    def _columns_documents(self):
        """{column: {row label: value}} documents as the pandas-columns encoder writes them (labels '0'..'n-1', n across the digit
        boundaries) and as a client may write them (string, unsorted, numeric-looking labels): the decoded rows against the model,
        where `from_dict` keeps the document order.  Labels other than the encoder's: fidelity note."""
        import json
        from forml.io import layout
        rng = self.rng
        sizes = [1, 2, 9, 10, 11, 12, 25, 100, 101] if self.quick else [1, 2, 3, 9, 10, 11, 12, 13, 20, 21, 99, 100, 101, 110, 250, 1001] * 3
        docs = []
        for serial, n in enumerate(sizes * 2):
            style = 'default' if serial < len(sizes) else rng.choice(['reversed', 'shuffled', 'words', 'offset', 'padded'])
            labels = [str(i) for i in range(n)]
            if style == 'reversed':
                labels.reverse()
            elif style == 'shuffled':
                rng.shuffle(labels)
            elif style == 'words':
                labels = [rng.choice('abcxyz') + str(rng.randint(0, 10 ** 6)) + f'_{i}' for i in range(n)]
            elif style == 'offset':
                labels = [str(i + 5) for i in range(n)]
            elif style == 'padded':
                labels = [f'{i:04d}' for i in range(n)]
            ncol = rng.randint(1, 3)
            names = [f'd{serial}_{j}' for j in range(ncol)]
            cols = []
            for j in range(ncol):
                text = j > 0 and rng.random() < 0.5
                cols.append([f'v{i}' if text else i * (j + 1) for i in range(n)])
            docs.append((style, names, labels, cols))
        lines = [sexp.dumps(['columnsdoc', [[nm, [[lb, ['t', v] if isinstance(v, str) else ['i', v]] for lb, v in zip(labels, col)]]
                                            for nm, col in zip(names, cols)]]) for _, names, labels, cols in docs]
        for (style, names, labels, cols), ans in zip(docs, self.model(lines)):
            m = _loads(ans)
            payload = json.dumps({nm: dict(zip(labels, col)) for nm, col in zip(names, cols)}).encode()
            try:
                entry = layout.get_decoder(layout.Encoding('application/json')).loads(payload)
                got = ['ok', [f.name for f in entry.schema], [[self._plain(v) for v in r] for r in entry.data.to_rows()]]
            except Exception as err:  # pylint: disable=broad-except
                got = ['error', f'{type(err).__name__}: {err}'[:120]]
            want = ['ok', [c[0] for c in m[1]], [[(c[1][i][1] if c[1][i][0] == 't' else int(c[1][i][1])) for c in m[1]] for i in range(len(labels))]] \
                if isinstance(m, list) and m[0] == 'ok' else ['error', m]
            self.case(('columnsdoc', style, len(labels), tuple(names)), f'columns document {style} rows={"<=10" if len(labels) <= 10 else ">10"}', nontrivial=True)
            if got != want:
                case = {'labels': labels[:14], 'rows': len(labels), 'names': names, 'style': style}
                (self.diverge if style == 'default' else self._outside)('columns-layout document through the plain application/json decoder',
                                                                       case, got if got[0] != 'ok' else [got[1], got[2][:14]],
                                                                       want if want[0] != 'ok' else [want[1], want[2][:14]])

    # ---- the schema cache of Pandas.Schema.from_frame through one process ---------------------------------------------
    def _frame_of(self, payload: bytes, kind: str):
        import io
        import pandas
        from forml.io.layout import _codec
        return pandas.read_csv(io.StringIO(payload.decode())) if kind == 'text/csv' else _codec.Json.to_pandas(payload.decode())

    def _schema_sequences(self):
        """sequences of payloads decoded one after the other: equal column types under different names, the same names again,
        frames without rows before and after their columns are known to the cache"""
        import json
        rng = self.rng
        seqs = []
        for s in range(self.n(60, 600)):
            tag = f's{s}_'
            shapes = [rng.sample(['int', 'str', 'float', 'bool', 'obj'], rng.randint(1, 3)) for _ in range(2)]
            name_sets = [[tag + rng.choice('abcdefgh') + str(i) for i in range(3)] for _ in range(3)]
            seq = []
            prev = None
            for _ in range(rng.randint(2, 6)):
                kinds = rng.choice(shapes)
                names = rng.choice(name_sets)[:len(kinds)]
                if prev and len(prev[0]) > 1 and rng.random() < 0.25:  # the columns of the previous payload in another order
                    order = rng.sample(range(len(prev[0])), len(prev[0]))
                    kinds, names = [prev[0][i] for i in order], [prev[1][i] for i in order]
                prev = (kinds, names)
                nrows = rng.choice([0, 1, 2, 2, 3])
                rows = []
                for _ in range(nrows):
                    rows.append([{'int': rng.randint(0, 9), 'str': rng.choice('xyz') + 'q', 'float': rng.randint(1, 9) / 4 + 0.125,
                                  'bool': rng.random() < 0.5, 'obj': rng.choice([True, None])}[k] for k in kinds])
                if nrows and 'obj' in kinds:  # an object column: booleans with a missing cell
                    j = kinds.index('obj')
                    rows[0][j] = True
                    if nrows > 1:
                        rows[1][j] = None
                if rng.random() < 0.6:
                    text = ','.join(names) + '\n' + ''.join(','.join('' if v is None else str(v) for v in r) + '\n' for r in rows)
                    seq.append(('text/csv', text.encode(), names))
                else:
                    seq.append(('application/json', json.dumps([dict(zip(names, r)) for r in rows]).encode(), names if rows else []))
            seqs.append(seq)
        return seqs

    def _decode_names(self, kind: str, payload: bytes):
        from forml.io import layout
        try:
            entry = layout.get_decoder(layout.Encoding(kind)).loads(payload)
            return ['schema', [f.name for f in entry.schema]]
        except Exception as err:  # pylint: disable=broad-except
            if type(err).__name__ == 'MissingError' and 'Empty frame' in str(err):
                return 'empty-frame'
            if isinstance(err, ValueError) and 'Value None is of unknown ETL type' in str(err):
                return 'untypable'
            return ['error', f'{type(err).__name__}: {err}'[:120]]

    def _schema_cache(self):
        seqs = self._schema_sequences()
        lines, observed = [], []
        for seq in seqs:
            sigs, got = [], []
            for kind, payload, names in seq:
                try:
                    frame = self._frame_of(payload, kind)
                    untypable = any(str(d) == 'object' and any(v is None for v in frame[c]) for c, d in zip(frame.columns, frame.dtypes))
                    sigs.append([[str(c) for c in frame.columns], [str(d) for d in frame.dtypes], bool(frame.empty), untypable])
                except Exception:  # pylint: disable=broad-except
                    sigs.append(None)
                got.append(self._decode_names(kind, payload))
            observed.append((sigs, got))
            lines.append(sexp.dumps(['schemas', 'items', [s for s in sigs if s is not None]]) if all(s is not None for s in sigs) else None)
        answers = iter(self.model([ln for ln in lines if ln is not None]))
        for seq, (sigs, got), ln in zip(seqs, observed, lines):
            self.case(('schema-seq', tuple((k, p) for k, p, _ in seq)), f'schema cache sequence n={len(seq)}', nontrivial=True)
            witness = {'kind': 'schema-sequence', 'payloads': [[k, p.decode()] for k, p, _ in seq]}
            for step, ((kind, payload, names), g) in enumerate(zip(seq, got)):
                # oracle: the decoded entry is described by the columns of the payload it was decoded from
                if isinstance(g, list) and g[0] == 'schema' and g[1] != list(names) and names:
                    self.violate(f'payload #{step} of a sequence decoded in one process ({payload[:60]!r}, {kind}) came back with the fields {g[1]}, '
                                 f'its columns are {names}', dict(witness, payloads=witness['payloads'][:step + 1]), 'roundtrip-schema-names')
                    break
            if ln is None:
                continue
            m = _loads(next(answers))
            if m != got:
                # which fields a decoded entry carries is the property's business; whether a frame without rows / with an untypable
                # column is refused or served from the cache is not
                names_differ = any(isinstance(a, list) and isinstance(b, list) and a[0] == b[0] == 'schema' and a[1] != b[1] for a, b in zip(got, m))
                (self.diverge if names_differ else self._outside)('Pandas.Schema.from_frame over the frames of one process', witness, got, m)

    # ---- the pieces of pandas.read_csv the table theorems talk about ----------------------------------------------------
    def _pandas_fidelity(self):
        """the tokeniser (records / fields, quotes, blank lines) and the per-column type inference of the Lean model against
        pandas.read_csv on generated texts: a mismatch says the *model of pandas* is off — fidelity note, not a verdict on forml"""
        import io
        import pandas
        rng = self.rng
        texts = ['A,B\n1,"a\n""b"\n\n \n2,c\n""\nx"y,"z"w\n', '""\n', 'a\n \nb\n', 'a,b\n,\n', '"a",b\n']
        for _ in range(self.n(1500, 20000)):
            texts.append(''.join(rng.choice('ab,,"""\n\n \t') for _ in range(rng.randint(0, 12))))
        answers = self.model([sexp.dumps(['csvread', t]) for t in texts])
        for t, ans in zip(texts, answers):
            m = _loads(ans)
            try:
                df = pandas.read_csv(io.StringIO(t), header=None, dtype=str, keep_default_na=False, na_filter=False)
                got = [['' if v != v else v for v in row] for row in df.values.tolist()]
            except pandas.errors.EmptyDataError:
                got = []
            except Exception:  # pylint: disable=broad-except
                continue  # ragged records: pandas refuses, the model does not speak about them
            width = max((len(r) for r in m), default=0)
            self.case(('csvread', t), 'csv tokeniser vs pandas', nontrivial=True)
            if [r + [''] * (width - len(r)) for r in m] != got:
                self._outside('read_csv tokeniser', {'text': t}, got, m)
        pool = self.T_TEXTS + self.T_TYPED + ['1', '2.5', '-3', 'True', 'false', 'inf', ' ', '1e400', '1.2.3', '--1', '1e', '.', '+', 'Nan', 'iNf', '1ee3']
        cols = [[rng.choice(pool) for _ in range(rng.randint(1, 4))] for _ in range(self.n(800, 10000))]
        cols = [c for c in cols if not any(ch in f for f in c for ch in ',"\n\r')]
        answers = self.model([sexp.dumps(['infer', c]) for c in cols])
        for c, ans in zip(cols, answers):
            m = _loads(ans)
            text = 'A,Z\n' + ''.join(f + ',k\n' for f in c)
            col = pandas.read_csv(io.StringIO(text))['A']
            kind = ('numbers' if col.dtype.kind in 'iuf' or (col.dtype == object and all(isinstance(v, int) for v in col)) else
                    'bools' if col.dtype == bool or (col.dtype == object and all(isinstance(v, bool) or v != v for v in col)) else 'texts')
            if all(f in _NA for f in c):
                kind = m[0]  # nothing but missing-value markers: any reading gives a column of NaN
            self.case(('infer', tuple(c)), f'csv column inference -> {kind}', nontrivial=True)
            if m[0] != kind:
                self._outside('read_csv type inference', {'fields': c}, kind, m[0])

    def _json_precision(self):
        """what the JSON encoders write for a float cell vs `Dec.jsonRender` (ties of the rounding are avoided: the
        eleventh decimal digit is never 4 or 5)"""
        import json
        from forml.io import dsl, layout
        from forml.io.layout import _codec
        rng = self.rng
        jsons = [i for i, (k, o) in enumerate(self._encs) if k == 'application/json' and o.get('format') in ('pandas-records', 'pandas-values', 'pandas-split')]
        if not jsons:
            return
        cases = [(1, 12), (5, 1), (123456789096, 12), (0, 3)]
        for _ in range(self.n(150, 3000)):
            scale = rng.randint(0, 14)
            digits = [rng.choice('0123456789') for _ in range(scale + 1)]  # one integer digit + scale decimals
            if scale > 10:
                digits[11] = rng.choice('01236789')
            cases.append((int(''.join(digits)), scale))
        schema = dsl.Schema.from_fields(dsl.Field(dsl.Float(), name='A'))
        answers = self.model([sexp.dumps(['jsonfloat', n, k]) for n, k in cases])
        for (n, k), ans in zip(cases, answers):
            value = float(f'{n}e-{k}')
            ei = rng.choice(jsons)
            m = _loads(ans)
            try:
                text = _codec.ENCODERS[ei].dumps(layout.Outcome(schema, [[value], [1.5]])).decode()
                doc = json.loads(text, parse_float=F, parse_int=F)
                cell = doc[0]['A'] if isinstance(doc, list) and isinstance(doc[0], dict) else (doc[0][0] if isinstance(doc, list) else doc['data'][0][0])
            except Exception as err:  # pylint: disable=broad-except
                self.diverge('float cell written by a JSON encoder', {'n': n, 'scale': k, 'encoder': list(self._encs[ei])}, f'{type(err).__name__}: {err}'[:120], m)
                continue
            self.case(('jsonfloat', n, k), f'json float decimals {"<=10" if k <= 10 else ">10"}', nontrivial=True)
            if F(int(m[0]), 10 ** int(m[1])) != cell:
                self.diverge('float cell written by a JSON encoder', {'n': n, 'scale': k, 'encoder': list(self._encs[ei])}, str(cell), m)

    # ---- driver of the check ------------------------------------------------------------------------------
    def correspondence(self):
        self._encs, self._decs = self._live_tables()
        self._outside_list = []
        self.extra['tables'] = {'ENCODERS': [k + ''.join(f'; {a}={b}' for a, b in o.items()) for k, o in self._encs],
                                'DECODERS': [k + ''.join(f'; {a}={b}' for a, b in o.items()) for k, o in self._decs]}
        self._headers()
        self._malformed_stream()
        pool = self._pairs()
        self._globs()
        self._negotiation(pool)
        self._roundtrip()
        self._generic()
        self._rest()
        self._outside_report()

    def _generic(self):
        """`application.Generic.receive/respond` use exactly get_decoder / get_encoder"""
        from forml import application
        from forml.io import dsl, layout
        from forml.io.layout import _codec
        app = application.Generic('c19')
        schema = dsl.Schema.from_fields(dsl.Field(dsl.Integer(), name='A'), dsl.Field(dsl.String(), name='B'))
        outcome = layout.Outcome(schema, [[1, 'x'], [2, 'y']])
        for header in ['text/csv', 'foo/bar, text/*;q=0.5', 'application/json;q=0.1, text/csv;q=0.2', '*/*', 'foo/bar',
                       'application/json; format=pandas-split']:
            accept = layout.Encoding.parse(header)
            want = self._impl_encoder([(e.kind, dict(e.options)) for e in accept])
            try:
                payload = app.respond(outcome, accept, None)
                got = next((i for i, c in enumerate(_codec.ENCODERS) if c.encoding == payload.encoding),
                           f'a payload declared as {getattr(payload, "encoding", None)!r}')
                same = isinstance(got, int) and payload.data == _codec.ENCODERS[got].dumps(outcome)
            except layout.Encoding.Unsupported:
                got, same = None, True
            except Exception as err:  # pylint: disable=broad-except
                got, same = f'{type(err).__name__}: {err}'[:120], False
            self.case(('generic-respond', header), 'Generic.respond', nontrivial=True)
            if got != want or not same:
                self.violate(f'Generic.respond for Accept {header!r} used encoder {got}, get_encoder gives {want}',
                             {'kind': 'generic-respond', 'header': header}, 'generic-respond')
        request = layout.Request(b'A,B\n1,x\n2,y\n', layout.Encoding.parse('Text/CSV; charset=utf-8')[0])
        self.case(('generic-receive',), 'Generic.receive', nontrivial=True)
        try:
            decoded = app.receive(request)
            rows = [[int(list(r)[0]), list(r)[1]] for r in decoded.entry.data.to_rows()]
        except layout.Encoding.Unsupported as err:
            rows = f'Unsupported: {err}'
        except Exception as err:  # pylint: disable=broad-except
            rows = f'{type(err).__name__}: {err}'[:120]
        if rows != [[1, 'x'], [2, 'y']] or request.accept != (request.payload.encoding,):
            self.violate(f'Generic.receive of a text/csv; charset=utf-8 request gave {rows}', {'kind': 'generic-receive'}, 'generic-receive')
        try:
            app.receive(layout.Request(b'x', layout.Encoding('foo/bar')))
            self.violate('Generic.receive accepted foo/bar', {'kind': 'generic-receive-unsupported'}, 'generic-receive')
        except layout.Encoding.Unsupported:
            pass
        except Exception as err:  # pylint: disable=broad-except
            self.violate(f'Generic.receive of a foo/bar request raised {type(err).__name__} instead of the unsupported-encoding error',
                         {'kind': 'generic-receive-unsupported'}, 'generic-receive')

    # ---- the REST gateway route (provider/gateway/rest.py Apply) ------------------------------------------------
    @staticmethod
    def _header_encoding(value: str):
        """(kind, options) of a response Content-Type header as written by `Encoding.header` (plain split: no quoting there)"""
        parts = [p.strip() for p in value.split(';')]
        return parts[0].lower(), dict(p.split('=', 1) for p in parts[1:] if '=' in p)

    def _rest_oracle(self, ctype_spec, accept_spec, status, ctype_out):
        """415 exactly when the declared content type has no decoder or no Accept range has an encoder; otherwise the
        response is encoded by an encoder accepted by the first satisfiable Accept range (in preference order)"""
        best = min(range(len(ctype_spec)), key=lambda i: (-ctype_spec[i][2], i))
        ck, co, _ = ctype_spec[best]
        if any(c in ck for c in '*?['):
            return None  # not a concrete content type: the property does not speak about it
        decodable = any(spec_match(dk, do, ck, co) for dk, do in self._decs)
        order = sorted(range(len(accept_spec)), key=lambda i: (-accept_spec[i][2], i))
        accepted = None
        for i in order:
            k, o, _ = accept_spec[i]
            hits = [j for j, (ek, eo) in enumerate(self._encs) if spec_match(k, o, ek, eo)]
            if hits:
                accepted = hits
                break
        if not decodable or accepted is None:
            if status != 415:
                return (f'REST gateway answered {status} although ' + ('no decoder declares the content type' if not decodable else
                        'no Accept range is supported'), 'rest-unsupported-not-refused')
            return None
        if status == 415:
            return 'REST gateway refused (415) a request whose content type has a decoder and whose Accept has a supported range', 'rest-refused'
        if status != 200:
            return f'REST gateway answered {status}', 'rest-status'
        gk, go = self._header_encoding(ctype_out)  # starlette adds "; charset=utf-8" to text/* media types: extra options are fine
        if not any(self._encs[j][0] == gk and all(go.get(k) == v for k, v in self._encs[j][1].items()) and
                   (self._encs[j][1] or 'format' not in go) for j in accepted):
            return (f'REST gateway responded with {ctype_out!r}, the first supported Accept range (by q, ties in header order) '
                    f'accepts only {[self._encs[j] for j in accepted]}'), 'rest-encoder-choice'
        return None

    def _rest_call(self, client, ctype: typing.Optional[str], accept: typing.Optional[str], body: bytes):
        """None = the header is not sent"""
        headers = {k: v for k, v in (('content-type', ctype), ('accept', accept)) if v is not None}
        r = client.post('/c19', content=body, headers=headers)
        return r.status_code, r.headers.get('content-type', '')

    def _rest_client(self):
        from starlette import applications, testclient
        from forml import application
        from forml.io import layout
        from forml.provider.gateway import rest
        descriptor = application.Generic('c19')

        async def handler(_, request):
            entry = descriptor.receive(request).entry
            outcome = layout.Outcome(entry.schema, entry.data.to_rows())
            return layout.Response(descriptor.respond(outcome, request.accept, None), 'c19')

        client = testclient.TestClient(applications.Starlette(routes=[rest.Apply(handler)]), raise_server_exceptions=False)
        client.headers.pop('accept', None)  # the test client's own default `Accept: */*`
        return client

    def _rest_observed(self, status: int, ctype_out: str):
        """the route's answer in the terms of the model: ['ok', encoder index] / 'unsupported' / 'error' / ('status', n)"""
        if status == 415:
            return 'unsupported'
        if status == 500:
            return 'error'
        if status != 200:
            return ['status', status]
        gk, go = self._header_encoding(ctype_out)  # starlette adds "; charset=utf-8" to text/*: extra options are ignored
        hits = [j for j, (k, o) in enumerate(self._encs)
                if k == gk and all(go.get(a) == b for a, b in o.items()) and (o or 'format' not in go)]
        return ['ok', hits[0]] if len(hits) == 1 else ['content-type', ctype_out]

    @staticmethod
    def _rest_model(ans: str):
        m = _loads(ans)
        return ['ok', int(m[1])] if isinstance(m, list) and m[0] == 'ok' else m

    REST_KINDS = ['text/csv', 'text/csv', 'application/json', 'application/json', 'foo/bar', 'text/plain', 'application/xml', 'text/*']
    REST_ACCEPT = ['application/json', 'text/csv', 'text/*', '*/*', 'application/*', 'foo/bar', 'text/html', 'image/*', '*/json', 't*/c*v']
    BODIES = {'text/csv': b'A,B\n1,x\n2,y\n', 'application/json': b'[{"A":1,"B":"x"},{"A":2,"B":"y"}]'}

    def _rest_case(self):
        """a Content-Type header (1..3 ranges, no format option: the pandas-* decoders are unusable here) and an Accept header"""
        while True:
            ctype, cspec = self._header_spec(kinds=self.REST_KINDS, sizes=(1, 1, 1, 2, 3))
            if not any('format' in o for _, o, _ in cspec):
                break
        accept, aspec = self._header_spec(kinds=self.REST_ACCEPT if self.rng.random() < 0.5 else None)
        return ctype, cspec, accept, aspec

    def _rest(self):
        try:
            client = self._rest_client()
        except ImportError as err:  # starlette's test client needs httpx
            self.notes.append(f'REST route not driven: {err}')
            return
        corpus = [('text/csv', 'foo/bar, application/*;q=0.5'), ('text/csv', 'foo/bar'), ('application/octet-stream', '*/*'),
                  ('text/csv;q=0.1, application/json', 'text/*;q=0.2, application/json;q=0.2;format=pandas-split'),
                  ('Text/CSV; charset=utf-8', 'application/json;q=0.5, text/csv;q=0.50, */*;q=0.1')]
        cases = []
        for ctype, accept in corpus:
            cases.append((ctype, self._respec(ctype), accept, self._respec(accept)))
        cases += [self._rest_case() for _ in range(self.n(400, 1500))]
        answers = self.model([sexp.dumps(['gateway', ['some', ctype], ['some', accept]]) for ctype, _, accept, _ in cases])
        for (ctype, cspec, accept, aspec), ans in zip(cases, answers):
            best = min(range(len(cspec)), key=lambda i: (-cspec[i][2], i))
            body = self.BODIES.get(cspec[best][0], b'A\n1\n')
            status, out = self._rest_call(client, ctype, accept, body)
            self.case(('rest', ctype, accept), f'rest -> {status}', nontrivial=True)
            bad = self._rest_oracle(cspec, aspec, status, out)
            if bad:
                self.violate(bad[0] + f' (Content-Type {ctype!r}, Accept {accept!r})',
                             {'kind': 'rest', 'content_type': ctype, 'content_spec': self._spec_json(cspec), 'accept': accept,
                              'accept_spec': self._spec_json(aspec)}, bad[1])
            got, want = self._rest_observed(status, out), self._rest_model(ans)
            if got != want:
                (self._outside if any(c in cspec[best][0] for c in '*?[') else self.diverge)(
                    'REST route (rest.py Apply + Generic.receive/respond)', {'content_type': ctype, 'accept': accept}, got, want)
        # defaults and the error mapping of the route, which the property does not speak about (no Accept / no Content-Type header,
        # empty headers, a q that is not a number -> 500): compared with the model (gateway, C19_gateway_*), fidelity note only
        rng = self.rng
        extra = [(None, None), ('text/csv', None), ('text/csv', ''), ('text/csv', ' '), ('text/csv; charset=utf-8', None), ('', '*/*'),
                 ('text/csv;q=x', '*/*'), ('text/csv', '*/*;q=high'), (None, 'a;q=z'), ('application/json', None), (None, '*/*')]
        for _ in range(self.n(150, 1500)):
            ctype, accept = self._rest_case()[0], self._rest_case()[2]
            r = rng.random()
            if r < 0.3:
                accept = rng.choice([None, None, ''])
            elif r < 0.4:
                ctype = rng.choice([None, ''])
            elif r < 0.7:
                bad = rng.choice([';q=', '; q = ', ';Q=']) + rng.choice(BAD_Q)
                if rng.random() < 0.5:
                    accept += bad
                else:
                    ctype += bad
            extra.append((ctype, accept))
        answers = self.model([sexp.dumps(['gateway', 'none' if c is None else ['some', c], 'none' if a is None else ['some', a]]) for c, a in extra])
        for (ctype, accept), ans in zip(extra, answers):
            impl = self._impl_parse(ctype) if ctype is not None else ('ok', [('application/octet-stream', {})])
            head = impl[1][0][0] if impl[0] == 'ok' and impl[1] else ''
            status, out = self._rest_call(client, ctype, accept, self.BODIES.get(head, b'A\n1\n'))
            self.case(('rest-default', ctype, accept), f'rest defaults/errors -> {status}', nontrivial=True)
            got, want = self._rest_observed(status, out), self._rest_model(ans)
            if got != want:
                self._outside('REST route defaults / error mapping', {'content_type': ctype, 'accept': accept}, got, want)

    @staticmethod
    def _respec(header: str):
        """spec of a hand-written corpus header of the plain grammar (no quoting)"""
        spec = []
        for item in header.split(','):
            parts = [p.strip() for p in item.split(';')]
            opts = {k.strip().lower(): v.strip() for k, v in (p.split('=', 1) for p in parts[1:])}
            q = F(opts.pop('q')) if 'q' in opts else F(1)
            spec.append((parts[0].lower(), opts, q))
        return spec

    # ---- failing-input search ---------------------------------------------------------------------------
    def search(self, reason):
        """Run the oracles on the real code around the diverging cases: sub-headers of diverging headers
        (single ranges, adjacent pairs, prefixes), every pool encoding as a one-element Accept / Content-Type."""
        self._encs, self._decs = self._live_tables()
        tried = 0
        for d in self.divergences[:50]:
            case = d.case if isinstance(d.case, dict) else {}
            header = case.get('header')
            if header is None:
                continue
            parts = [p for p in header.split(',')]
            subs = {p for p in parts} | {','.join(parts[i:i + 2]) for i in range(len(parts))} | {','.join(parts[:i]) for i in range(1, len(parts) + 1)}
            for sub in sorted(subs, key=len):
                impl = self._impl_parse(sub)
                tried += 1
                if impl[0] != 'ok' or not impl[1]:
                    continue
                idx = self._impl_encoder(impl[1])
                bad = self._oracle_encoder(impl[1], idx)
                if bad:
                    self.violate(bad[0], {'kind': 'accept', 'header': sub}, bad[1])
                    break
                bad = self._oracle_decoder(impl[1][0], self._impl_decoder(impl[1][0]))
                if bad:
                    self.violate(bad[0], {'kind': 'content', 'header': sub}, bad[1])
                    break
        for _ in range(2000):
            header, spec = self._header_spec()
            impl = self._impl_parse(header)
            tried += 1
            bad = self._oracle_parse(header, spec, impl)
            if bad:
                # shrink: drop ranges while the oracle still fails
                changed = True
                while changed and len(spec) > 1:
                    changed = False
                    for i in range(len(spec)):
                        parts = header.split(',')
                        if len(parts) != len(spec):
                            break
                        h2, s2 = ','.join(parts[:i] + parts[i + 1:]), spec[:i] + spec[i + 1:]
                        b2 = self._oracle_parse(h2, s2, self._impl_parse(h2))
                        if b2 and b2[1] == bad[1]:
                            header, spec, bad, changed = h2, s2, b2, True
                            break
                self.violate(bad[0], {'kind': 'parse', 'header': header, 'spec': self._spec_json(spec)}, bad[1])
                break
        # tables and sequences of payloads: the oracle on the real code around the diverging cases
        budget = {'schema': 3, 'table': 6}
        for d in self.divergences[:200]:
            case = d.case if isinstance(d.case, dict) else {}
            if case.get('kind') == 'schema-sequence':
                if budget['schema'] <= 0:
                    continue
                budget['schema'] -= 1
                for i in range(len(case['payloads'])):
                    for j in range(i + 1, len(case['payloads'])):
                        pair = [case['payloads'][i], case['payloads'][j]]
                        bad = self._replay_schema_sequence(pair)
                        tried += 1
                        if bad:
                            self.violate(bad[0], {'kind': 'schema-sequence', 'payloads': pair}, bad[1])
                            break
                    else:
                        continue
                    break
            elif 'rows' in case and 'pair' in case:
                pairs = {label: (ei, dec) for label, ei, dec in self._codec_pairs()}
                if case['pair'] not in pairs or budget['table'] <= 0:
                    continue
                budget['table'] -= 1
                ei, dec = pairs[case['pair']]
                names, kinds, rows = list(case['names']), list(case['kinds']), [list(r) for r in case['rows']]
                status, detail, _ = self._roundtrip_once(names, kinds, rows, ei, dec)
                tried += 1
                if status != 'differs':
                    continue
                changed = True
                while changed:  # shrink: drop rows, then columns, while the table still does not come back
                    changed = False
                    for i in range(len(rows)):
                        if len(rows) > 1:
                            r2 = rows[:i] + rows[i + 1:]
                            st, dt, _ = self._roundtrip_once(names, kinds, r2, ei, dec)
                            tried += 1
                            if st == 'differs' and self._rt_signature(case['pair'], dt) == self._rt_signature(case['pair'], detail):
                                rows, detail, changed = r2, dt, True
                                break
                    if not changed and len(names) > 1:
                        for j in range(len(names)):
                            n2, k2, r2 = names[:j] + names[j + 1:], kinds[:j] + kinds[j + 1:], [r[:j] + r[j + 1:] for r in rows]
                            st, dt, _ = self._roundtrip_once(n2, k2, r2, ei, dec)
                            tried += 1
                            if st == 'differs' and self._rt_signature(case['pair'], dt) == self._rt_signature(case['pair'], detail):
                                names, kinds, rows, detail, changed = n2, k2, r2, dt, True
                                break
                self.violate(f'{case["pair"]}: dumps -> loads returned {detail} for columns {names} rows {rows}',
                             {'kind': 'roundtrip', 'names': names, 'kinds': kinds, 'rows': rows, 'encoder': list(self._encs[ei]), 'decoder': list(dec)},
                             self._rt_signature(case['pair'], detail))
        self.notes.append(f'failing-input search ({reason}): {tried} inputs re-examined by the oracles on the real code')

    @staticmethod
    def _replay_schema_sequence(payloads):
        """decode the payloads one after the other in a process of their own (the schema cache is process-wide)"""
        import json
        import subprocess
        import sys
        script = ('import sys, json, warnings, logging\nwarnings.simplefilter("ignore"); logging.disable(logging.CRITICAL)\n'
                  'from forml.io import layout\nout = []\n'
                  'for kind, text in json.loads(sys.stdin.read()):\n'
                  '    try:\n        out.append([f.name for f in layout.get_decoder(layout.Encoding(kind)).loads(text.encode()).schema])\n'
                  '    except Exception as e:\n        out.append(type(e).__name__)\nprint(json.dumps(out))\n')
        r = subprocess.run([sys.executable, '-c', script], input=json.dumps(payloads), capture_output=True, text=True, timeout=120, cwd='/tmp')
        if r.returncode != 0:
            return None
        got = json.loads(r.stdout.strip().split('\n')[-1])
        for step, ((kind, text), g) in enumerate(zip(payloads, got)):
            if kind == 'text/csv':
                names = text.split('\n', 1)[0].split(',')
            else:
                recs = json.loads(text)
                names = list(recs[0]) if recs else None
            if isinstance(g, list) and names and g != names:
                return (f'payload #{step} of a sequence decoded in one process came back with the fields {g}, its columns are {names}', 'roundtrip-schema-names')
        return None

    def replay_finding(self, entry):
        w = entry['witness']
        self._encs, self._decs = self._live_tables()
        kind = w.get('kind')
        if kind == 'parse':
            spec = [(k, o, F(q)) for k, o, q in w['spec']]
            bad = self._oracle_parse(w['header'], spec, self._impl_parse(w['header']))
        elif kind in ('accept', 'content'):
            impl = self._impl_parse(w['header'])
            if impl[0] != 'ok' or not impl[1]:
                return fw.Violation(f'Encoding.parse gave {impl[1]}', w, 'parse-raises')
            if kind == 'accept':
                bad = self._oracle_encoder(impl[1], self._impl_encoder(impl[1]))
            else:
                bad = self._oracle_decoder(impl[1][0], self._impl_decoder(impl[1][0]))
        elif kind == 'match':
            from forml.io import layout
            p, c = w['pattern'], w['other']
            impl = layout.Encoding(p[0], **p[1]).match(layout.Encoding(c[0], **c[1]))
            bad = None if impl == spec_match(p[0], p[1], c[0], c[1]) else (
                f'Encoding.match is {impl}', 'match-accepts-wrong' if impl else 'match-rejects-wrong')
        elif kind == 'encoder':
            ts = [(k, o) for k, o in w['targets']]
            bad = self._oracle_encoder(ts, self._impl_encoder(ts))
        elif kind == 'decoder':
            src = (w['source'][0], w['source'][1])
            bad = self._oracle_decoder(src, self._impl_decoder(src))
        elif kind == 'rest':
            cspec = [(k, o, F(q)) for k, o, q in w['content_spec']]
            aspec = [(k, o, F(q)) for k, o, q in w['accept_spec']]
            best = min(range(len(cspec)), key=lambda i: (-cspec[i][2], i))
            status, out = self._rest_call(self._rest_client(), w['content_type'], w['accept'], self.BODIES.get(cspec[best][0], b'A\n1\n'))
            bad = self._rest_oracle(cspec, aspec, status, out)
        elif kind == 'schema-sequence':
            bad = self._replay_schema_sequence(w['payloads'])
        elif kind == 'roundtrip':
            ei = next((i for i, e in enumerate(self._encs) if list(e) == list(w['encoder'])), None)
            if ei is None:
                return None
            status, detail, _ = self._roundtrip_once(w['names'], w['kinds'], w['rows'], ei, tuple(w['decoder']))
            bad = ((f'dumps -> loads returned {detail} for rows {w["rows"]}', self._rt_signature(w['encoder'][0], detail))
                   if status == 'differs' else None)
        else:
            return None
        return fw.Violation(bad[0], w, bad[1]) if bad else None


if __name__ == '__main__':
    raise SystemExit(fw.run(C19))
