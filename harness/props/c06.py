"""C06 — feed reads return exactly what the statement denotes over its own storage.

Parser level: generated well-formed statements x random storage contents are parsed by the real
`forml.provider.feed.reader.alchemy.Parser` (exactly as `Reader._parse_statement` does) and executed on SQLite and
DuckDB; the rows are judged by the independent reference evaluator `c06gen.denote` (the oracle) and compared with the
Lean model (`drv_c06`: stack-machine parser -> abstract SQL -> `evalSql`, and the Lean `denote`).
Reader level: short histories {read via feed f, mutate storage, restart keeping the ForML home} over `alchemy.Feed`s on
SQLite files and `monolite.Feed`s on CSV files run through `Feed.producer(...)(statement)` in fresh sub-processes; the
oracle is the denotation over the feed's own storage at read time; the model is `ForML.Model.FeedCache`.
"""
from __future__ import annotations

import collections
import concurrent.futures
import json
import os
import shutil
import subprocess
import sys
import tempfile
import traceback
import typing

from core import framework as fw
from core import sexp
from props import c06gen as g
from props import dslgen

HERE = os.path.dirname(os.path.abspath(__file__))

SQL_TYPES = {'integer': 'INTEGER', 'string': 'VARCHAR', 'boolean': 'BOOLEAN'}
PER = 5  # storage contents per statement
WORKERS = 12

# ---- known root causes (signatures) ------------------------------------------------------------------------------
SIG_CROSS = 'cross-join-rendered-as-full-outer-join:exactly-one-side-empty'
SIG_STALE = 'result-cache-keyed-by-sql-text:stale-after-storage-change'
SIG_SHARED = 'result-cache-keyed-by-sql-text:shared-across-feeds'
SIG_LAZY = 'lazy-origin-registered-once-per-process'
SIG_UNUSED = 'lazy-table-without-used-column-not-registered'
#: NOT a known finding: a read is served the rows an earlier read of a *different* statement returned (the result cache /
#: the statement cache does not tell the two statements apart)
SIG_ALIEN = 'read-returns-rows-of-another-statement'
#: NOT a known finding: a read is served the rows of another feed of the process that shares the connection but maps the
#: schemas to OTHER tables (known finding C06-F3 is about feeds whose SQL text is the same)
SIG_FOREIGN = 'read-returns-rows-of-a-feed-with-another-mapping'


def tup(x):
    """JSON lists -> AST tuples"""
    if isinstance(x, list):
        return tuple(tup(i) for i in x)
    return x


def db_from_json(db) -> dict:
    return {name: (list(cols), [tuple(r) for r in rows]) for name, (cols, rows) in db.items()}


# ---- real code: parser + engines ----------------------------------------------------------------------------------
class Engines:
    """In-memory SQLite and DuckDB databases holding the catalog's tables."""

    def __init__(self):
        import sqlalchemy

        self.sa = sqlalchemy
        self.cons = {}
        for name, url in (('sqlite', 'sqlite:///:memory:'), ('duckdb', 'duckdb:///:memory:')):
            try:
                con = sqlalchemy.create_engine(url).connect()
            except Exception:  # pylint: disable=broad-except
                continue
            for t in g.CATALOG:
                cols = ', '.join(f'"{n}" {SQL_TYPES[k]}' for n, k in t[2])
                con.execute(sqlalchemy.text(f'CREATE TABLE "{g.PHYS[t[1]]}" ({cols})'))
            self.cons[name] = con

    def load(self, db: dict) -> None:
        for con in self.cons.values():
            for name, (cols, rows) in db.items():
                con.execute(self.sa.text(f'DELETE FROM "{name}"'))
                if rows:
                    marks = ', '.join(f':c{i}' for i in range(len(cols)))
                    con.execute(self.sa.text(f'INSERT INTO "{name}" VALUES ({marks})'),
                                [{f'c{i}': v for i, v in enumerate(row)} for row in rows])

    def run(self, engine: str, query) -> list:
        con = self.cons[engine]
        if engine == 'duckdb':
            # DuckDB cannot match a GROUP BY expression with its twin in the projection when their literals are two
            # different bound parameters: run the text with literal binds (the text the result cache is keyed by)
            text = str(query.compile(con.engine, compile_kwargs={'literal_binds': True}))
            return [tuple(r) for r in con.exec_driver_sql(text).fetchall()]
        return [tuple(r) for r in con.execute(query).fetchall()]


def canon_rows(rows, kinds) -> list:
    out = []
    for row in rows:
        vals = []
        for v, k in zip(row, kinds):
            if v is not None and k == 'boolean' and not isinstance(v, bool):
                v = bool(v)
            elif v is not None and k == 'integer' and not isinstance(v, bool):
                try:
                    if v != v:  # NaN
                        v = None
                    else:
                        v = int(v)
                except (TypeError, ValueError):
                    pass
            elif isinstance(v, float) and v != v:
                v = None
            vals.append(v)
        out.append(tuple(vals))
    return out


def impl_sources(builder):
    from sqlalchemy import sql

    return {builder.build(t): sql.table(sql.quoted_name(g.PHYS[t[1]], quote=True)) for t in g.CATALOG}


def impl_parse(builder, stmt, obj=None):
    """`Reader._parse_statement` of the alchemy reader; -> ('ok', selectable) | ('error', class, site, message)"""
    from forml.provider.feed.reader import alchemy

    obj = obj if obj is not None else builder.build(stmt)
    try:
        parser = alchemy.Reader.parser(impl_sources(builder), {})
        with parser as visitor:
            obj.accept(visitor)
            return ('ok', visitor.fetch())
    except Exception as err:  # pylint: disable=broad-except
        site = '?'
        for frame in reversed(traceback.extract_tb(err.__traceback__)):
            if os.sep + 'forml' + os.sep in frame.filename:
                site = frame.name
                break
        return ('error', type(err).__name__, site, str(err)[:120])


def cross_as_full(stmt, db):
    """the reading of the known finding: CROSS evaluated as FULL JOIN ON TRUE"""
    def rewrite(s):
        if not isinstance(s, tuple):
            return s
        if s and s[0] == 'join' and s[3] == 'cross':
            return ('join', rewrite(s[1]), rewrite(s[2]), 'full', ('expr', 'eq', ('lit', ('int', 1)), ('lit', ('int', 1))))
        return tuple(rewrite(a) for a in s)

    return g.denote(rewrite(stmt), db)


def has_cross(stmt) -> bool:
    return any(s[0] == 'join' and s[3] == 'cross' for s in g.subsources(stmt))


# ---- model answers --------------------------------------------------------------------------------------------------
def val_from(x):
    if x == 'null':
        return None
    tag, v = x
    if tag == 'i':
        return int(v)
    if tag == 'b':
        return v == 'true'
    return v


def rel_from(x):
    if x == 'none':
        return None
    names, rows = x
    return [None if n == 'none' else n[1] for n in names], [tuple(val_from(v) for v in row) for row in rows]


# ---- one case on the real code, judged by the oracle (module level: also runs in worker processes) ----------------------
_STATE: dict = {}


def _state():
    if 'engines' not in _STATE:
        _STATE['engines'] = Engines()
        _STATE['builder'] = dslgen.Builder()
        _STATE['sugar'] = g.SugarBuilder()
        _STATE['prepared'] = {}
    return _STATE


def prepare(stmt, sugar: bool = False):
    """build + parse a statement once per process (the DSL objects hash recursively: deep statements are slow);
    `sugar`: the expressions are written with the Python operators and plain values (`c06gen.SugarBuilder`)"""
    st = _state()
    cache = st['prepared']
    key = (stmt, sugar)
    if key not in cache:
        if len(cache) > 2000:
            cache.clear()
        try:
            obj = st['sugar' if sugar else 'builder'].build(stmt)
        except Exception as err:  # pylint: disable=broad-except
            if sugar:
                cache[key] = ('sugar-raises', type(err).__name__, str(err)[:120])
            else:
                cache[key] = ('skip', f'not constructible: {type(err).__name__}: {err}')
        else:
            other = None
            if sugar:
                try:
                    back = g.read_back(obj)
                    if g.unmirror(back) != g.unmirror(stmt):
                        other = sugar_difference(stmt, back)
                except Exception as err:  # pylint: disable=broad-except
                    other = f'the constructed statement cannot be read back: {type(err).__name__}: {err}'[:200]
            cache[key] = ('parsed', impl_parse(st['builder'], stmt, obj), other)
    return cache[key]


def sugar_difference(want, got) -> str:
    """the innermost expression a Python-operator expression was constructed differently from what it is written as"""
    if isinstance(want, tuple) and isinstance(got, tuple) and len(want) == len(got):
        for a, b in zip(want, got):
            if g.unmirror(a) != g.unmirror(b) and isinstance(a, tuple) and isinstance(b, tuple):
                inner = sugar_difference(a, b)
                if inner:
                    return inner
    if isinstance(want, tuple) and want and want[0] == 'expr':
        try:
            return f'`{g.py_text(want)}` is constructed as {sexp.dumps(g.short(got))[:200]}'
        except Exception:  # pylint: disable=broad-except
            pass
    return ''


def judge(stmt, db, sugar: bool = False) -> dict:
    """Run one case on the real code and judge it by the oracle; -> outcome record (picklable)"""
    engines = _state()['engines']
    rec = {'stmt': stmt, 'db': db, 'violations': [], 'impl': {}, 'parse': None, 'expected': None, 'sugar': sugar}
    prepared = prepare(stmt, sugar)
    if prepared[0] == 'skip':
        rec['skip'] = prepared[1]
        return rec
    if prepared[0] == 'sugar-raises':
        rec['skip'] = 'sugar: construction raises'
        rec['violations'].append((f'writing the statement with the Python operators raises {prepared[1]}: {prepared[2]}',
                                  f'sugar-raises:{prepared[1]}'))
        return rec
    if prepared[2]:
        rec['violations'].append((f'an expression written with the Python operators denotes another expression: {prepared[2]}',
                                  'sugar-constructs-another-expression'))
    try:
        exp = g.denote(stmt, db)
        exp.deterministic  # pylint: disable=pointless-statement
    except g.Undefined as err:
        rec['skip'] = f'undefined: {err}'
        return rec
    rec['expected'] = exp
    parsed = prepared[1]
    rec['parse'] = ('ok',) if parsed[0] == 'ok' else parsed
    if parsed[0] != 'ok':
        rec['violations'].append((f'parsing a well-formed statement fails: {parsed[1]} in {parsed[2]}: {parsed[3]}',
                                  f'parse-fails:{parsed[1]}:{parsed[2]}'))
        return rec
    kinds = [k for _, k in g.out_columns(stmt)]
    limits = g.engine_limits(stmt)
    engines.load(db)
    differing, admitted = [], []
    for engine in engines.cons:
        if engine == 'sqlite' and 'sqlite-nested-compound' in limits:
            continue
        try:
            rows = canon_rows(engines.run(engine, parsed[1]), kinds)
        except Exception as err:  # pylint: disable=broad-except
            rec['impl'][engine] = ('error', type(err).__name__, str(err).split('\n')[0][:160])
            rec['violations'].append((f'{engine} refuses the parser output: {type(err).__name__}: {str(err).splitlines()[0][:120]}',
                                      f'exec-fails:{engine}:{type(err).__name__}'))
            continue
        rec['impl'][engine] = ('rows', rows)
        why = exp.admits(rows)
        if why is None:
            admitted.append(engine)
            continue
        sig = f'rows-differ:{g.shape(stmt)}'
        what = f'{engine} returns rows other than the statement denotes ({why})'
        if has_cross(stmt):
            try:
                if cross_as_full(stmt, db).admits(rows) is None:
                    sig = SIG_CROSS
                    what = (f'{engine}: CROSS join over an empty and a non-empty side returns NULL-extended rows '
                            f'({len(rows)} rows, {len(exp.rows()) if exp.deterministic else "?"} denoted)')
            except g.Undefined:
                pass
        differing.append((engine, what, sig))
    if differing and admitted:
        # the SAME parser output evaluates to the denoted rows on one engine and to something else on the other: the
        # translation is right, the engines disagree (DESIGN.md section 5 C06 "Search": engine behaviour, not a violation)
        rec['engine_disagreement'] = [(w, s_) for _, w, s_ in differing]
    else:
        rec['violations'].extend((w, s_) for _, w, s_ in differing)
    return rec


def judge_group(group) -> list:
    stmt, dbs = group[0], group[1]
    return [judge(stmt, db, len(group) > 2 and group[2] == 'sugar') for db in dbs]


CORPUS = None


def corpus() -> list:
    """hand-picked statements first (each once exposed a defect or covers a clause interplay)"""
    P, D, U = g.PERSON, g.DEPT, g.UNIT
    e = lambda s, n: ('elem', s, n)  # noqa: E731
    i = lambda n: ('lit', ('int', n))  # noqa: E731
    q = lambda src, sel=(), pre=None, grp=(), post=None, order=(), rows=None: ('query', src, tuple(sel), pre, tuple(grp), post, tuple(order), rows)  # noqa: E731
    b = ('ref', P, 'b')
    sub = ('ref', q(P, [e(P, 'id'), ('alias', ('expr', 'add', e(P, 'age'), i(1)), 'x')], ('expr', 'gt', e(P, 'age'), i(0))), 'sub')
    grp = ('ref', q(P, [e(P, 'boss'), ('alias', ('expr', 'count', e(P, 'id')), 'n')], None, [e(P, 'boss')]), 's')
    un = ('set', q(D, [e(D, 'id'), e(D, 'name')]), q(U, [e(U, 'id'), e(U, 'name')]), 'union')
    r = ('ref', D, 'r')
    return [
        # join kinds; CROSS with one empty side is the known finding
        q(('join', P, D, 'cross', None), [e(P, 'id'), e(D, 'id')]),
        q(('join', P, D, 'inner', ('expr', 'eq', e(P, 'id'), e(D, 'head'))), [e(P, 'name'), e(D, 'name')]),
        q(('join', P, D, 'left', ('expr', 'eq', e(P, 'id'), e(D, 'head'))), [e(P, 'name'), ('alias', e(D, 'name'), 'x')]),
        q(('join', P, D, 'right', ('expr', 'eq', e(P, 'id'), e(D, 'head'))), [e(P, 'name'), ('alias', e(D, 'name'), 'x')]),
        q(('join', P, D, 'full', ('expr', 'eq', e(P, 'id'), e(D, 'head'))), [e(P, 'id'), ('alias', e(D, 'id'), 'x')]),
        q(('join', P, D, 'left', ('expr', 'eq', e(P, 'id'), e(D, 'head')))),
        # predicates spanning two tables, negation, boolean column as a condition
        q(('join', P, D, 'inner', ('expr', 'eq', e(P, 'id'), e(D, 'head'))), [e(P, 'id')],
          ('expr', 'and', ('expr', 'gt', e(P, 'age'), i(1)), ('expr', 'gt', e(D, 'id'), i(1)))),
        q(('join', P, D, 'inner', ('expr', 'and', ('expr', 'eq', e(P, 'id'), e(D, 'head')), ('expr', 'gt', e(P, 'age'), i(1)))), [e(P, 'id')]),
        q(('join', P, D, 'inner', ('expr', 'eq', e(P, 'id'), e(D, 'head'))), [e(P, 'id')],
          ('expr', 'or', ('expr', 'gt', e(P, 'age'), i(2)), ('expr', 'gt', e(D, 'id'), i(2)))),
        q(P, [e(P, 'id')], ('expr', 'not', ('expr', 'eq', e(P, 'age'), i(2)))),
        q(P, [e(P, 'id'), ('alias', ('expr', 'not', ('expr', 'gt', e(P, 'age'), i(2))), 'x')]),
        q(P, [e(P, 'id')], e(P, 'active')),
        q(P, [e(P, 'id')], ('expr', 'and', e(P, 'active'), ('expr', 'gt', e(P, 'age'), i(1)))),
        q(P, [e(P, 'id')], ('expr', 'and', ('expr', 'lt', i(1), i(2)), ('expr', 'gt', e(P, 'age'), i(1)))),
        q(P, [e(P, 'id'), ('alias', ('expr', 'abs', ('expr', 'sub', e(P, 'age'), i(5))), 'x')]),
        # references on either join side, self-join, non-equality conditions
        q(('join', P, b, 'inner', ('expr', 'eq', e(P, 'boss'), e(b, 'id'))), [e(P, 'name'), ('alias', e(b, 'name'), 'x')]),
        q(('join', P, b, 'left', ('expr', 'lt', e(P, 'id'), e(b, 'id'))), [e(P, 'id'), ('alias', e(b, 'id'), 'x')]),
        q(('join', b, P, 'inner', ('expr', 'lt', e(P, 'id'), e(b, 'id'))), [e(P, 'id'), ('alias', e(b, 'id'), 'x')], ('expr', 'ge', e(b, 'age'), e(P, 'age'))),
        q(('join', ('join', P, D, 'inner', ('expr', 'eq', e(P, 'id'), e(D, 'head'))), b, 'left', ('expr', 'eq', e(b, 'id'), e(P, 'boss'))),
          [e(P, 'id'), ('alias', e(D, 'name'), 'x'), ('alias', e(b, 'name'), 'y')]),
        # nested statements and set operations
        q(sub, [e(sub, 'x'), e(sub, 'id')], ('expr', 'gt', e(sub, 'x'), i(3))),
        q(sub),
        q(('join', D, grp, 'inner', ('expr', 'eq', e(D, 'head'), e(grp, 'boss'))), [e(D, 'name'), e(grp, 'n')]),
        un,
        ('set', q(D, [e(D, 'id')]), q(U, [e(U, 'id')]), 'intersection'),
        ('set', q(D, [e(D, 'name')]), q(U, [e(U, 'name')]), 'difference'),
        # the same reference on both sides of a set (generate_feature used to cache code bound to the first handle)
        ('set', q(r, [e(r, 'id')], ('expr', 'gt', e(r, 'id'), i(2))), q(r, [e(r, 'id')]), 'union'),
        q(('ref', un, 'u'), [e(('ref', un, 'u'), 'name')], None, (), None, [('ord', e(('ref', un, 'u'), 'name'), 'desc')]),
        # grouping, aggregates, having, order, limit / offset
        q(P, [e(P, 'boss'), ('alias', ('expr', 'count', e(P, 'id')), 'n'), ('alias', ('expr', 'sum', e(P, 'age')), 'total')], None, [e(P, 'boss')],
          ('expr', 'gt', ('expr', 'count', e(P, 'id')), i(0)), [('ord', e(P, 'boss'), 'asc')]),
        q(P, [('alias', ('expr', 'count', e(P, 'age')), 'n'), ('alias', ('expr', 'min', e(P, 'age')), 'x'), ('alias', ('expr', 'max', e(P, 'age')), 'y')]),
        q(P, [e(P, 'id'), e(P, 'age')], None, (), None, [('ord', e(P, 'age'), 'desc'), ('ord', e(P, 'id'), 'asc')], ('rows', 2, 1)),
        q(P, [e(P, 'id')], None, (), None, [('ord', e(P, 'id'), 'asc')], ('rows', 0, 0)),
        q(P, [e(P, 'id')], None, (), None, [('ord', e(P, 'id'), 'desc')], ('rows', 3, 0)),
    ]


class C06(fw.Check):
    ID = 'C06'
    LEAN_MODULES = ['ForML.Props.C06']
    DRIVER = 'drv_c06'
    RULE = ('parser level: statements from the documented grammar over a 3-table catalog (NULL-able columns, a '
            'self-referencing key, a twin pair for set operations) restricted to the modelled operators '
            '(comparisons, IS [NOT] NULL, AND/OR/NOT, + - *, Abs, Count/Sum/Min/Max): hand-picked corpus first, then '
            'random ones (depth <= 2 of nesting) x 5 random table contents each (0..6 rows, empty tables, NULLs): 600 cases '
            'quick / 30000 thorough; each is parsed by the real alchemy parser and run on SQLite and DuckDB; a case is '
            'distinct by (statement, content) and non-trivial when the denoted result is not empty or the statement joins / '
            'nests / groups; LIMIT / OFFSET windows over a total order, also inside nested statements; statements WRITTEN WITH '
            'THE PYTHON OPERATORS of dsl.Operable and plain Python values on either side (c06gen.SugarBuilder: `100 - T.x`, '
            '`5 < T.x`, `(T.a > 1) & ~T.flag`), executed like the others. operator surface (90 quick / 1500 thorough '
            'expressions): every overloaded operator incl. division and modulus with plain values / columns / elements of '
            'references on either side, nested: the constructed expression is read back and compared with the written one (up '
            'to the interpreter\'s mirroring of comparisons) and with the model\'s dispatch. reader level (72 quick / 1200 '
            'thorough histories, every segment between restarts in a freshly forked process, one ForML home per history; six '
            'feeds: two alchemy feeds on two SQLite files, two more alchemy feeds on THE SAME connections that map the schemas '
            'to other physical tables, two monolite feeds on directories whose tables are kept per history in a format of '
            'their own - CSV with the class defaults, with user reader options that do not collide with them (separator) or '
            'do (no header line), parquet, inline): 38 hand-picked histories (known findings and harmless twins, one-place '
            'statement families, same statement through feeds sharing a connection, every file format), then in turn (a) '
            'family histories: 2..4 statements that differ in exactly ONE place (a literal - incl. values with equal Python '
            'hashes and strings differing in case / trailing blank -, an operator, an aggregate, a join or set kind, a '
            'direction, a reference name, an alias, two swapped aliases of a nested statement, a LIMIT / OFFSET window) read '
            'interleaved and repeatedly through ONE feed over unchanged storage, half of them across a restart that keeps the '
            'home directory, (b) twin histories: the same statements through two feeds that share a connection but not the '
            'tables, interleaved, also across restarts, and (c) free histories of <= 5 ops {read feed, mutate storage, '
            'restart} over all feeds.')
    TRUSTED = [
        'SQLAlchemy rendering of the select constructs, SQLite and DuckDB (the abstract SQL semantics `evalSql` is tied to '
        'them by the correspondence only)',
        'clause semantics shared by the Lean `denote` and `evalSql` (ForML.Model.SqlRel.runQuery / joinRows / setRows); '
        'they are checked against the engines and against the independent Python evaluator c06gen.denote',
        'pandas.read_sql / parquet round trip of the result cache (values are canonicalised by the expected kinds)',
        'the result cache key: the model keys by the token sequence of the rendered statement with its literal values '
        '(ForML.Model.SqlRender, injective by C06_cache_key_injective); that SQLAlchemy renders no less and that sha256 does '
        'not collide is tied only through behaviour (which reads share an entry), not through the text',
        'reader level: a "fresh process" is a fork of a zygote that has the third-party libraries loaded but never imported '
        'forml; forml is imported in the child after FORML_HOME is set (c06_worker.py); feeds are driven through '
        'feed.producer(feed.sources, feed.features, **feed._readerkw) as io.Feed.load does',
    ]
    ASSUMPTIONS = [
        'DSL object equality is structural on the generated statements (C08)',
        'feeds provision tables only (no denormalised joins / feature mappings): `bypass` never overrides',
        'NULL placement in ORDER BY and the choice among ties under LIMIT are not defined by the documentation: any '
        'consistent placement / any choice is accepted',
        'outside the model: floats, decimals, dates, Cast, division, modulus, Avg, Ceil, Floor, Year, window functions, '
        'references to joins, a query placed directly on a query or set without a reference',
    ]

    # ---- generated tables -------------------------------------------------------------------------------------------
    def gen_tables(self) -> dict:
        return {os.path.join('ForML', 'Generated', 'C06Tables.lean'): render_tables(extract_tables()),
                os.path.join('ForML', 'Generated', 'C06Sugar.lean'): render_sugar(extract_sugar())}

    # ---- parser level -------------------------------------------------------------------------------------------------
    def _cases(self, n: int) -> list:
        """[(statement, [contents])]: corpus first, then random statements, `PER` contents each"""
        rng = self.rng
        gen = g.Gen6(rng)
        groups = []
        for stmt in corpus():
            dbs = [g.gen_db(rng) for _ in range(PER - 1)]
            db = g.gen_db(rng)
            victim = rng.choice(list(db))
            db[victim] = (db[victim][0], [])
            groups.append((stmt, dbs + [db]))
        # LIMIT / OFFSET windows over a total order (each denotes exactly one result), also inside a nested statement
        for nested in (False, True):
            for stmt in g.limit_family(rng, nested):
                groups.append((stmt, [g.gen_db(rng, 0.05) for _ in range(PER)]))
        # statements written with the Python operators and plain values on either side (`c06gen.SugarBuilder`)
        for _ in range(max(6, n // (PER * 12))):
            groups.append((g.sugar_statement(rng), [g.gen_db(rng, 0.05) for _ in range(PER)], 'sugar'))
        while len(groups) * PER < n:
            if rng.random() < 0.04:
                groups.append((rng.choice(g.limit_family(rng, rng.random() < 0.5)), [g.gen_db(rng, 0.05) for _ in range(PER)]))
                continue
            groups.append((gen.statement(2 if rng.random() < 0.2 else 1), [g.gen_db(rng) for _ in range(PER)]))
        return groups

    def _witness(self, stmt, db, sugar: bool = False) -> dict:
        w = {'kind': 'parser', 'stmt': stmt, 'db': {k: [v[0], [list(r) for r in v[1]]] for k, v in db.items()},
             'text': sexp.dumps(g.short(stmt))}
        if sugar:
            w['sugar'] = True
            w['python'] = {'select': [g.py_text(f) for f in stmt[2]], 'where': None if stmt[3] is None else g.py_text(stmt[3])} \
                if stmt[0] == 'query' else None
        return w

    def _report(self, rec) -> None:
        for what, sig in rec['violations']:
            if sig.startswith('rows-differ:') and sum(v.signature.startswith('rows-differ:') for v in self.violations) >= 6:
                continue  # enough failing inputs of this class for one run
            if sig in {v.signature for v in self.violations}:
                continue  # one (minimised) witness per root cause
            stmt, db = rec['stmt'], rec['db']
            if sig not in self._known_signatures():
                stmt, db = self._shrink(stmt, db, sig, rec.get('sugar', False))
            self.violate(what, self._witness(stmt, db, rec.get('sugar', False)), sig,
                         detail={'impl': {k: repr(v)[:400] for k, v in rec['impl'].items()}})

    def _known_signatures(self) -> set:
        if not hasattr(self, '_known'):
            self._known = {e['signature'] for e in fw._load_findings(self.ID) if e.get('status') == 'finding'}  # pylint: disable=protected-access
        return self._known

    def _shrink(self, stmt, db, sig, sugar: bool = False):
        """greedy: smaller statement / fewer rows with the same signature on the real code"""
        budget = 25

        def fails(s, d) -> bool:
            nonlocal budget
            if budget <= 0:
                return False
            budget -= 1
            try:
                return any(x[1] == sig for x in judge(s, d, sugar)['violations'])
            except Exception:  # pylint: disable=broad-except
                return False

        changed = True
        while changed and budget > 0:
            changed = False
            for cand in g.shrink_candidates(stmt):
                if fails(cand, db):
                    stmt, changed = cand, True
                    break
            if changed:
                continue
            for name, (cols, rows) in db.items():
                for i in range(len(rows)):
                    smaller = dict(db)
                    smaller[name] = (cols, rows[:i] + rows[i + 1:])
                    if fails(stmt, smaller):
                        db, changed = smaller, True
                        break
                if changed:
                    break
        return stmt, db

    def _parser_level(self, groups) -> None:
        records, lines = [], []
        srcs = g.short(g.sources_sexp())
        import multiprocessing

        with concurrent.futures.ProcessPoolExecutor(max_workers=WORKERS, mp_context=multiprocessing.get_context('fork')) as pool:
            for recs in pool.map(judge_group, groups, chunksize=max(1, len(groups) // (WORKERS * 6))):
                records.extend(recs)
        for rec in records:
            lines.append(sexp.dumps(g.with_let(('run', srcs, g.short(rec['stmt']), g.db_sexp(rec['db'])))))
        answers = self.model(lines)
        skipped = collections.Counter()
        disagreements = [rec for rec in records if rec.get('engine_disagreement')]
        if len({rec['stmt'] for rec in disagreements}) > max(2, len({rec['stmt'] for rec in records}) // 1000):
            # not a rare engine quirk: the parser output is evaluated differently by the engines as a rule - report it
            for rec in disagreements:
                rec['violations'].extend(rec['engine_disagreement'])
        elif disagreements:
            self.notes.append(f'parser level: on {len(disagreements)} case(s) one engine returns the denoted rows for the parser '
                              f'output and the other does not (engine behaviour), e.g. {sexp.dumps(g.short(disagreements[0]["stmt"]))[:300]} '
                              f'{[w for w, _ in disagreements[0]["engine_disagreement"]]}')
        for rec, line, ans in zip(records, lines, answers):
            stmt, db = rec['stmt'], rec['db']
            if 'skip' in rec:
                skipped[rec['skip'].split(':')[0]] += 1
                if rec['violations']:
                    self._report(rec)
                continue
            exp = rec['expected']
            nontrivial = bool(exp.all_rows) or g.shape(stmt) != 'plain'
            self.case((stmt, tuple(sorted((k, tuple(v[1])) for k, v in db.items()))), g.shape(stmt), nontrivial,
                      sample={'statement': sexp.dumps(g.short(stmt)), 'rows': [list(r) for r in exp.all_rows[:3]]})
            self._report(rec)
            # ---- model vs implementation
            try:
                parsed = sexp.loads(ans)
                m_parse, m_sql, m_den = parsed[0][1], rel_from(parsed[1][1]), rel_from(parsed[2][1])
                wf = parsed[0][2] == 'wf'
                balanced = parsed[0][3] == 'balanced'
                self.histogram['WF (hypothesis of the theorems) holds' if wf else 'WF does not hold'] += 0
            except Exception:  # pylint: disable=broad-except
                self.diverge('model answer unreadable', sexp.dumps(g.short(stmt)), None, ans[:200])
                continue
            i_parse = 'ok' if rec['parse'][0] == 'ok' else 'error'
            if not wf:
                self.diverge('a generated well-formed statement does not satisfy the WF predicate of the theorems',
                             sexp.dumps(g.short(stmt)), 'well-formed', 'not-wf')
            if (m_parse == 'ok') != (i_parse == 'ok'):
                self.diverge('parse outcome', sexp.dumps(g.short(stmt)), rec['parse'][:3] if i_parse != 'ok' else 'ok', m_parse)
                continue
            if m_parse != 'ok':
                continue
            if m_sql is None:
                self.diverge('model cannot evaluate its SQL', sexp.dumps(g.short(stmt)), 'rows', 'none')
                continue
            # the model follows the code: outside the balanced region it is judged by the FULL-JOIN reading of CROSS
            impl_view = exp if balanced else cross_as_full(stmt, db)
            why = impl_view.admits(m_sql[1])
            if why is not None:
                self.diverge(f'evalSql(parse s) is not an admissible result of the real engines ({why})',
                             sexp.dumps(g.short(stmt)), {'db': repr(db)[:1500], **{k: repr(v)[:300] for k, v in rec['impl'].items()}},
                             repr(m_sql[1])[:300])
            if m_den is None or exp.admits(m_den[1]) is not None:
                self.diverge('Lean denote disagrees with the reference evaluator', sexp.dumps(g.short(stmt)),
                             repr(exp.all_rows)[:300], repr(m_den)[:300])
            if balanced and m_den is not None and m_sql[1] != m_den[1]:
                self.diverge('instance of C06_denotation_partial fails in the model', sexp.dumps(g.short(stmt)), repr(m_sql[1])[:300], repr(m_den[1])[:300])
            if not balanced and not has_cross(stmt):
                self.diverge('crossBalanced fails without a CROSS join', sexp.dumps(g.short(stmt)), None, 'unbalanced')
            if balanced and any(s_ == SIG_CROSS for _, s_ in rec['violations']):
                self.diverge('the CROSS finding is reproduced outside the region the theorem excludes', sexp.dumps(g.short(stmt)), 'violation', 'balanced')
        if skipped:
            self.notes.append(f'parser level: skipped {dict(skipped)}')
        if sum(skipped.values()) > len(records) // 5:
            raise fw.MachineryError(f'generator produces too many unusable cases: {dict(skipped)}')

    # ---- reader level -------------------------------------------------------------------------------------------------
    def _histories(self, n: int) -> list:
        """reader-level histories (dbs, ops[, cfg]): the hand-picked ones, then in turn (a) reads of one-place *families*
        of statements through one feed over unchanged storage, (b) *twin* histories: the same statements through feeds
        that share a connection but map the schemas to other tables, (c) free histories {read any feed, mutate,
        restart}; the file backed storages keep every table in a randomly chosen format"""
        rng = self.rng
        gen = g.Gen6(rng, named_top=True, plain_groups=True)
        out = list(HISTORY_CORPUS()) + list(FAMILY_CORPUS()) + list(TWIN_CORPUS()) + list(FORMAT_CORPUS())
        k = 0
        while len(out) < n:
            k += 1
            if k % 3 == 1:
                hist = self._family_history(gen)
                if hist is not None:
                    out.append(hist)
                continue
            if k % 3 == 2:
                hist = self._twin_history(gen)
                if hist is not None:
                    out.append(hist)
                continue
            pool = []
            while len(pool) < rng.randint(1, 3):
                stmt = self._history_statement(gen)
                if stmt is not None:
                    pool.append(stmt)
            dbs = self._storages()
            ops = []
            for _ in range(rng.randint(2, 5)):
                c = rng.random()
                if c < 0.62:
                    ops.append(('read', rng.randrange(len(FEED_KINDS)), rng.choice(pool)))
                elif c < 0.87:
                    i = rng.randrange(NSTORAGES)
                    ops.append(('mutate', i, g.gen_db6(rng, 0.05) if i < 2 else gen_db_nonnull(rng)))
                else:
                    ops.append(('restart',))
            if not any(o[0] == 'read' for o in ops):
                ops.append(('read', rng.randrange(len(FEED_KINDS)), rng.choice(pool)))
            out.append((dbs, ops, self._formats()))
        return out

    def _storages(self) -> list:
        rng = self.rng
        return [g.gen_db6(rng, 0.05) for _ in range(2)] + [gen_db_nonnull(rng) for _ in range(2)]

    def _formats(self) -> dict:
        """every table of the file backed storages in a format of its own (half of the histories: plain CSV throughout)"""
        rng = self.rng
        if rng.random() < 0.5:
            return {}
        return {'formats': {str(i): {t[1]: rng.choice(list(g.FORMATS)) for t in g.CATALOG} for i in (2, 3)}}

    def _twin_history(self, gen):
        """feeds that share a connection (one SQLite file) but map the schemas to other physical tables read the SAME
        statements, interleaved, in one process and across restarts: each must get its own tables' rows"""
        rng = self.rng
        dbs = self._storages()
        base = rng.choice((0, 1))
        pair = [base, base + 4]
        stmts = []
        for _ in range(30):
            stmt = self._history_statement(gen)
            if stmt is not None and all(family_member_ok(stmt, g.view(f, dbs[STORAGE[f]]), 'alchemy') for f in pair):
                stmts.append(stmt)
            if len(stmts) >= rng.randint(1, 2):
                break
        if not stmts:
            return None
        ops = []
        for stmt in stmts:
            rng.shuffle(pair)
            ops.extend(('read', f, stmt) for f in pair)
        ops.append(('read', rng.choice(pair), rng.choice(stmts)))
        if rng.random() < 0.4:
            ops.insert(rng.randint(1, len(ops) - 1), ('restart',))
        return (dbs, ops)

    def _history_statement(self, gen):
        stmt = gen.statement(1)
        if 'sqlite-nested-compound' in g.engine_limits(stmt) or not lazy_ok(stmt):
            return None
        if stmt[0] == 'query' and stmt[7] is not None:
            # a LIMIT that cuts through ties is not a function of the content (and would be cached): never cut
            stmt = stmt[:7] + (('rows', 100000, 0),)
        return stmt

    def _family_history(self, gen):
        """one feed, unchanged storage: reads of 2..4 statements that differ in exactly one literal / operator / alias /
        reference name / join or set kind / direction / LIMIT-OFFSET window, interleaved, repeated, across restarts"""
        rng = self.rng
        feed = rng.choice((0, 0, 1, 2, 2, 3, 4, 5))
        dbs = self._storages()
        cfg = self._formats()
        members = None
        for _ in range(20):
            if rng.random() < 0.25:
                members = g.limit_family(rng, nested=rng.random() < 0.4)
            else:
                stmt = self._history_statement(gen)
                if stmt is None:
                    continue
                fams = g.family(stmt, rng)
                if not fams:
                    continue
                sorts = sorted({f[0] for f in fams})
                weights = [{'lit': 6, 'op': 3, 'query': 3, 'alias': 1, 'ref': 1, 'join': 2, 'set': 2, 'ord': 1}[x] for x in sorts]
                sort = rng.choices(sorts, weights)[0]
                members = rng.choice([f[1] for f in fams if f[0] == sort])
            members = [m for m in members if family_member_ok(m, g.view(feed, dbs[STORAGE[feed]]), FEED_KINDS[feed])]
            if len(members) >= 2:
                break
            members = None
        if members is None:
            return None
        rng.shuffle(members)
        members = members[:rng.randint(2, 4)]
        reads = list(members)
        for _ in range(rng.randint(0, 2)):
            reads.append(rng.choice(members))  # read again: must still be the statement's own rows
        ops = [('read', feed, m) for m in reads]
        if rng.random() < 0.5:
            ops.insert(rng.randint(1, len(ops) - 1), ('restart',))
        return (dbs, ops, cfg)

    def _shrink_history(self, dbs, ops, sig, cfg=None, budget: int = 8) -> list:
        """greedy: drop operations before the failing read as long as the real feeds still fail it the same way"""
        i = 0
        while i < len(ops) - 1 and budget > 0:
            cand = ops[:i] + ops[i + 1:]
            budget -= 1
            try:
                outs = run_history((dbs, cand, cfg or {}), shared_zygote())
                last = len(cand) - 1
                same = any(s_ == sig and at == last for _, s_, at in judge_history(dbs, cand, outs, read_alone, cfg))
            except Exception:  # pylint: disable=broad-except
                same = False
            if same:
                ops = cand
            else:
                i += 1
        return ops

    def _reader_level(self, histories) -> None:
        lines = []
        for hist in histories:
            dbs, ops = hist[0], hist[1]
            formats = formats_of(hist[2] if len(hist) > 2 else None)
            # a lazy feed also tells which origin class provides each table (`PARTITIONS` is keyed by class and source)
            feeds = tuple((kind, g.short(g.sources_of(i)), STORAGE[i]) if kind == 'alchemy' else
                          (kind, g.short(g.sources_of(i)), STORAGE[i],
                           g.short(tuple((t, g.FORMATS[formats.get(STORAGE[i], {}).get(t[1], 'csv')][0]) for t in g.CATALOG)))
                          for i, kind in enumerate(FEED_KINDS))
            keyed = lambda i, d: storage_sexp(i, d, formats.get(i))  # noqa: E731
            mops = tuple(('read', o[1], g.short(o[2])) if o[0] == 'read' else ('mutate', o[1], keyed(o[1], o[2])) if o[0] == 'mutate'
                         else ('restart',) for o in ops)
            lines.append(sexp.dumps(g.with_let(('hist', feeds, tuple(keyed(i, d) for i, d in enumerate(dbs)), mops))))
        answers = self.model(lines)
        results = run_histories(histories)
        for hist, outs, ans in zip(histories, results, answers):
            dbs, ops = hist[0], hist[1]
            cfg = hist[2] if len(hist) > 2 else {}
            shape = 'history:' + '-'.join(o[0][:2] + (str(o[1]) if len(o) > 1 else '') for o in ops)
            if formats_of(cfg):
                shape += ':formats'
            self.case(('hist', repr(ops), repr(dbs), repr(cfg)), shape, True,
                      sample={'history': [o[0] if o[0] != 'read' else f'read f{o[1]}' for o in ops], 'formats': formats_of(cfg)})
            verdicts = judge_history(dbs, ops, outs, read_alone, cfg)
            for what, sig, upto in verdicts:
                if sig not in {v.signature for v in self.violations}:
                    prefix = list(ops[:upto + 1])
                    if sig not in self._known_signatures():
                        prefix = self._shrink_history(dbs, prefix, sig, cfg)
                    self.violate(what, history_witness(dbs, prefix, cfg), sig)
            try:
                parsed = sexp.loads(ans)
                m_run = [rel_from(x) for x in parsed[0][1:]]
            except Exception:  # pylint: disable=broad-except
                self.diverge('model answer unreadable', repr(ops)[:200], None, ans[:200])
                continue
            reads = [o for o in ops if o[0] == 'read']
            for k, (op, out, m) in enumerate(zip(reads, outs, m_run)):
                if out[0] != 'rows':
                    if m is not None:
                        self.diverge('the real reader raises where the FeedCache model returns rows', repr(op)[:200], out, repr(m)[:200])
                    continue
                kinds = [kk for _, kk in g.out_columns(op[2])]
                got = collections.Counter(canon_rows(out[1], kinds))
                if m is None or collections.Counter(m[1]) != got:
                    self.diverge(f'read #{k} of a history: FeedCache model and the real reader differ', repr(ops)[:300], repr(out[1])[:300], repr(m)[:300])

    def _sugar_level(self, probes) -> None:
        """every overloaded operator (also division / modulus, which are not executed) with plain values and features on
        either side: what the real `Operable` constructs must be the written expression (up to the interpreter's own
        mirroring of comparisons), and must be what the model's dispatch (`ForML.Sugar.PyExpr.eval`) constructs"""
        answers = self.model([sexp.dumps(g.with_let(('sugar', g.short(g.to_pyexpr(f))))) for f in probes])
        builder = _state()['sugar']
        for f, ans in zip(probes, answers):
            self.case(('sugar', f), 'sugar:' + f[1], True, sample={'python': g.py_text(f)})
            for what, sig in judge_probe(f):
                if sig not in {v.signature for v in self.violations}:
                    self.violate(what, {'kind': 'sugar', 'feature': f, 'python': g.py_text(f), 'text': sexp.dumps(g.short(f))}, sig)
            try:
                real = g.short(g.read_back(builder.feature(f)))
            except Exception:  # pylint: disable=broad-except
                real = None
            try:
                parsed = sexp.loads(ans)
                model = None if parsed == 'none' else expand(parsed[1])
            except Exception:  # pylint: disable=broad-except
                self.diverge('model answer unreadable', g.py_text(f), None, ans[:200])
                continue
            if real is None or model is None or tup(expand(sexp.loads(sexp.dumps(real)))) != tup(model):
                self.diverge('the expression the Python operators construct: model (ForML.Sugar) and implementation differ',
                             g.py_text(f), repr(real)[:300], repr(model)[:300])

    def correspondence(self) -> None:
        self._sugar_level(g.sugar_probes(self.rng, self.n(90, 1500)))
        self._parser_level(self._cases(self.n(600, 30000)))
        self._reader_level(self._histories(self.n(72, 1200)))

    # ---- search / replay ----------------------------------------------------------------------------------------------
    def search(self, reason: str) -> None:
        """widen around the divergences: more contents per diverging statement, its sub-statements, then fresh ones"""
        if self.violations:
            return
        seeds = []
        for d in self.divergences[:20]:
            try:
                seeds.append(tup(expand(sexp.loads(d.case))))
            except Exception:  # pylint: disable=broad-except
                continue
        pool = []
        for stmt in seeds:
            pool.append(stmt)
            pool.extend(c for c in g.shrink_candidates(stmt) if c[0] in ('query', 'set'))
        gen = g.Gen6(self.rng)
        pool.extend(gen.statement(2) for _ in range(self.n(300, 3000)))
        for stmt in pool:
            for _ in range(4):
                db = g.gen_db(self.rng, 0.3)
                try:
                    rec = judge(stmt, db)
                except Exception:  # pylint: disable=broad-except
                    continue
                if rec['violations']:
                    self._report(rec)
                    if len(self.violations) >= 5:
                        return

    def replay_finding(self, entry: dict):
        w = entry['witness']
        if w.get('kind') == 'sugar':
            for what, sig in judge_probe(tup(w['feature'])):
                return fw.Violation(what, w, sig)
            return None
        if w.get('kind') == 'parser':
            rec = judge(tup(w['stmt']), db_from_json(w['db']), bool(w.get('sugar')))
            for what, sig in rec['violations']:
                return fw.Violation(what, w, sig)
            return None
        if w.get('kind') == 'history':
            dbs = [db_from_json(d) for d in w['dbs']]
            ops = [tuple(tup(x) if i != 2 or o[0] != 'mutate' else db_from_json(x) for i, x in enumerate(o)) for o in w['ops']]
            cfg = {'formats': w['formats']} if w.get('formats') else {}
            outs = run_history((dbs, ops, cfg), shared_zygote())
            for what, sig, _ in judge_history(dbs, ops, outs, read_alone, cfg):
                return fw.Violation(what, w, sig)
            return None
        raise fw.MachineryError(f'unknown witness kind {w.get("kind")}')


def expand(x):
    """undo `short` on a loaded S-expression ($Name atoms) and turn literals back into AST form"""
    names = {'$' + t[1]: t for t in g.CATALOG}

    def walk(y):
        if isinstance(y, str):
            if y in names:
                return names[y]
            if y == 'none':
                return None
            return y
        y = [walk(i) for i in y]
        if len(y) == 2 and y[0] == 'int':
            return ('int', int(y[1]))
        if len(y) == 2 and y[0] == 'bool':
            return ('bool', y[1] == 'true')
        if len(y) == 3 and y[0] == 'rows':
            return ('rows', int(y[1]), int(y[2]))
        return tuple(y)

    return walk(x)


def judge_probe(f) -> list:
    """oracle for one expression written with the Python operators: [(what, signature)]"""
    try:
        obj = _state()['sugar'].feature(f)
    except Exception as err:  # pylint: disable=broad-except
        return [(f'writing `{g.py_text(f)}` raises {type(err).__name__}: {str(err)[:120]}', f'sugar-raises:{type(err).__name__}')]
    try:
        back = g.read_back(obj)
    except Exception as err:  # pylint: disable=broad-except
        return [(f'`{g.py_text(f)}` constructs an object outside the DSL: {type(err).__name__}: {str(err)[:120]}', 'sugar-constructs-another-expression')]
    if g.unmirror(back) != g.unmirror(f):
        return [(f'an expression written with the Python operators denotes another expression: {sugar_difference(f, back) or g.py_text(f)}',
                 'sugar-constructs-another-expression')]
    return []


# ---- generated tables ------------------------------------------------------------------------------------------------
SUGAR_METHODS = ('__add__', '__radd__', '__sub__', '__rsub__', '__mul__', '__rmul__', '__truediv__', '__rtruediv__', '__mod__', '__rmod__',
                 '__lt__', '__le__', '__gt__', '__ge__', '__eq__', '__ne__', '__and__', '__rand__', '__or__', '__ror__', '__invert__',
                 '__neg__', '__pos__', '__abs__', '__pow__', '__rpow__', '__floordiv__', '__rfloordiv__', '__xor__', '__rxor__')


def extract_sugar() -> dict:
    """probe every operator method `Operable` defines with marker operands: method -> (class of the result, order)"""
    from forml.io import dsl
    from forml.io.dsl._struct import series

    class Probe(dsl.Schema):
        """marker columns"""

        left = dsl.Field(dsl.Integer())
        right = dsl.Field(dsl.Integer())
        flag = dsl.Field(dsl.Boolean())
        other = dsl.Field(dsl.Boolean())

    out = {}
    for name in SUGAR_METHODS:
        if not any(name in vars(c) for c in series.Operable.__mro__ if c is not object):
            continue
        logical = name in ('__and__', '__rand__', '__or__', '__ror__', '__invert__', '__xor__', '__rxor__')
        me, you = (Probe.flag, Probe.other) if logical else (Probe.left, Probe.right)
        unary = name in ('__invert__', '__neg__', '__pos__', '__abs__')
        try:
            result = getattr(me, name)() if unary else getattr(me, name)(you)
            if result is NotImplemented:
                continue
            result = getattr(result, 'operable', result) if type(result).__name__ == 'Pythonic' else result
            cls = type(result).__name__
            args = tuple(result)
            if unary and len(args) == 1 and args[0] == me:  # pylint: disable=comparison-with-callable
                order = 'self'
            elif len(args) == 2 and _same(args[0], me) and _same(args[1], you):
                order = 'self-other'
            elif len(args) == 2 and _same(args[0], you) and _same(args[1], me):
                order = 'other-self'
            else:
                order = 'other'
        except Exception:  # pylint: disable=broad-except
            cls, order = 'None', 'raises'
        out[name] = (cls, order)
    return out


def _same(a, b) -> bool:
    """structural identity of two features (their `==` is overloaded)"""
    return dslgen.to_ast(a) == dslgen.to_ast(b)


def render_sugar(table: dict) -> str:
    rows = ',\n'.join(f'  ("{k}", ("{v[0]}", "{v[1]}"))' for k, v in sorted(table.items()))
    return f'''/-
GENERATED by harness/props/c06.py (Check.gen_tables) from the live forml objects — do not edit.
`forml.io.dsl.Operable`'s Python operator methods, each probed with marker operands (`column.<method>(marker)`): the
expression class of the result and the order in which `self` and `other` became its operands.
-/
namespace ForML.Generated.C06

/-- operator method ↦ (expression class, operand order: `self-other` | `other-self` | `self` | `raises` | `other`) -/
def sugar : List (String × (String × String)) := [
{rows}
]

end ForML.Generated.C06
'''


_SQL_PATTERNS = {
    'p + q': '.add', 'p - q': '.sub', 'p * q': '.mul', 'p / q': '.div', 'p % q': '.mod', 'p < q': '.lt', 'p <= q': '.le',
    'p > q': '.gt', 'p >= q': '.ge', 'p = q': '.eq', 'p != q': '.ne', 'p IS NULL': '.isNull', 'p IS NOT NULL': '.isNotNull',
    'p AND q': '.and', 'p OR q': '.or', 'NOT p': '.not', 'abs(p)': '.abs', 'count(p)': '.count', 'sum(p)': '.sum',
    'min(p)': '.min', 'max(p)': '.max', 'avg(p)': '.avg',
}


def extract_tables() -> dict:
    """observe the live `alchemy.Parser` tables on probe operands"""
    import re

    from forml.io import dsl
    from forml.io.dsl._struct import series
    from forml.provider.feed.reader import alchemy
    from sqlalchemy import sql

    def text(clause) -> str:
        return ' '.join(str(clause.compile(compile_kwargs={'literal_binds': True})).split())

    p, q = sql.column('p'), sql.column('q')
    expression = {}
    for cls, fn in alchemy.Parser.EXPRESSION.items():
        name = cls.__name__
        try:
            if name == 'Cast':
                out = fn(p, dsl.Integer())
            elif issubclass(cls, series.Bivariate):
                out = fn(p, q)
            else:
                out = fn(p)
                again = fn(p == q)  # an operand that is itself an expression
                if not isinstance(again, sql.ClauseElement):
                    raise TypeError('not a clause')
            if not isinstance(out, sql.ClauseElement):
                raise TypeError('not a clause')
            rendered = text(out)
        except Exception:  # pylint: disable=broad-except
            expression[name] = '.raises'
            continue
        if rendered in _SQL_PATTERNS:
            expression[name] = _SQL_PATTERNS[rendered]
        elif rendered.startswith('CAST('):
            expression[name] = '.cast'
        elif re.fullmatch(r'[a-z_]+\(p\)', rendered):
            expression[name] = f'.fn "{rendered[:-3]}"'
        else:
            expression[name] = '.other "' + rendered.replace('\\', '').replace('"', "'") + '"'
    parser = alchemy.Parser({}, {})
    lt, rt = sql.table('l', sql.column('c')), sql.table('r', sql.column('c'))
    joins, cross_true = {}, True
    for kind in dsl.Join.Kind:
        cond = None if kind is dsl.Join.Kind.CROSS else (lt.c.c == rt.c.c)
        j = parser.generate_join(lt, rt, cond, kind)
        joins[kind.value] = (bool(j.full), bool(j.isouter) and not bool(j.full), j.left is rt)
        if cond is None:
            cross_true = text(j.onclause).lower() in ('true', '1')
    sets = {}
    for kind, fn in alchemy.Parser.SET.items():
        keyword = fn(sql.select(lt.c.c), sql.select(rt.c.c)).keyword.name
        sets[kind.value] = {'UNION': 'some .union', 'INTERSECT': 'some .intersect', 'EXCEPT': 'some .except'}.get(keyword, 'none')
    orders = {}
    for direction, fn in alchemy.Parser.ORDER.items():
        modifier = getattr(fn(p), 'modifier', None)
        orders['asc' if direction is dsl.Ordering.Direction.ASCENDING else 'desc'] = \
            {'asc_op': 'some .asc', 'desc_op': 'some .desc'}.get(getattr(modifier, '__name__', ''), 'none')
    rows = []
    for count, offset in ((3, 0), (3, 2), (0, 0)):
        sel = parser.generate_query(lt, [lt.c.c], None, [], None, [], dsl.Rows(count, offset))
        lim = sel._limit if sel._limit_clause is not None else None  # pylint: disable=protected-access
        off = sel._offset if sel._offset_clause is not None else None  # pylint: disable=protected-access
        rows.append(((count, offset), (lim, off)))
    return {'expression': expression, 'joins': joins, 'cross_true': cross_true, 'sets': sets, 'orders': orders, 'rows': rows}


def render_tables(t: dict) -> str:
    def opt(v):
        return 'none' if v is None else f'some {v}' if v >= 0 else f'some ({v})'

    b = lambda v: 'true' if v else 'false'  # noqa: E731
    expr = ',\n'.join(f'  ("{k}", {v})' for k, v in sorted(t['expression'].items()))
    joins = ',\n'.join(f'  ("{k}", ({b(v[0])}, {b(v[1])}, {b(v[2])}))' for k, v in
                       sorted(t['joins'].items(), key=lambda kv: dslgen.JOIN_KINDS.index(kv[0])))
    sets = ',\n'.join(f'  ("{k}", {v})' for k, v in sorted(t['sets'].items(), key=lambda kv: dslgen.SET_KINDS.index(kv[0])))
    orders = ',\n'.join(f'  ("{k}", {v})' for k, v in sorted(t['orders'].items()))
    rows = ',\n'.join(f'  (({c}, {o}), ({opt(lim)}, {opt(off)}))' for (c, o), (lim, off) in t['rows'])
    return f'''/-
GENERATED by harness/props/c06.py (Check.gen_tables) from the live forml objects — do not edit.
`alchemy.Parser.EXPRESSION / SET / ORDER` and the options `alchemy.Parser.generate_join` passes per join kind,
observed by applying each entry to probe operands and reading the SQLAlchemy construct back.
-/
import ForML.Model.SqlRel

namespace ForML.Generated.C06
open ForML.Rel

/-- `Parser.EXPRESSION`: DSL expression class name ↦ SQL operator emitted on column operands -/
def expression : List (String × SqlOp) := [
{expr}
]

/-- `Parser.generate_join`: join kind ↦ (full, isouter, sides swapped) -/
def joinOpts : List (String × (Bool × Bool × Bool)) := [
{joins}
]

/-- the ON clause `generate_join` uses when the condition is `None` (CROSS) renders as the literal TRUE -/
def crossOnTrue : Bool := {b(t['cross_true'])}

/-- `Parser.SET`: set kind ↦ compound operator -/
def setOps : List (String × Option SetOp) := [
{sets}
]

/-- `Parser.ORDER`: direction ↦ ORDER BY modifier -/
def orders : List (String × Option SortDir) := [
{orders}
]

/-- `generate_query` observed on `Rows(count, offset)`: (count, offset) ↦ (LIMIT, OFFSET) actually emitted -/
def rowsProbe : List ((Int × Int) × (Option Int × Option Int)) := [
{rows}
]

end ForML.Generated.C06
'''


# ---- reader level: feeds, histories, worker ---------------------------------------------------------------------------
#: feeds / storages / mappings / file formats of the reader level: see c06gen.FEEDS
FEED_KINDS = g.FEED_KINDS
STORAGE = g.STORAGE
NSTORAGES = len(g.STORAGE_KINDS)


LAZY_KEY = {g.PHYS[t[1]]: t[1] for t in g.CATALOG}


def lazy_sources_sexp():
    """`lazy.Feed.sources`: table -> `repr(source)` = the schema name"""
    return tuple((t, t[1]) for t in g.CATALOG)


def storage_sexp(i: int, db: dict, formats=None):
    """content of storage `i` for the model.  SQL storage: its tables.  File backed storage: per table (addressed by the
    origin key `repr(source)`) either the rows, or - CSV origins - the user's reader options and the LINES of the file as
    written (the model's `FileOrigin.loadCsv` decides what of them is content)"""
    if g.STORAGE_KINDS[i] == 'alchemy':
        return g.db_sexp(db)
    out = []
    for t in g.CATALOG:
        plain = g.db_sexp({t[1]: db[g.PHYS[t[1]]]})[0]
        group, kwargs, header = g.FORMATS[(formats or {}).get(t[1], 'csv')]
        if group != 'csv':
            out.append(plain)
            continue
        name, cols, rows = plain
        options = tuple((k, 'None' if v is None else 'semicolon' if v == ';' else str(v)) for k, v in (kwargs or {}).items())
        lines = ((tuple(('s', c) for c in cols),) if header else ()) + tuple(rows)
        out.append((name, cols, ('csv', options, lines)))
    return tuple(out)


def lazy_ok(stmt) -> bool:
    """statements a DuckDB-backed lazy feed can run through pandas bound parameters (no limits known beyond the
    grouping by expression, which `plain_groups` avoids)"""
    return True


def gen_db_nonnull(rng) -> dict:
    """content for the file backed (CSV) feeds: no NULLs (pandas cannot hold a NULL in an integer / boolean column of a
    CSV origin: `Origin.__call__` casts with `astype`) and at least one row per table"""
    db = g.gen_db(rng, 0.0)
    out = {}
    for t in g.CATALOG:
        cols, rows = db[g.PHYS[t[1]]]
        fixed = []
        for row in rows:
            fixed.append(tuple((rng.choice((1, 2, 3, 5)) if k == 'integer' else rng.choice((True, False)) if k == 'boolean' else 'a')
                               if v is None else v for v, (_, k) in zip(row, t[2])))
        out[g.PHYS[t[1]]] = (cols, fixed)
    return out


def HISTORY_CORPUS():
    """the shapes of the known findings and their harmless twins"""
    import random

    rng = random.Random(6)
    P, D = g.PERSON, g.DEPT
    e = lambda s, n: ('elem', s, n)  # noqa: E731
    s1 = ('query', P, (e(P, 'id'), e(P, 'name')), None, (), None, (), None)
    s2 = ('query', D, (e(D, 'id'), e(D, 'head')), ('expr', 'gt', e(D, 'id'), ('lit', ('int', 0))), (), None, (), None)
    s3 = ('query', P, (e(P, 'name'), e(P, 'id')), None, (), None, (('ord', e(P, 'id'), 'asc'),), None)
    s4 = ('query', ('join', P, D, 'cross', None), (e(P, 'name'),), None, (), None, (), None)
    dbs = [g.gen_db6(rng, 0.0), g.gen_db6(rng, 0.0), gen_db_nonnull(rng), gen_db_nonnull(rng)]
    other = [g.gen_db6(rng, 0.0), g.gen_db6(rng, 0.0), gen_db_nonnull(rng), gen_db_nonnull(rng)]
    return [
        (dbs, [('read', 0, s1), ('mutate', 0, other[0]), ('read', 0, s1)]),  # stale (memory)
        (dbs, [('read', 0, s1), ('mutate', 0, other[0]), ('restart',), ('read', 0, s1)]),  # stale (disk)
        (dbs, [('read', 0, s1), ('read', 1, s1)]),  # two feeds, equally named tables
        (dbs, [('read', 2, s1), ('mutate', 2, other[2]), ('read', 2, s2), ('read', 2, s3)]),  # lazy: table registered once
        (dbs, [('read', 2, s2), ('read', 3, s1), ('read', 2, s3)]),  # two lazy feeds, one global backend
        (dbs, [('read', 2, s1), ('mutate', 2, other[2]), ('read', 2, s1)]),  # lazy + result cache
        (dbs, [('read', 2, s4)]),  # lazy: a table of which no column is used
        (dbs, [('read', 0, s1), ('read', 0, s2), ('read', 0, s1)]),  # harmless: no change in between
        (dbs, [('read', 2, s1), ('restart',), ('read', 2, s1), ('read', 2, s2)]),  # harmless
        (dbs, [('mutate', 1, other[1]), ('read', 1, s2), ('restart',), ('read', 1, s2)]),  # harmless
    ]


def family_member_ok(stmt, db, kind: str) -> bool:
    """the statement is constructible, inside the documented semantics, denotes one result over `db` and can be run by the
    feed's engine"""
    if 'sqlite-nested-compound' in g.engine_limits(stmt) and kind == 'alchemy':
        return False
    try:
        if not g.denote(stmt, db).deterministic:
            return False
        [k for _, k in g.out_columns(stmt)]
        _state()['builder'].build(stmt)
    except Exception:  # pylint: disable=broad-except
        return False
    return True


def FAMILY_CORPUS():
    """statements that differ in exactly one place, read one after the other through one feed over unchanged storage"""
    import random

    rng = random.Random(66)
    P, D, U = g.PERSON, g.DEPT, g.UNIT
    e = lambda s, n: ('elem', s, n)  # noqa: E731
    i = lambda n: ('lit', ('int', n))  # noqa: E731
    q = lambda src, sel=(), pre=None, grp=(), post=None, order=(), rows=None: ('query', src, tuple(sel), pre, tuple(grp), post, tuple(order), rows)  # noqa: E731
    dbs = [g.gen_db6(rng, 0.0), g.gen_db6(rng, 0.0), gen_db_nonnull(rng), gen_db_nonnull(rng)]
    age = lambda op, n: q(P, [e(P, 'id'), e(P, 'age')], ('expr', op, e(P, 'age'), i(n)))  # noqa: E731
    name = lambda v: q(D, [e(D, 'id'), e(D, 'name')], ('expr', 'eq', e(D, 'name'), ('lit', ('str', v))))  # noqa: E731
    page = lambda c, o, d='asc': q(U, [e(U, 'id'), e(U, 'name')], None, (), None, [('ord', e(U, 'id'), d)], ('rows', c, o))  # noqa: E731
    plus = lambda n: q(P, [e(P, 'id'), ('alias', ('expr', 'add', e(P, 'id'), i(n)), 'x')])  # noqa: E731
    b = ('ref', P, 'b')
    boss = lambda kind: q(('join', P, b, kind, ('expr', 'eq', e(P, 'boss'), e(b, 'id'))), [e(P, 'id'), ('alias', e(b, 'id'), 'x')])  # noqa: E731
    setk = lambda kind: ('set', q(D, [e(D, 'id'), e(D, 'name')]), q(U, [e(U, 'id'), e(U, 'name')]), kind)  # noqa: E731

    def nested(first, second):
        sub = ('ref', q(P, [('alias', e(P, 'id'), first), ('alias', e(P, 'boss'), second)]), 'sub')
        return q(sub, [e(sub, 'x')])

    def inner_page(c, o):
        sub = ('ref', page(c, o), 'sub')
        return q(sub, [e(sub, 'id'), e(sub, 'name')])

    grouped = lambda op: q(P, [e(P, 'boss'), ('alias', ('expr', op, e(P, 'age')), 'n')], None, [e(P, 'boss')])  # noqa: E731
    return [
        (dbs, [('read', 0, age('gt', 1)), ('read', 0, age('gt', 3)), ('read', 0, age('gt', 1))]),  # one literal
        (dbs, [('read', 0, age('gt', 3)), ('restart',), ('read', 0, age('gt', 5)), ('read', 0, age('gt', 3))]),  # across a restart
        (dbs, [('read', 1, name('a')), ('read', 1, name('zz')), ('read', 1, name('b'))]),  # a string literal
        # string literals that differ in case / a trailing blank only (the first one names an existing row)
        (dbs, [('read', 1, name(dbs[1]['dept'][1][0][1])), ('read', 1, name(dbs[1]['dept'][1][0][1].upper())),
               ('read', 1, name(dbs[1]['dept'][1][0][1] + ' ')), ('restart',), ('read', 1, name(dbs[1]['dept'][1][0][1].upper()))]),
        (dbs, [('read', 0, plus(-1)), ('read', 0, plus(-2)), ('read', 0, age('lt', 0)), ('read', 0, age('lt', 2 ** 61 - 1))]),  # equal hashes
        (dbs, [('read', 0, age('gt', 2)), ('read', 0, age('ge', 2)), ('read', 0, age('lt', 2)), ('read', 0, age('ne', 2))]),  # one operator
        (dbs, [('read', 1, page(2, 0)), ('read', 1, page(2, 1)), ('read', 1, page(3, 1)), ('read', 1, page(100, 2)), ('read', 1, page(2, 0))]),  # window
        (dbs, [('read', 0, page(2, 1)), ('restart',), ('read', 0, page(2, 2)), ('read', 0, page(2, 1, 'desc'))]),
        (dbs, [('read', 0, inner_page(2, 0)), ('read', 0, inner_page(2, 1)), ('read', 0, inner_page(1, 1))]),  # window of a nested statement
        (dbs, [('read', 0, plus(1)), ('read', 0, plus(2)), ('restart',), ('read', 0, plus(1))]),  # a literal in the projection
        (dbs, [('read', 0, nested('x', 'y')), ('read', 0, nested('y', 'x'))]),  # aliases of a nested statement swapped
        (dbs, [('read', 1, boss('inner')), ('read', 1, boss('left')), ('read', 1, boss('full'))]),  # join kind
        (dbs, [('read', 0, setk('union')), ('read', 0, setk('intersection')), ('read', 0, setk('difference'))]),  # set kind
        (dbs, [('read', 0, grouped('min')), ('read', 0, grouped('max')), ('read', 0, grouped('sum'))]),  # aggregate
        # the same through file backed (monolite) feeds
        (dbs, [('read', 2, age('gt', 1)), ('read', 2, age('gt', 3)), ('restart',), ('read', 2, age('gt', 5)), ('read', 2, age('gt', 1))]),
        (dbs, [('read', 3, page(2, 0)), ('read', 3, page(2, 1)), ('read', 3, page(1, 2))]),
        (dbs, [('read', 2, name('a')), ('read', 2, name('b'))]),
    ]


def TWIN_CORPUS():
    """feeds that share a connection but map the schemas to other physical tables read the same statements"""
    import random

    rng = random.Random(67)
    P, D = g.PERSON, g.DEPT
    e = lambda s, n: ('elem', s, n)  # noqa: E731
    dbs = [g.gen_db6(rng, 0.0), g.gen_db6(rng, 0.0), gen_db_nonnull(rng), gen_db_nonnull(rng)]
    s1 = ('query', P, (e(P, 'id'), e(P, 'name')), None, (), None, (), None)
    s2 = ('query', D, (e(D, 'id'), e(D, 'head')), ('expr', 'gt', e(D, 'id'), ('lit', ('int', 0))), (), None, (), None)
    b = ('ref', P, 'b')
    s3 = ('query', ('join', P, b, 'left', ('expr', 'eq', e(P, 'boss'), e(b, 'id'))), (e(P, 'id'), ('alias', e(b, 'name'), 'x')), None, (), None, (), None)
    return [
        (dbs, [('read', 0, s1), ('read', 4, s1)]),  # same statement, same connection, other tables
        (dbs, [('read', 4, s2), ('read', 0, s2), ('read', 4, s1), ('read', 0, s1)]),
        (dbs, [('read', 1, s3), ('read', 5, s3), ('restart',), ('read', 5, s3), ('read', 1, s3)]),
        (dbs, [('read', 5, s1), ('restart',), ('read', 1, s1), ('read', 5, s2), ('read', 1, s2)]),
        (dbs, [('read', 0, s1), ('read', 4, s1), ('read', 1, s1), ('read', 0, s1)]),  # + the cross-storage finding (known)
    ]


def FORMAT_CORPUS():
    """file backed storages whose tables are kept in every format: plain CSV, reader options that do not / do collide with
    the class defaults (separator; no header line), parquet, inline"""
    import random

    rng = random.Random(68)
    P, D, U = g.PERSON, g.DEPT, g.UNIT
    e = lambda s, n: ('elem', s, n)  # noqa: E731
    dbs = [g.gen_db6(rng, 0.0), g.gen_db6(rng, 0.0), gen_db_nonnull(rng), gen_db_nonnull(rng)]
    allof = lambda t: ('query', t, tuple(e(t, n) for n, _ in t[2]), None, (), None, (), None)  # noqa: E731
    joined = ('query', ('join', D, U, 'inner', ('expr', 'eq', e(D, 'id'), e(U, 'id'))), (e(D, 'name'), ('alias', e(U, 'name'), 'x'), e(U, 'size')),
              None, (), None, (), None)
    fmt = lambda p, d, u: {'formats': {'2': {'Person': p, 'Dept': d, 'Unit': u}, '3': {'Person': u, 'Dept': p, 'Unit': d}}}  # noqa: E731
    reads = lambda feed: [('read', feed, allof(P)), ('read', feed, allof(D)), ('read', feed, allof(U)), ('read', feed, joined)]  # noqa: E731
    return [
        (dbs, reads(2), fmt('csv-noheader', 'csv-semicolon', 'csv')),
        (dbs, reads(3), fmt('csv-noheader', 'csv-semicolon', 'csv')),
        (dbs, reads(2), fmt('parquet', 'inline', 'csv-noheader-semicolon')),
        (dbs, reads(3), fmt('parquet', 'inline', 'csv-noheader-semicolon')),
        (dbs, reads(2)[:2] + [('restart',)] + reads(2)[2:], fmt('csv-header0', 'csv-noheader', 'parquet')),
        (dbs, reads(3)[:3], fmt('csv-header0', 'csv-noheader', 'parquet')),
    ]


def _jdb(d) -> dict:
    return {k: [v[0], [list(r) for r in v[1]]] for k, v in d.items()}


def _jop(o) -> list:
    if o[0] == 'read':
        return [o[0], o[1], o[2]] + list(o[3:])
    return [o[0], o[1], _jdb(o[2])] if o[0] == 'mutate' else [o[0]]


def formats_of(cfg) -> dict:
    """{storage index: {Table: format}} of a history's configuration"""
    return {int(k): v for k, v in ((cfg or {}).get('formats') or {}).items()}


def history_witness(dbs, ops, cfg=None) -> dict:
    def line(o):
        if o[0] == 'read':
            feed = f'feed{o[1]}[{FEED_KINDS[o[1]]} on storage {STORAGE[o[1]]}, mapping {g.MAPPING[o[1]]}]'
            return f'read {feed} {sexp.dumps(g.short(o[2]))}'
        return o[0] if o[0] != 'mutate' else f'mutate storage {o[1]}'

    w = {'kind': 'history', 'dbs': [_jdb(d) for d in dbs], 'ops': [_jop(o) for o in ops], 'text': [line(o) for o in ops]}
    if formats_of(cfg):
        w['formats'] = {str(k): v for k, v in formats_of(cfg).items()}
    return w


class Zygote:
    """A `c06_worker.py --serve` process: third-party libraries loaded, forml not; every job is run in a forked child."""

    def __init__(self):
        env = dict(os.environ, PYTHONWARNINGS='ignore')
        env.pop('FORML_HOME', None)
        # cwd: forml's logging set-up creates `<script name>.log` in the working directory
        self.proc = subprocess.Popen([sys.executable, os.path.join(HERE, 'c06_worker.py'), '--serve'], stdin=subprocess.PIPE,
                                     stdout=subprocess.PIPE, stderr=subprocess.DEVNULL, text=True, env=env,
                                     cwd=tempfile.gettempdir())
        names = sorted(m for m in sys.modules if m != 'forml' and not m.startswith('forml.'))
        self.proc.stdin.write(json.dumps(names) + '\n')
        self.proc.stdin.flush()
        if self.proc.stdout.readline().strip() != 'ready':
            raise fw.MachineryError('reader zygote did not start')

    def job(self, job: dict) -> list:
        self.proc.stdin.write(json.dumps(job) + '\n')
        self.proc.stdin.flush()
        line = self.proc.stdout.readline()
        if not line:
            raise fw.MachineryError('reader zygote died')
        out = json.loads(line)
        if isinstance(out, dict):
            raise fw.MachineryError(f'reader worker failed: {out}')
        return out

    def close(self) -> None:
        try:
            self.proc.stdin.close()
            self.proc.wait(timeout=10)
        except Exception:  # pylint: disable=broad-except
            self.proc.kill()


_SHARED: list = []


def shared_zygote() -> Zygote:
    """one zygote for the finding replays of a run (closed at interpreter exit)"""
    import atexit

    if not _SHARED:
        _SHARED.append(Zygote())
        atexit.register(_SHARED[0].close)
    return _SHARED[0]


def run_history(history, zygote: typing.Optional[Zygote] = None) -> list:
    """Run the reads of a history on the real feeds: one fresh process per segment between restarts, all sharing a
    ForML home directory and the storage files; -> [('rows', rows) | ('error', class, message)] per read.
    history = (contents per storage, ops[, {'formats': {storage: {Table: format}}}])"""
    dbs, ops = history[0], history[1]
    formats = formats_of(history[2] if len(history) > 2 else None)
    own = zygote is None
    zygote = zygote or Zygote()
    root = tempfile.mkdtemp(prefix='verif-c06-')
    try:
        home = os.path.join(root, 'home')
        os.makedirs(home)
        segments, current = [], []
        for op in ops:
            if op[0] == 'restart':
                segments.append(current)
                current = []
            else:
                current.append(op)
        segments.append(current)
        outs = []
        state = [dict(d) for d in dbs]
        for n, seg in enumerate(segments):
            if not seg and n:
                continue
            job = {'root': root, 'home': home, 'init': [_jdb(d) for d in dbs] if n == 0 else None,
                   'state': [_jdb(d) for d in state], 'formats': {str(k): v for k, v in formats.items()},
                   'ops': [_jop(o) for o in seg]}
            outs.extend(tuple(x) for x in zygote.job(job))
            for o in seg:
                if o[0] == 'mutate':
                    state[o[1]] = o[2]
        return outs
    finally:
        shutil.rmtree(root, ignore_errors=True)
        if own:
            zygote.close()


def run_histories(histories, workers: int = 8) -> list:
    """all histories, spread over `workers` zygotes"""
    import threading

    results = [None] * len(histories)
    errors = []

    def work(k: int) -> None:
        z = None
        try:
            z = Zygote()
            for i in range(k, len(histories), workers):
                results[i] = run_history(histories[i], z)
        except BaseException as err:  # pylint: disable=broad-except
            errors.append(err)
        finally:
            if z is not None:
                z.close()

    threads = [threading.Thread(target=work, args=(k,)) for k in range(min(workers, len(histories)))]
    for t in threads:
        t.start()
    for t in threads:
        t.join()
    if errors:
        raise fw.MachineryError(f'reader level: {errors[0]!r}')
    return results


def unused_tables(stmt) -> set:
    """tables of the statement none of whose columns is used anywhere (directly or through a reference to the table)"""
    used, tables = set(), set()

    def feature(f):
        for el in dslgen.elements(f):
            origin = el[1]
            if origin[0] == 'table':
                used.add(origin)
            elif origin[0] == 'ref' and origin[1][0] == 'table':
                used.add(origin[1])

    def source(s_):
        tag = s_[0]
        if tag == 'table':
            tables.add(s_)
        elif tag == 'ref':
            source(s_[1])
        elif tag in ('join', 'set'):
            source(s_[1])
            source(s_[2])
            if tag == 'join' and s_[4] is not None:
                feature(s_[4])
        elif tag == 'query':
            source(s_[1])
            if not s_[2]:
                used.update(t for t in g.subsources(s_[1]) if t[0] == 'table')
            for f in tuple(s_[2]) + tuple(s_[4]) + tuple(o[1] for o in s_[6]) + tuple(x for x in (s_[3], s_[5]) if x is not None):
                feature(f)

    source(stmt)
    return tables - used


def _mixed_explains(stmt, rows, versions) -> bool:
    """the rows are what the statement denotes over *some* mix of table contents the lazy storages held so far"""
    import itertools

    used = sorted({g.PHYS[t[1]] for s_ in g.subsources(stmt) for t in [s_] if t[0] == 'table'})
    pools = []
    for name in used:
        seen, pool = set(), []
        for db in versions:
            key = repr(db[name])
            if key not in seen:
                seen.add(key)
                pool.append(db[name])
        pools.append(pool[:6])
    for combo in itertools.islice(itertools.product(*pools), 400):
        db = dict(versions[0])
        db.update(dict(zip(used, combo)))
        try:
            if g.denote(stmt, db).admits(rows) is None:
                return True
        except g.Undefined:
            continue
    return False


def read_alone(feed, stmt, state, cfg=None, extra=()):
    """the same read as the only operation of a fresh process with a fresh home over the same storage contents"""
    return run_history(([dict(d) for d in state], [('read', feed, stmt) + tuple(extra)], cfg or {}), shared_zygote())[0]


def judge_history(dbs, ops, outs, alone=None, cfg=None) -> list:
    """oracle at reader level: every read returns what the statement denotes over the feed's own storage - seen through
    the feed's own mapping - at read time; -> [(what, signature, index of the op)].  A deviation gets the signature of a
    known root cause only if that root cause explains the returned rows exactly."""
    state = [dict(d) for d in dbs]
    lazy_versions = [dict(d) for i, d in enumerate(dbs) if g.STORAGE_KINDS[i] == 'lazy']
    seen = []  # (feed, stmt, rows bag, version of the feed's storage)
    verdicts, k = [], 0
    version = [0] * len(dbs)
    for idx, op in enumerate(ops):
        if op[0] == 'mutate':
            state[op[1]] = op[2]
            version[op[1]] += 1
            if g.STORAGE_KINDS[op[1]] == 'lazy':
                lazy_versions.append(dict(op[2]))
            continue
        if op[0] != 'read':
            continue
        out = outs[k]
        k += 1
        feed, stmt = op[1], op[2]
        store, kind = STORAGE[feed], FEED_KINDS[feed]
        try:
            exp = g.denote(stmt, g.view(feed, state[store]))
        except g.Undefined:
            continue
        kinds = [kk for _, kk in g.out_columns(stmt)]
        label = f'feed {feed} ({kind}, storage {store}, mapping {g.MAPPING[feed]})'
        if out[0] != 'rows':
            sig = f'read-fails:{kind}:{out[1]}'
            what = f'read via {label} raises {out[1]}: {out[2]}'
            if kind == 'lazy' and out[1] == 'DatabaseError' and unused_tables(stmt):
                sig = SIG_UNUSED
                what = (f'lazy feed {feed}: a table none of whose columns is used ({", ".join(sorted(t[1] for t in unused_tables(stmt)))}) '
                        f'is not registered in the backend, the read raises {out[1]}')
            verdicts.append((what, sig, idx))
            continue
        rows = canon_rows([tuple(r) for r in out[1]], kinds)
        bag = collections.Counter(rows)
        why = exp.admits(rows)
        if why is not None:
            sig = f'read-differs:{kind}'
            what = f'read via {label} returns rows other than denoted over its storage ({why})'
            earlier = [s for s in seen if s[1] == stmt and s[2] == bag and FEED_KINDS[s[0]] == kind]
            crossed = False
            if has_cross(stmt):
                try:
                    crossed = cross_as_full(stmt, g.view(feed, state[store])).admits(rows) is None
                except g.Undefined:
                    pass

            def right_alone() -> bool:
                """it is the history that matters iff the same read alone (fresh process, fresh home) is right"""
                if alone is None:
                    return True
                try:
                    single = alone(feed, stmt, state, cfg, op[3:])
                    return single[0] == 'rows' and exp.admits(canon_rows([tuple(r) for r in single[1]], kinds)) is None
                except Exception:  # pylint: disable=broad-except
                    return True

            if crossed:
                sig, what = SIG_CROSS, f'{label}: CROSS join over an empty and a non-empty side returns NULL-extended rows'
            elif any(s[0] == feed and s[3] != version[store] for s in earlier):
                sig, what = SIG_STALE, f'{label}: re-reading a statement after its storage changed returns the rows of the earlier read'
            elif any(s[0] != feed and g.MAPPING[s[0]] == g.MAPPING[feed] for s in earlier):
                sig, what = SIG_SHARED, f'{label}: returns the rows another feed read from another storage for the same SQL text'
            elif any(s[0] != feed and g.MAPPING[s[0]] != g.MAPPING[feed] for s in earlier) and right_alone():
                other = [s[0] for s in earlier if s[0] != feed and g.MAPPING[s[0]] != g.MAPPING[feed]][-1]
                sig = SIG_FOREIGN
                what = (f'{label}: the read returns the rows feed {other} (same connection, mapping {g.MAPPING[other]}: other '
                        f'physical tables) read for the same statement instead of its own tables\' rows ({why})')
            elif kind == 'lazy' and _mixed_explains(stmt, rows, lazy_versions):
                sig, what = SIG_LAZY, (f'lazy feed {feed}: reads table contents registered earlier in the process (by another feed or '
                                       f'before its storage changed)')
            else:
                alien = [s for s in seen if s[1] != stmt and s[2] == bag]
                if alien and right_alone():
                    sig = SIG_ALIEN
                    what = (f'{label}: the read returns the rows an earlier read of a DIFFERENT statement returned '
                            f'({sexp.dumps(g.short(alien[-1][1]))[:160]}) instead of its own ({why})')
            verdicts.append((what, sig, idx))
        seen.append((feed, stmt, bag, version[store]))
    return verdicts
