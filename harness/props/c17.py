"""C17 — model-selection strategies (ABTest / Latest / Explicit) vs lean/ForML/Model/Strategy*.lean."""
from __future__ import annotations

import atexit
import datetime
import fractions
import itertools
import multiprocessing
import os
import pathlib
import pickle
import shutil
import tempfile
import threading
import time
import typing

from core import framework as fw
from core import sexp

F = fractions.Fraction
EPS = F(1, 10**9)  # 'within one request' is inclusive; float representation noise of the targets
_STAGING = tempfile.mkdtemp(prefix='verif-c17-')
atexit.register(shutil.rmtree, _STAGING, ignore_errors=True)

VERSIONS = ['0.1.dev1', '0.1', '0.2.dev3', '0.2', '0.10', '1.0rc1', '1.0', '1.0.post1', '2']  # ascending PEP 440
PROJECT = 'p'
REFRESH = 0.02  # seconds: the refresh interval every history is driven with

AB_PROJECTS = ['pa', 'pb', 'pc']
AB_RELEASES = ['1', '2']

SIG_F1 = 'abtest-lower-bound-k>=3-within-k-1'
SIG_F2 = 'latest-stale-configured-release-empty-at-first-refresh'


def _registry_double():
    """An in-memory `asset.Registry` whose listings the harness mutates between requests."""
    from forml.io import asset

    class Double(asset.Registry):
        def __init__(self, content: dict):
            super().__init__(staging=_STAGING)
            self.content = content  # {project: {release: [generations]}}
            self.lock = threading.Lock()

        def projects(self):
            with self.lock:
                return list(self.content)

        def releases(self, project):
            with self.lock:
                return list(self.content.get(str(project), {}))

        def generations(self, project, release):
            with self.lock:
                return list(self.content.get(str(project), {}).get(str(release), []))

        def push(self, package):
            raise NotImplementedError

        def pull(self, project, release):
            raise NotImplementedError

        def read(self, project, release, generation, sid):
            raise NotImplementedError

        def write(self, project, release, sid, state):
            raise NotImplementedError

        def open(self, project, release, generation):
            raise NotImplementedError

        def close(self, project, release, generation, tag):
            raise NotImplementedError

    return Double


def _ident(instance) -> tuple:
    """What a runner would be serving with this instance: resolves (and thereby pins) the generation key."""
    gen = instance._generation  # pylint: disable=protected-access
    return str(gen.release.project.key), str(gen.release.key), int(gen.key)


def _errkind(exc: BaseException):
    from forml.io import asset

    if isinstance(exc, asset.Level.Listing.Empty):
        return ['err', 'empty']
    if isinstance(exc, asset.Level.Invalid):
        return ['err', 'invalid']
    return ['err', type(exc).__name__]


# ---- documented ABTest normalisation (spec side, exact) ----------------------------------------------------
def doc_shares(values: list) -> list[F]:
    """Normalised target share per variant *in declaration order* as the ABTest documentation states it: an omitted
    target is the complement to 1 shared by the omitted ones when the given ones sum below 1, else the mean of the
    given ones; shares = targets / their sum.  `values`: Fraction or None per variant."""
    given = [v for v in values if v is not None]
    missing = len(values) - len(given)
    if missing:
        explicit = sum(given, F(0))
        implicit = (1 - explicit) / missing if explicit < 1 else explicit / len(given)
        values = [implicit if v is None else v for v in values]
    total = sum(values, F(0))
    return [v / total for v in values]


# ---- ABTest variant sets as declared through the builder (spec side) ------------------------------------------
def default_coords(k: int) -> list:
    """generations 1..k of one release of one project, nothing switched"""
    return [[0, 0, 1]] + [[g, None, None] for g in range(2, k + 1)]


def declared_identities(coords: list) -> list[tuple]:
    """(project, release, generation) per declared variant: `compare(project, release, generation)` names the first,
    every `over` / `against` names its generation and - where given - the release and / or project, which otherwise
    are those of the variant declared before it (docs: application.ABTest.Builder)."""
    p, r, g = coords[0]
    out = [(p, r, g)]
    for g, r2, p2 in coords[1:]:
        p = p if p2 is None else p2
        r = r if r2 is None else r2
        out.append((p, r, g))
    return out


def encode_coords(idents: list) -> list:
    """a declaration of the given identities with only the necessary switches"""
    out = [list(idents[0])]
    for (pp, pr, _), (p, r, g) in zip(idents, idents[1:]):
        out.append([g, None if r == pr else r, None if p == pp else p])
    return out


def gen_coords(rng, k: int, duplicates: bool = True) -> list:
    """random declaration: project / release switches anywhere (the closing `against` included), given although
    unchanged, or omitted; mostly exclusive identities, now and then a duplicate"""
    for _ in range(50):
        coords = [[rng.randrange(len(AB_PROJECTS)), rng.randrange(len(AB_RELEASES)), rng.randint(1, 12)]]
        for _ in range(k - 1):
            coords.append([rng.randint(1, 12), rng.choice([None, None, 0, 1]), rng.choice([None, None, 0, 1, 2])])
        idents = declared_identities(coords)
        if len(set(idents)) == k or (duplicates and rng.random() < 0.05):
            return coords
    return default_coords(k)


def spec_latest(rels, cfg):
    """Spec written from the property text: newest generation of the highest release that has any (or of the
    configured one); None when there is none."""
    if cfg is not None:
        gens = dict((r, gs) for r, gs in rels).get(cfg)
        return [cfg, max(gens)] if gens else None
    having = [(r, gs) for r, gs in rels if gs]
    if not having:
        return None
    r, gs = max(having)
    return [r, max(gs)]


# ---- driving `Latest` / `Explicit` over a registry history on a real posix registry (worker processes) --------
class _Canary:
    """A thread of the same shape as `Latest._refresh` (list a posix registry, sleep(interval), in a loop): how many
    rounds *it* got to run is the yardstick for how long the harness waits for the refresher (tolerates CPU and
    file-system load: whatever holds the refresher up holds this thread up as well)."""

    def __init__(self, interval: float):
        from forml.provider.registry.filesystem import posix

        self.count = 0
        self._interval = interval
        root = pathlib.Path(tempfile.mkdtemp(prefix='canary-', dir=_STAGING))
        (root / PROJECT / '1' / 'package.4ml').mkdir(parents=True)
        (root / PROJECT / '1' / '1').mkdir()
        (root / PROJECT / '1' / '1' / 'tag.toml').write_text('')
        self._registry = posix.Registry(root)
        threading.Thread(target=self._loop, daemon=True).start()

    def _loop(self):
        while True:
            try:
                for release in self._registry.releases(PROJECT):
                    list(self._registry.generations(PROJECT, release))
            except Exception:  # pylint: disable=broad-except
                pass
            time.sleep(self._interval)
            self.count += 1

    def wait(self, iterations: int, hard: float = 20.0) -> None:
        start, t0 = self.count, time.monotonic()
        while self.count - start < iterations and time.monotonic() - t0 < hard:
            time.sleep(self._interval / 2)


_CANARY: typing.Optional[_Canary] = None


def _canary() -> _Canary:
    global _CANARY  # pylint: disable=global-statement
    if _CANARY is None:
        _CANARY = _Canary(REFRESH)
    return _CANARY


PATIENCE = {'full': (40, 1.5), 'short': (12, 0.3)}  # (canary iterations, seconds) both to be exceeded
HARD_TIMEOUT = 30.0


def apply_registry_op(rels: list, op) -> None:
    """`rels`: [[release, [generations]]] kept ascending; mirrors the registry side of a history."""
    kind, r = op[0], op[1]
    entry = next((e for e in rels if e[0] == r), None)
    if entry is None:
        entry = [r, []]
        rels.append(entry)
        rels.sort()
    if kind == 'commit':
        entry[1].append(entry[1][-1] + 1 if entry[1] else 1)


def f2_shaped(cfg, rels0, ops) -> bool:
    """The configured release has no generation when the selector is first used (-> finding C17-F2)."""
    if cfg is None:
        return False
    rels = [[r, list(gs)] for r, gs in rels0]
    for op in ops:
        if isinstance(op, (list, tuple)) and op[0] in ('publish', 'commit'):
            apply_registry_op(rels, op)
        elif isinstance(op, (list, tuple)) and op[0] == 'select':
            return not dict((r, gs) for r, gs in rels).get(cfg)
    return False


FAULTS = ('missing', 'invalid', 'os', 'other')


def _faulty_registry(path):
    """A posix registry whose next listing call *made by a thread other than the driver's* (i.e. by the selector's
    background refresher) raises the armed exception, once: a transient fault of the registry."""
    import forml
    from forml.io import asset
    from forml.provider.registry.filesystem import posix

    driver = threading.current_thread()

    class Faulty(posix.Registry):
        armed = None
        struck = 0
        closed = False  # the history is over: the refresher's next listing ends its thread (SystemExit is no Exception)

        def arm(self, kind: str) -> None:
            self.armed = {'missing': forml.MissingError('transient: listing unavailable'),
                          'invalid': asset.Level.Invalid('transient: listing invalid'),
                          'os': OSError(116, 'Stale file handle'),
                          'other': RuntimeError('transient: registry backend hiccup')}[kind]

        def _strike(self) -> None:
            if self.closed and threading.current_thread() is not driver:
                raise SystemExit
            if self.armed is not None and threading.current_thread() is not driver:
                exc, self.armed = self.armed, None
                self.struck += 1
                raise exc

        def projects(self):
            self._strike()
            return super().projects()

        def releases(self, project):
            self._strike()
            return super().releases(project)

        def generations(self, project, release):
            self._strike()
            return super().generations(project, release)

    return Faulty(path)


def drive_history(job: dict) -> dict:
    """Run one history on the real code.  job: kind ('latest'|'explicit'), cfg, rels0, ops, expect (model observations,
    optional), patience.  Returns observations per op and the waits."""
    from forml import application
    from forml.io import asset
    from forml.provider.registry.filesystem import posix

    canary = _canary()
    root = pathlib.Path(tempfile.mkdtemp(prefix='hist-', dir=_STAGING))
    registry = _faulty_registry(root / 'registry')
    directory = asset.Directory(registry)
    rels = []
    waits = {'polls': 0, 'max_wait_s': 0.0, 'patience_exhausted': 0, 'hard_timeouts': 0}

    def publish(r: int) -> None:
        (root / 'registry' / PROJECT / VERSIONS[r] / 'package.4ml').mkdir(parents=True, exist_ok=True)

    def commit(r: int, g: int) -> None:
        tag = asset.Tag(training=asset.Tag.Training(datetime.datetime(2024, 1, 1) + datetime.timedelta(days=g), None))
        registry.close(PROJECT, asset.Release.Key(VERSIONS[r]), asset.Generation.Key(g), tag)

    def registry_op(op) -> None:
        before = {e[0]: len(e[1]) for e in rels}
        apply_registry_op(rels, op)
        for r, gs in rels:
            if r not in before:
                publish(r)
            for g in gs[before.get(r, 0):]:
                commit(r, g)

    (root / 'registry' / PROJECT).mkdir(parents=True)
    for r, gs in job['rels0']:
        registry_op(['publish', r])
        for _ in gs:
            registry_op(['commit', r])
    assert [[r, list(gs)] for r, gs in job['rels0']] == rels, (job['rels0'], rels)

    cfg = job['cfg']
    if job['kind'] == 'latest':
        strategy = application.Latest(PROJECT, None if cfg is None else VERSIONS[cfg], refresh=REFRESH)
    else:
        strategy = application.Explicit(PROJECT, VERSIONS[cfg[0]], cfg[1])
    expect = job.get('expect')
    need_iter, need_s = PATIENCE[job.get('patience', 'full')]
    shaped = job['kind'] == 'latest' and f2_shaped(cfg, job['rels0'], job['ops'])

    selected = [False]  # has any select call returned an instance (cache filled, refresher started)

    def sample(use: bool):
        try:
            inst = strategy.select(directory, None, None)
        except Exception as exc:  # pylint: disable=broad-except
            return _errkind(exc)
        selected[0] = True
        if not use:
            return ['picked']
        try:
            _, rel, gen = _ident(inst)
        except Exception as exc:  # pylint: disable=broad-except
            return _errkind(exc)
        return ['served', VERSIONS.index(rel), gen]

    obs = []
    dirty = False  # registry changed since the refresher was last given time
    filled = False
    try:
        for i, op in enumerate(job['ops']):
            if op == 'pickle':  # the selector is shipped: from here on the unpickled copy serves
                strategy = pickle.loads(pickle.dumps(strategy))
                obs.append('-')
            elif op == 'tick':
                if dirty and job['kind'] == 'latest':
                    canary.wait(2)
                    dirty = False
                obs.append('-')
            elif op[0] in ('publish', 'commit'):
                registry_op(op)
                dirty = True
                obs.append('-')
            elif op[0] == 'fault':
                registry.arm(op[1])
                if selected[0]:  # a refresher exists: give it the time to run into the fault
                    t0, c0 = time.monotonic(), canary.count
                    while registry.armed is not None and not (canary.count - c0 >= PATIENCE['short'][0]
                                                              and time.monotonic() - t0 >= PATIENCE['short'][1]):
                        time.sleep(REFRESH / 2)
                dirty = True
                obs.append('-')
            elif op == 'select' or op[0] == 'select':
                use = True if op == 'select' else bool(op[1])
                spec = spec_latest(rels, cfg) if job['kind'] == 'latest' else None
                accept = []
                if expect is not None:
                    accept.extend(e if use else e[:1] for e in expect[i] if e != '-')
                if use and spec is not None:
                    accept.append(['served'] + spec)
                t0, c0 = time.monotonic(), canary.count
                while True:
                    got = sample(use)
                    elapsed = time.monotonic() - t0
                    if not use or job['kind'] != 'latest' or got in accept or not accept:
                        break
                    if canary.count - c0 >= need_iter and elapsed >= need_s:
                        waits['patience_exhausted'] += 1
                        break
                    if elapsed >= HARD_TIMEOUT:
                        waits['hard_timeouts'] += 1
                        got = ['timeout', got]
                        break
                    time.sleep(REFRESH / 2)
                waits['polls'] += 1
                waits['max_wait_s'] = max(waits['max_wait_s'], round(elapsed, 3))
                obs.append(got)
                if not filled and selected[0] and job['kind'] == 'latest':
                    filled = True
                    if shaped:
                        canary.wait(10)  # the refresher's first round meets the empty release before anything else happens
            else:
                raise ValueError(f'bad op {op!r}')
    finally:
        registry.closed = True  # the refresher of this history ends on its next round
        time.sleep(2 * REFRESH)
        shutil.rmtree(root, ignore_errors=True)
    return {'obs': obs, 'waits': waits, 'final': [[r, list(gs)] for r, gs in rels], 'patience': [need_iter, need_s],
            'faults_struck': registry.struck}


def _fnorm(x: float) -> list[int]:
    """binary64 in (0, 1] as [mantissa, negated exponent] with 2^52 <= mantissa < 2^53."""
    m, d = x.as_integer_ratio()
    e = d.bit_length() - 1
    assert d == 1 << e
    while m < 1 << 52:
        m, e = m * 2, e + 1
    assert m < 1 << 53
    return [m, e]


class C17(fw.Check):
    ID = 'C17'
    LEAN_MODULES = ['ForML.Lemmas.C17Float', 'ForML.Lemmas.C17Latest', 'ForML.Lemmas.C17LatestInv', 'ForML.Lemmas.C17LatestFresh',
                    'ForML.Lemmas.C17Explicit', 'ForML.Lemmas.C17Builder', 'ForML.Props.C17']
    DRIVER = 'drv_c17'
    RULE = ('ABTest: variant sets of 2..6 with integer / dyadic-float / omitted targets (omitted ones in every position; '
            'all-explicit, complement rule, mean rule, ties) x request counts n (every prefix of the selection sequence is '
            'compared with the exact model and with the binary64 model, slot targets bit for bit); a case is distinct by '
            '(targets, n) and non-trivial when at least two variants get selected; arbitrary float targets with omitted '
            'ones: oracle only. Oracle on the real select sequence against the *documented* normalisation in declaration '
            'order: never fails, count < share*n+1, count > share*n-1 (k=2) resp. > share*n-(k-1) (k>=3, envelope of C17-F1). '
            'Every variant set is declared through ABTest.compare().over().against() with project / release / generation '
            'switches, omitted keywords and the odd duplicate; requests are attributed to declared variants by the identity of '
            'the instance returned. Latest histories also contain transient registry faults (MissingError, Level.Invalid, '
            'OSError, RuntimeError) striking the next listing made by the refresher. '
            'Latest: static registries of 1..5 releases with 0..3 generations each incl. empty ones, configured/unconfigured; '
            'histories publish/commit/tick/select(use|no use) over a real posix registry with refresh=0.02s, configured '
            '(published, empty, unpublished) / unconfigured release x commits to the served, to higher and to other '
            'releases x instance used before/after the commit; Explicit: histories, constant; Instance ==/hash pairs. '
            'binary64 division model vs CPython on random, boundary and tie quotients.')
    TRUSTED = [
        'CPython int/int and float/float division = IEEE-754 binary64 round-to-nearest-even as defined in '
        'Model/StrategyFloat.lean `fdiv` (compared on every run: random, boundary and tie quotients, and every slot target '
        'of the integer/dyadic stream bit for bit); float sums/complements of the explored integer/dyadic targets are exact',
        'arbitrary (non-dyadic) float targets: only the share-bound oracle, not the exact model',
        'thread scheduling of Latest._refresh: the harness waits for the refresher as long as a thread of the same '
        'shape needs for 40 rounds (>= 1.5 s); hard time-outs are reported as data (evidence), never as violations',
        'a transient fault strikes the first registry call of a refresh round (the model treats the round as atomic)',
        'one registry per selector (Latest._cache is keyed by registry; a refresher that died is not restarted for a '
        'second registry); registries only grow (no deletion of releases/generations)',
    ]
    ASSUMPTIONS = ['registry listings are duplicate-free and sorted by Level.Listing (C18)',
                   'n * (sum of integer weights) < 2^52 for the float/rational agreement theorem (C17_float_agrees)']

    def __init__(self, *a, **kw):
        super().__init__(*a, **kw)
        self._pool = None
        self._full_exhausted = 0
        self.extra['latest_refresh_waits'] = {'histories': 0, 'polls': 0, 'max_wait_s': 0.0, 'patience_exhausted': 0,
                                              'hard_timeouts': 0}

    # ---- ABTest ------------------------------------------------------------------------------
    def _abtest_cases(self):
        rng = self.rng
        cases = []
        # corpus: the known k=3 witness and tie / complement / mean shapes first (omitted targets in every position)
        corpus = [
            ([5, 12, 5], 1), ([9, 1], 1), ([1, 1], 1), ([1, 1, 1], 1), ([3, None, None], 1), ([1, None, None], 4),
            ([2, None], 4), ([None, None], 1), ([None, None, None], 1), ([1, 2, None], 8), ([7, 1, 1, 1], 1),
            ([1, 2, 3, 4, 5, 6], 1), ([5, None, 3], 8), ([8, None], 8), ([9, None], 8), ([None, 7], 8), ([None, 3], 1),
            ([1, None, 4], 8), ([None, None, 1], 4), ([None, 6, None, 1], 8), ([None, 5], 1), ([None, 1, 2], 1),
            # an omitted target whose implicit share is the largest one, k >= 3, in every position
            ([None, 1, 1, 1, 1], 16), ([1, None, 1], 8), ([1, 2, None], 16), ([3, 1, None, 2], 32), ([1, 1, None, 1, 1, 1], 64),
        ]
        cases.extend(corpus)
        nrand = self.n(150, 1500)
        for _ in range(nrand):
            k = rng.choice([2, 2, 3, 3, 4, 5, 6])
            style = rng.choice(['int', 'int', 'dyadic', 'mixed-none', 'mixed-none', 'ties', 'none-dominant'])
            if style == 'int':
                ts, d = [rng.randint(1, 12) for _ in range(k)], 1
            elif style == 'ties':
                base = rng.randint(1, 5)
                ts, d = [rng.choice([base, base, rng.randint(1, 6)]) for _ in range(k)], 1
            elif style == 'none-dominant':
                ts, d = self._gen_none_dominant(rng, max(k, 3))
            elif style == 'dyadic':
                d = rng.choice([2, 4, 8, 16, 64])
                ts = [rng.randint(1, d) for _ in range(k)]
            else:
                d = rng.choice([1, 4, 8, 16])
                ts = [rng.choice([None, rng.randint(1, max(1, d if d > 1 else 6))]) for _ in range(k)]
                if all(t is not None for t in ts):
                    ts[rng.randrange(k)] = None
            cases.append((ts, d))
        cases = [c for c in cases if self._float_exact(*c)]
        if not self.quick:
            # exhaustive: all integer weight vectors <= 6 with k <= 4 (DESIGN section 5, C17)
            for k in (2, 3, 4):
                for ts in itertools.product(range(1, 7 if k < 4 else 5), repeat=k):
                    cases.append((list(ts), 1))
        return cases

    @staticmethod
    def _gen_none_dominant(rng, k):
        """k >= 3 variants, one target omitted, the given ones small: the implicit share (complement rule) is the largest."""
        d = rng.choice([16, 32, 64])
        ts = [rng.randint(1, max(1, d // (2 * k))) for _ in range(k)]
        ts[rng.randrange(k)] = None
        return ts, d

    @staticmethod
    def _float_exact(ts, d) -> bool:
        """The implicit target (complement / mean rule) must be a dyadic rational, otherwise the float
        normalisation of the implementation rounds and `count/total == target` coincidences are not comparable
        with the exact model; such vectors go to the oracle-only float stream."""
        given = [F(t, d) for t in ts if t is not None]
        missing = len(ts) - len(given)
        if not missing:
            return True
        explicit = sum(given, F(0))
        implicit = (1 - explicit) / missing if explicit < 1 else explicit / len(given) if given else None
        if implicit is None:
            implicit = F(1, missing)
        den = implicit.denominator
        return den & (den - 1) == 0 and implicit > 0

    @staticmethod
    def _build_abtest(values, coords=None):
        """Real ABTest built through the public builder API `compare(..).over(..)…against(..)`; values: python targets
        (int/float/None) per variant, coords: `[project, release, generation]` of the first variant and
        `[generation, release|None, project|None]` (None = keyword omitted) of the others."""
        from forml import application
        from forml.io import asset

        coords = coords or default_coords(len(values))
        Double = _registry_double()
        directory = asset.Directory(Double({p: {r: list(range(1, 13)) for r in AB_RELEASES} for p in AB_PROJECTS}))
        p, r, g = coords[0]
        builder = application.ABTest.compare(AB_PROJECTS[p], AB_RELEASES[r], g, values[0])
        for i, ((g, r, p), t) in enumerate(zip(coords[1:], values[1:]), start=2):
            kwargs = {}
            if r is not None:
                kwargs['release'] = AB_RELEASES[r]
            if p is not None:
                kwargs['project'] = AB_PROJECTS[p]
            if t is not None or i % 2:  # an omitted target is passed as None or not at all
                kwargs['target'] = t
            if i < len(values):
                builder = builder.over(g, **kwargs)
            else:
                ab = builder.against(g, **kwargs)
                if sum(c[0] for c in coords) % 2:  # every other variant set is served by an unpickled copy of the selector
                    ab = pickle.loads(pickle.dumps(ab))
                return ab, directory
        raise AssertionError('at least two variants')

    def _run_abtest(self, ts, d, n, coords=None):
        """Real ABTest: returns ((slot order as variant indices, picks as variant indices), slot targets, built variants)
        or (('error', cls), None, None) when the constructor raises."""
        values = [None if t is None else (t if d == 1 else t / d) for t in ts]  # exact: d is a power of two
        return self._run_abtest_values(values, n, coords)

    def _run_abtest_values(self, values, n, coords=None):
        coords = coords or default_coords(len(values))
        idents = declared_identities(coords)
        try:
            ab, directory = self._build_abtest(values, coords)
        except Exception as e:  # pylint: disable=broad-except
            return ('error', type(e).__name__), None, None

        def index(ident):
            return idents.index(ident) if ident in idents else ('undeclared', list(ident))

        slots = getattr(ab, '_slots', None)
        order = targets = built = None
        if slots is not None:
            try:
                seen = [(AB_PROJECTS.index(str(s.variant.project)), AB_RELEASES.index(str(s.variant.release)),
                         int(s.variant.generation)) for s in slots]
                built = sorted([*i, s.variant.target] for i, s in zip(seen, slots))
                order = [index(i) for i in seen]
                if any(not isinstance(o, int) for o in order):
                    order = None
                targets = [float(s.target) for s in slots]
            except Exception:  # pylint: disable=broad-except
                order = targets = built = None
        picks = []
        for _ in range(n):
            try:
                inst = ab.select(directory, None, None)
            except Exception as e:  # pylint: disable=broad-except
                picks.append(('error', type(e).__name__))
                break
            project, release, gen = _ident(inst)
            picks.append(index((AB_PROJECTS.index(project), AB_RELEASES.index(release), gen)))
        return (order, picks), targets, built

    @staticmethod
    def _oracle_abtest(shares, picks, idents=None):
        """The property on the real selection sequence: `shares` = documented normalised share per *declared* variant
        (declaration order, exact), `picks` = the declared variant each request was served by (identified by the
        project / release / generation of the instance returned).  Returns [(what, signature, detail)], first failure only."""
        k = len(shares)
        counts = [0] * k
        for n, p in enumerate(picks, start=1):
            if isinstance(p, tuple) and p[0] == 'error':
                return [(f'ABTest.select raised {p[1]} at request {n}', 'abtest-select-fails', {'n': n})]
            if isinstance(p, tuple):
                return [(f'request {n} was served by (project, release, generation) = {tuple(p[1])}, which is none of the '
                         f'declared variants {idents}', 'abtest-undeclared-variant', {'n': n, 'served': p[1]})]
            counts[p] += 1
            for v in range(k):
                dev = counts[v] - shares[v] * n
                if dev > 1 + EPS:
                    return [(f'variant #{v} (target share {float(shares[v]):.4f}) was selected {counts[v]} times in {n} '
                             f'requests: {float(dev):.3f} ahead of its share', 'abtest-upper-bound',
                             {'n': n, 'variant': v, 'count': counts[v], 'share': str(shares[v])})]
                if dev < -1 - EPS:
                    # C17-F1 is about variants scanned after another one; the variant with the single largest share is
                    # served whenever it is behind (Lean: C17_lower_dominant), so it is held to 'within one request'
                    dominant = all(shares[v] > shares[u] + F(1, 10**6) for u in range(k) if u != v)
                    sig = SIG_F1 if k >= 3 and dev > -(k - 1) and not dominant else 'abtest-lower-bound'
                    return [(f'variant #{v} (target share {float(shares[v]):.4f}) was selected {counts[v]} times in {n} '
                             f'requests: {float(-dev):.3f} behind its share (k={k})', sig,
                             {'n': n, 'variant': v, 'k': k, 'count': counts[v], 'share': str(shares[v])})]
        return []

    def _check_values(self, values, n, coords=None):
        """Oracle on one variant set (python target values): [(what, sig, detail)]; [] also when not constructible."""
        coords = coords or default_coords(len(values))
        res, _, _ = self._run_abtest_values(values, n, coords)
        if res[0] == 'error':
            return []
        shares = doc_shares([None if v is None else F(v) for v in values])
        return self._oracle_abtest(shares, res[1], declared_identities(coords))

    def _shrink_abtest(self, values, n, sig, coords=None):
        """Smaller variant set / targets / request count with a violation of the same signature."""
        idents = declared_identities(coords or default_coords(len(values)))
        best = (list(values), n, idents)
        budget = 60

        def fails(vals, nn, ids):
            nonlocal budget
            if budget <= 0 or len(vals) < 2 or len(set(ids)) != len(ids):
                return None
            budget -= 1
            try:
                out = self._check_values(vals, nn, encode_coords(ids))
            except Exception:  # pylint: disable=broad-except
                return None
            return out[0] if out and out[0][1] == sig else None

        improved = True
        while improved and budget > 0:
            improved = False
            vals, nn, ids = best
            cands = [(vals[:i] + vals[i + 1:], ids[:i] + ids[i + 1:]) for i in range(len(vals))] if len(vals) > 2 else []
            for i, v in enumerate(vals):
                for simpler in (None, 1, 2, 0.5, 0.25):
                    if v is not None and simpler != v and (simpler is None or isinstance(v, float) == isinstance(simpler, float)):
                        cands.append((vals[:i] + [simpler] + vals[i + 1:], ids))
            for i in range(1, len(ids)):  # one coordinate less switched
                p, r, g = ids[i]
                for alt in ((ids[i - 1][0], r, g), (p, ids[i - 1][1], g)):
                    if alt != ids[i]:
                        cands.append((vals, ids[:i] + [alt] + ids[i + 1:]))
            for cvals, cids in cands:
                hit = fails(cvals, nn, cids)
                if hit:
                    best = (cvals, hit[2]['n'], cids)
                    improved = True
                    break
        return best[0], best[1], encode_coords(best[2])

    def _report_abtest(self, kind, ts, d, values, n, found, coords=None):
        for what, sig, detail in found:
            witness = {'kind': kind, 'targets': ts, 'n': detail['n']}
            if kind == 'abtest':
                witness['den'] = d
            if coords is not None:
                witness['coords'] = coords
            if sig not in (SIG_F1,) and not any(v.signature == sig for v in self.violations):
                small, sn, scoords = self._shrink_abtest(values, detail['n'], sig, coords)
                again = self._check_values(small, sn, scoords)
                if again and again[0][1] == sig:
                    what, _, detail = again[0]
                    witness = {'kind': 'abtest-float', 'targets': small, 'coords': scoords, 'n': detail['n'],
                               'variant': detail.get('variant'), 'projects': AB_PROJECTS, 'releases': AB_RELEASES,
                               'shrunk_from': {'targets': ts, 'den': d, 'coords': coords}}
            self.violate(what, witness, sig, detail)

    def _abtest(self):
        cases = self._abtest_cases()
        nreq = self.n(120, 300)
        # every variant set is declared through the builder: half of them across projects / releases
        plans = [gen_coords(self.rng, len(ts)) if i % 2 else default_coords(len(ts)) for i, (ts, _) in enumerate(cases)]
        lines = [sexp.dumps(['abtest', d, ts, nreq]) for ts, d in cases]
        answers = [sexp.num(sexp.loads(a)) for a in self.model(lines)]
        blines = [sexp.dumps(['abbuild', [*co[0], ts[0]], [[g, r, p, t] for (g, r, p), t in zip(co[1:], ts[1:])]])
                  for (ts, _), co in zip(cases, plans)]
        banswers = [sexp.num(sexp.loads(a)) for a in self.model(blines)]
        # binary64 model of the same runs: slot targets and the eligibility sequence in float arithmetic
        flines = [sexp.dumps(['ftrace', [m[1][v] for v in m[2]], nreq]) for m in answers if m[0] == 'ok']
        fanswers = iter(sexp.num(sexp.loads(a)) for a in self.model(flines))
        for (ts, d), coords, m, bm in zip(cases, plans, answers, banswers):
            fm = next(fanswers) if m[0] == 'ok' else None
            res, targets, built = self._run_abtest(ts, d, nreq, coords)
            k = len(ts)
            idents = declared_identities(coords)
            cross = 'cross' if len({i[:2] for i in idents}) > 1 else 'same'
            shape = f'abtest k={k} {cross} ' + ('none' if any(t is None for t in ts) else 'dyadic' if d > 1 else 'int')
            case = {'targets': ts, 'den': d, 'coords': coords}
            if res[0] == 'error' or bm[0] != 'ok':
                self.case(('ab', tuple(ts), d, repr(coords)), shape + ' ctor-error', nontrivial=False)
                exclusive = len(set(idents)) == len(idents)
                if (res[0] == 'error') != (bm[0] != 'ok') or (res[0] == 'error' and (res[1] != 'ValueError' or exclusive)):
                    self.diverge('ABTest builder / constructor', case, res, bm)
                continue
            order, picks = res
            self.case(('ab', tuple(ts), d, repr(coords), nreq), shape, nontrivial=len(set(map(str, picks))) > 1,
                      sample={'targets': ts, 'den': d, 'coords': coords, 'slot_order': order, 'first_picks': picks[:12]})
            # the built variant list against the model of the builder and against the declaration
            want = sorted([*i, t] for i, t in zip(idents, ts))
            if sorted(bm[1], key=str) != sorted(([p, r, g, 'none' if t is None else t] for p, r, g, t in want), key=str):
                self.diverge('ABTest.Builder model vs declaration', case, want, bm[1])
            if built is not None:
                real = sorted([p, r, g, None if t is None else (t if d == 1 else round(t * d))] for p, r, g, t in built)
                if real != want:
                    self.diverge('ABTest.Builder variant list', case, real, want)
            if m[0] != 'ok' or (order is not None and m[2] != order) or m[3] != picks:
                mp = m[3] if m[0] == 'ok' else None
                idx = next((i for i, (a, b) in enumerate(zip(picks, mp or [])) if a != b), None)
                self.diverge('ABTest selection sequence', dict(case, n=nreq, first_diff_at=idx),
                             {'order': order, 'picks': picks[: (idx or 0) + 3]},
                             {'order': m[2] if m[0] == 'ok' else m, 'picks': (mp or [])[: (idx or 0) + 3]})
            elif fm is not None:
                # float tie: the binary64 model selects the same sequence and computes the same slot targets
                fpicks = [m[2][i] for i in fm[2]] if fm[0] == 'ok' else None
                if fpicks != picks:
                    self.diverge('ABTest selection sequence (binary64 model)', dict(case, n=nreq),
                                 picks[:20], (fpicks or fm)[:20])
                if targets is not None and fm[0] == 'ok' and [_fnorm(t) for t in targets] != fm[1]:
                    self.diverge('ABTest slot targets (binary64)', case, [_fnorm(t) for t in targets], fm[1])
            values = [None if t is None else (t if d == 1 else t / d) for t in ts]
            shares = doc_shares([None if t is None else F(t, d) for t in ts])
            self._report_abtest('abtest', ts, d, values, nreq, self._oracle_abtest(shares, picks, idents), coords)
        # arbitrary (non-dyadic) float targets, omitted ones in any position: oracle only (the exact model is not
        # comparable bit for bit)
        for _ in range(self.n(80, 800)):
            k = self.rng.choice([2, 2, 3, 4, 5, 6])
            ts = [round(self.rng.uniform(0.01, 0.99), self.rng.choice([1, 2, 3])) or 0.5 for _ in range(k)]
            if self.rng.random() < 0.5:
                for i in self.rng.sample(range(k), self.rng.randint(1, k - 1)):
                    ts[i] = None
                explicit = sum(F(t) for t in ts if t is not None)
                if abs(explicit - 1) < F(1, 1000):  # the float sum must be on the same side of 1 as the exact one
                    continue
            coords = gen_coords(self.rng, k, duplicates=False)
            self.case(('abf', tuple(ts), repr(coords), nreq), f'abtest-float k={k}' + (' none' if None in ts else ''), nontrivial=True)
            self._report_abtest('abtest-float', ts, None, ts, nreq, self._check_values(ts, nreq, coords), coords)

    def _fdiv(self):
        """The binary64 division of the model against CPython's `/` (ties, boundaries, random magnitudes)."""
        rng = self.rng
        pairs = [(1, 1), (1, 2), (1, 3), (2, 3), (9, 10), (1, 10), (1, 2**53), (1, 2**53 + 1), (2**53 - 1, 2**53),
                 (2**53 + 1, 2**54), (2**53 + 3, 2**54), (2**54 - 1, 2**54), (2**54 - 2, 2**54 - 1), (2**60 + 1, 2**61 + 7)]
        for k in range(1, 30):  # exact ties: odd numerators over 2^(53+j) scaled
            pairs.append(((1 << 53) + 2 * k + 1, 1 << (54 + k % 5)))
        for _ in range(self.n(400, 4000)):
            bits = rng.choice([4, 8, 10, 16, 30, 52, 53, 54, 60, 70])
            b = rng.randint(1, 1 << bits)
            a = rng.randint(1, b)
            pairs.append((a, b))
        for n in range(1, self.n(40, 130)):  # every count/total of the explored request range
            for c in range(1, n + 1):
                pairs.append((c, n))
        answers = self.model([sexp.dumps(['fdiv', a, b]) for a, b in pairs])
        bad = None
        for (a, b), ans in zip(pairs, answers):
            if sexp.num(sexp.loads(ans)) != _fnorm(a / b):
                bad = bad or (a, b, ans, _fnorm(a / b))
        self.case(('fdiv', len(pairs)), 'binary64 division pairs', nontrivial=True)
        self.extra['fdiv_pairs_compared'] = len(pairs)
        if bad:
            self.diverge('binary64 division', {'a': bad[0], 'b': bad[1]}, bad[3], bad[2])

    # ---- Latest / Explicit -------------------------------------------------------------------
    def _latest_static(self):
        from forml import application
        from forml.io import asset

        Double = _registry_double()
        versions = VERSIONS
        cases = []
        for _ in range(self.n(120, 1200)):
            nrel = self.rng.randint(1, 5)
            idx = sorted(self.rng.sample(range(len(versions)), nrel))
            rels = []
            for i in idx:
                ng = self.rng.choice([0, 0, 1, 2, 3])
                gens = sorted(self.rng.sample(range(1, 12), ng))
                rels.append((i, gens))
            cfg = self.rng.choice([None, None, self.rng.choice(idx)])
            cases.append((rels, cfg))
        lines = [sexp.dumps(['latest', [[r, gs] for r, gs in rels], cfg]) for rels, cfg in cases]
        answers = self.model(lines)
        for (rels, cfg), ans in zip(cases, answers):
            content = {'p': {versions[r]: list(gs) for r, gs in self.rng.sample(rels, len(rels))}}
            directory = asset.Directory(Double(content))
            strategy = application.Latest('p', None if cfg is None else versions[cfg], refresh=3600)
            if len(content['p']) % 2:
                strategy = pickle.loads(pickle.dumps(strategy))
            try:
                inst = strategy.select(directory, None, None)
                _, rel, gen = _ident(inst)
                impl = (versions.index(rel), gen)
            except asset.Level.Listing.Empty:
                impl = None
            except Exception as e:  # pylint: disable=broad-except
                impl = ('error', type(e).__name__)
            m = sexp.num(sexp.loads(ans))
            mod = None if m == 'none' else tuple(m[1])
            spec = spec_latest(rels, cfg)
            spec = None if spec is None else tuple(spec)
            self.case(('latest', tuple((r, tuple(g)) for r, g in rels), cfg),
                      f'latest rel={len(rels)} cfg={"y" if cfg is not None else "n"} -> {"none" if spec is None else "some"}',
                      nontrivial=len(rels) > 1, sample={'releases': rels, 'configured': cfg, 'picked': impl})
            if impl != mod:
                self.diverge('Latest pick', {'releases': rels, 'configured': cfg}, impl, mod)
            if impl != spec:
                self.violate(f'Latest resolved {impl} but newest generation of the highest release with any is {spec}',
                             {'kind': 'latest', 'releases': rels, 'configured': cfg}, 'latest-pick-wrong')

    def _gen_history(self):
        """(cfg, rels0, ops): every select is embedded as tick, select, tick (the model's ticks are the points at which
        the real refresher has been given time)."""
        rng = self.rng
        idx = sorted(rng.sample(range(1, len(VERSIONS) - 1), rng.randint(1, 3)))
        rels0 = [[r, list(range(1, rng.choice([0, 1, 1, 2]) + 1))] for r in idx]
        mode = rng.choice(['none', 'none', 'cfg', 'cfg', 'cfg', 'cfg-empty', 'cfg-unpublished'])
        if mode == 'none':
            cfg = None
        elif mode == 'cfg':
            cfg = rng.choice(idx)
            entry = next(e for e in rels0 if e[0] == cfg)
            entry[1] = entry[1] or [1]
        elif mode == 'cfg-empty':
            cfg = rng.choice(idx)
            next(e for e in rels0 if e[0] == cfg)[1] = []
        else:
            cfg = rng.choice([r for r in range(len(VERSIONS)) if r not in idx])
        self._hist_no = getattr(self, '_hist_no', 0) + 1
        # every other history is served by a selector that went through pickle.loads(pickle.dumps(..)) (once or twice)
        ops = ['pickle'] * rng.choice([1, 1, 2]) if self._hist_no % 2 else []

        def known():
            rels = [[r, list(gs)] for r, gs in rels0]
            for op in ops:
                if op not in ('tick', 'pickle') and op[0] in ('publish', 'commit'):
                    apply_registry_op(rels, op)
            return rels


        for _ in range(rng.randint(3, 7)):
            what = rng.choice(['select', 'select', 'select-nouse', 'commit-served', 'commit-served', 'commit-higher',
                               'commit-other', 'publish', 'tick', 'fault'])
            rels = known()
            served = spec_latest(rels, cfg)
            top = max(r for r, _ in rels)
            if what == 'fault':  # a transient fault of the registry under the refresher, then business as usual
                ops += [['fault', rng.choice(FAULTS)], 'tick']
            elif what == 'select':
                ops += ['tick', ['select', True], 'tick']
            elif what == 'select-nouse':
                ops += ['tick', ['select', False], 'tick']
            elif what == 'commit-served':
                ops.append(['commit', cfg if cfg is not None else (served[0] if served else top)])
            elif what == 'commit-higher':
                base = cfg if cfg is not None else (served[0] if served else top)
                higher = [r for r in range(base + 1, len(VERSIONS))]
                ops.append(['commit', rng.choice(higher)] if higher else 'tick')
            elif what == 'commit-other':
                ops.append(['commit', rng.randrange(len(VERSIONS))])
            elif what == 'publish':
                ops.append(['publish', rng.randrange(len(VERSIONS))])
            else:
                ops.append('tick')
        ops += ['tick', ['select', True], 'tick']
        if rng.random() < 0.7:  # and once more after a further commit to what is being served
            rels = known()
            served = spec_latest(rels, cfg)
            ops += [['commit', cfg if cfg is not None else (served[0] if served else rels[-1][0])], 'tick', ['select', True]]
        return cfg, rels0, ops

    def _pool_map(self, jobs):
        if self._pool is None:
            import forml.application  # noqa: F401 pylint: disable=unused-import,import-outside-toplevel
            from forml.provider.registry.filesystem import posix  # noqa: F401 pylint: disable=unused-import

            self._pool = multiprocessing.get_context('fork').Pool(min(8, os.cpu_count() or 2))
        return self._pool.map(drive_history, jobs, chunksize=1)

    def _close_pool(self):
        if self._pool is not None:
            self._pool.terminate()
            self._pool.join()
            self._pool = None

    @staticmethod
    def _model_history(survive, cfg, rels0, ops):
        # a pickle round-trip before the first request is the identity on the constructor parameters
        # (Lean: C17_reduce_rebuild / C17_latest_rebuilt): the model runs the same history without it
        return sexp.dumps(['lhist', survive, cfg, rels0, ['tick' if o == 'pickle' else o for o in ops]])

    def _judge_history(self, cfg, rels0, ops, model_obs, result):
        """Compare one driven history with the model and evaluate the property on it.
        Returns (divergence or None, [(what, signature, detail)])."""
        shaped = f2_shaped(cfg, rels0, ops)
        rels = [[r, list(gs)] for r, gs in rels0]
        div, found = None, []
        filled = False
        outlived = 0
        faulted = []
        for i, (op, got) in enumerate(zip(ops, result['obs'])):
            if op in ('tick', 'pickle'):
                continue
            if op[0] in ('publish', 'commit'):
                apply_registry_op(rels, op)
                continue
            if op[0] == 'fault':
                faulted.append(op[1])
                continue
            use = bool(op[1])
            mod = model_obs[i]
            if got[0] == 'timeout':
                continue  # reported as data
            spec = spec_latest(rels, cfg)
            first = not filled
            if cfg is not None or got[0] != 'err':  # select itself only raises when nothing is configured and available
                filled = True
            if not use:
                if all(got[:1] != m[:1] for m in mod) and div is None:
                    div = ('Latest.select over a history', i, got, mod)
                if got[0] == 'err' and (spec is not None or cfg is not None) and got[1] not in ('empty', 'invalid'):
                    found.append((f'Latest.select raised {got[1]} at step {i}', 'latest-select-fails', {'step': i}))
                continue
            if got not in mod and div is None:
                div = ('Latest over a history', i, got, mod)
            if spec is None:
                if got[0] == 'served':
                    found.append((f'Latest serves {got[1:]} although no generation is available at step {i}',
                                  'latest-pick-wrong', {'step': i}))
                continue
            if got == ['served'] + spec:
                continue
            if got[0] == 'err':
                sig = 'latest-select-fails'
                what = f'Latest raised {got[1]} at step {i} although {spec} is available'
            elif first:
                sig = 'latest-pick-wrong'
                what = f'Latest first resolved {got[1:]} but the newest generation of the {"configured" if cfg is not None else "highest"} release is {spec}'
            else:
                sig = 'latest-stale-after-registry-fault' if faulted else SIG_F2 if shaped else 'latest-refresh-stale'
                need = result.get('patience', PATIENCE['full'])
                what = (f'Latest still serves {got[1:]} although {spec} had been committed and the refresher (refresh='
                        f'{REFRESH}s) was given > {need[0]} intervals / {need[1]}s'
                        + (f' (transient registry fault(s) before: {", ".join(faulted)})' if faulted else ''))
            found.append((what, sig, {'step': i, 'served': got, 'newest': spec}))
            break
        return div, found, outlived

    def _run_histories(self, cases, patience='full', blind=False):
        """Model observations and the driven real history per case; `blind`: the real run polls for the spec value only
        (not told what the model predicts)."""
        # the model is run as the code is: a refresh round that raises is logged and retried (survive)
        lines = [self._model_history(True, *c) for c in cases]
        answers = [sexp.num(sexp.loads(a)) for a in self.model(lines)]
        jobs, mobs = [], []
        for line, (cfg, rels0, ops), m in zip(lines, cases, answers):
            if m[0] != 'ok':
                raise fw.MachineryError(f'model rejected history {line}: {m}')
            both = [[a] for a in m[1]]
            mobs.append(both)
            jobs.append({'kind': 'latest', 'cfg': cfg, 'rels0': rels0, 'ops': ops, 'expect': None if blind else both,
                         'patience': patience})
        results = self._pool_map(jobs)
        agg = self.extra['latest_refresh_waits']
        for r in results:
            agg['histories'] += 1
            agg['polls'] += r['waits']['polls']
            agg['max_wait_s'] = max(agg['max_wait_s'], r['waits']['max_wait_s'])
            agg['patience_exhausted'] += r['waits']['patience_exhausted']
            agg['hard_timeouts'] += r['waits']['hard_timeouts']
            agg['faults_struck'] = agg.get('faults_struck', 0) + r.get('faults_struck', 0)
        return list(zip(mobs, results))

    def _shrink_history(self, cfg, rels0, ops, sig):
        """Fewer operations / releases with a violation of the same signature on the real code (parallel rounds)."""
        best = (cfg, rels0, ops)
        for _ in range(4):
            cfg, rels0, ops = best
            cands = []
            for i in range(len(ops)):
                cand = ops[:i] + ops[i + 1:]
                if ops[i] == 'pickle' and 'pickle' not in cand:
                    continue  # the served selector stays an unpickled one
                if any(o not in ('tick', 'pickle') and o[0] == 'select' and o[1] for o in cand):
                    cands.append((cfg, rels0, cand))
            for i in range(len(rels0)):
                if rels0[i][0] != cfg and len(rels0) > 1:
                    cands.append((cfg, rels0[:i] + rels0[i + 1:], ops))
            for i in range(len(rels0)):
                if len(rels0[i][1]) > (1 if rels0[i][0] == cfg else 0):
                    cands.append((cfg, rels0[:i] + [[rels0[i][0], rels0[i][1][:-1]]] + rels0[i + 1:], ops))
            cands = cands[:16]
            if not cands:
                break
            hit = None
            for cand, (mobs, res) in zip(cands, self._run_histories(cands, patience='short')):
                _, found, _ = self._judge_history(*cand, mobs, res)
                if found and found[0][1] == sig and (hit is None or len(cand[2]) + len(cand[1]) < len(hit[0][2]) + len(hit[0][1])):
                    hit = (cand, found[0])
            if hit is None:
                break
            best = hit[0]
        return best

    def _latest_histories(self, count, corpus=True):
        cases = []
        if corpus:
            cases += [
                (None, [[1, [1]], [2, []]], ['tick', ['select', True], 'tick', ['commit', 2], 'tick', ['select', True]]),
                (None, [[1, [1]], [2, []]], ['tick', ['select', True], 'tick', ['commit', 1], 'tick', ['select', True]]),
                (1, [[1, [1]], [2, [1]]], ['tick', ['select', True], 'tick', ['commit', 1], 'tick', ['select', True],
                                          ['commit', 2], 'tick', ['select', True]]),
                (1, [[1, [1]]], ['tick', ['select', False], 'tick', ['commit', 1], 'tick', ['select', True], ['commit', 1],
                                 'tick', ['select', True]]),
                (None, [[1, [1, 2]]], ['tick', ['select', True], 'tick', ['publish', 3], ['commit', 3], 'tick', ['select', True],
                                      ['commit', 1], 'tick', ['select', True]]),
                (None, [[2, []]], ['tick', ['select', True], 'tick', ['commit', 2], 'tick', ['select', True]]),
                # the same through a pickle round-trip of the selector (configured release and refresh interval survive)
                (None, [[1, [1]], [2, []]], ['pickle', 'tick', ['select', True], 'tick', ['commit', 2], 'tick', ['select', True]]),
                (1, [[1, [1]], [2, [1]]], ['pickle', 'tick', ['select', True], 'tick', ['commit', 1], 'tick', ['select', True],
                                          ['commit', 2], 'tick', ['select', True]]),
                (None, [[1, [1, 2]]], ['pickle', 'pickle', 'tick', ['select', True], 'tick', ['commit', 1], 'tick', ['select', True]]),
            ]
            for kind in FAULTS:  # one transient fault under the refresher, then a commit: picked up all the same
                cases.append((None, [[1, [1]], [2, []]], ['tick', ['select', True], 'tick', ['fault', kind], 'tick', ['commit', 2],
                                                         'tick', ['select', True], ['commit', 2], 'tick', ['select', True]]))
                cases.append((1, [[1, [1]], [2, [1]]], ['tick', ['select', True], 'tick', ['fault', kind], 'tick', ['commit', 1],
                                                        'tick', ['select', True]]))
        for _ in range(count):
            cases.append(self._gen_history())
        outlived = 0
        shrunk = 0

        def driven():
            """chunk-wise: once the tree under test is known to break the property the remaining histories are driven with
            the short patience, and after enough failing inputs not at all (bounded run time on a broken tree)"""
            for at in range(0, len(cases), 32):
                fresh = [v for v in self.violations if v.signature.startswith('latest-')]
                if len(fresh) >= 6:
                    self.notes.append(f'{len(cases) - at} further histories not driven: {len(fresh)} failing inputs found already')
                    return
                chunk = cases[at:at + 32]
                yield from zip(chunk, self._run_histories(chunk, patience='short' if fresh else 'full'))

        for (cfg, rels0, ops), (mobs, res) in driven():
            shaped = f2_shaped(cfg, rels0, ops)
            nsel = sum(1 for o in ops if o not in ('tick', 'pickle') and o[0] == 'select')
            ncommit = sum(1 for o in ops if o not in ('tick', 'pickle') and o[0] == 'commit')
            cfgkind = 'none' if cfg is None else 'empty/unpublished-at-first-use' if shaped else 'configured'
            self.case(('lhist', cfg, repr(rels0), repr(ops)), f'latest history cfg={cfgkind}', nontrivial=nsel > 1 and ncommit > 0,
                      sample={'configured': cfg, 'releases': rels0, 'ops': ops, 'observed': res['obs']})
            div, found, out = self._judge_history(cfg, rels0, ops, mobs, res)
            outlived += out
            witness = {'kind': 'latest-history', 'configured': cfg, 'releases': rels0, 'ops': ops}
            if div is not None:
                self.diverge(div[0], dict(witness, step=div[1]), div[2], div[3])
            for what, sig, detail in found:
                if shrunk < 2 and not any(v.signature == sig for v in self.violations):
                    shrunk += 1
                    scfg, srels, sops = self._shrink_history(cfg, rels0, ops, sig)
                    (smobs, sres), = self._run_histories([(scfg, srels, sops)])
                    _, again, _ = self._judge_history(scfg, srels, sops, smobs, sres)
                    if again and again[0][1] == sig:
                        what, _, detail = again[0]
                        witness = {'kind': 'latest-history', 'configured': scfg, 'releases': srels, 'ops': sops,
                                   'versions': VERSIONS, 'observed': sres['obs']}
                self.violate(what, witness, sig, detail)

    def _explicit(self):
        cases = []
        for _ in range(self.n(20, 120)):
            idx = sorted(self.rng.sample(range(len(VERSIONS)), self.rng.randint(1, 3)))
            rels0 = [[r, list(range(1, self.rng.randint(0, 3) + 1))] for r in idx]
            r = self.rng.choice(idx + [self.rng.randrange(len(VERSIONS))])
            g = self.rng.randint(1, 4)
            ops = ['pickle'] if len(cases) % 2 else []
            for _ in range(self.rng.randint(2, 7)):
                ops.append(self.rng.choice(['select', 'select', ['commit', r], ['commit', self.rng.randrange(len(VERSIONS))],
                                            ['publish', self.rng.randrange(len(VERSIONS))]]))
            ops.append('select')
            cases.append((r, g, rels0, ops))
        answers = [sexp.num(sexp.loads(a)) for a in self.model([sexp.dumps(['ehist', r, g, rels0, [o for o in ops if o != 'pickle']])
                                                                   for r, g, rels0, ops in cases])]
        answers = [[m[0], (['-'] if ops[0] == 'pickle' else []) + m[1]] if m[0] == 'ok' else m
                   for m, (_, _, _, ops) in zip(answers, cases)]
        results = self._pool_map([{'kind': 'explicit', 'cfg': [r, g], 'rels0': rels0, 'ops': ops} for r, g, rels0, ops in cases])
        for (r, g, rels0, ops), m, res in zip(cases, answers, results):
            self.case(('explicit', r, g, repr(rels0), repr(ops)), 'explicit history', nontrivial=len(ops) > 2,
                      sample=None)
            if m[0] != 'ok' or m[1] != res['obs']:
                self.diverge('Explicit over a history', {'release': r, 'generation': g, 'releases': rels0, 'ops': ops},
                             res['obs'], m)
            wrong = [o for o in res['obs'] if o[0] == 'served' and o[1:] != [r, g]]
            exists = g in dict((x, gs) for x, gs in res['final']).get(r, [])
            if wrong or (exists and res['obs'][-1] != ['served', r, g]):
                self.violate(f'Explicit({VERSIONS[r]}, {g}) returned {wrong or res["obs"][-1]}',
                             {'kind': 'explicit-history', 'release': r, 'generation': g, 'releases': rels0, 'ops': ops},
                             'explicit-not-constant')

    def _insteq(self):
        """`asset.Instance.__eq__` / `__hash__` (what `Latest._refresh` decides on) against the model."""
        from forml.io import asset

        Double = _registry_double()
        cases = []
        for _ in range(self.n(150, 1500)):
            idx = sorted(self.rng.sample(range(len(VERSIONS)), self.rng.randint(1, 3)))
            rels = [[r, sorted(self.rng.sample(range(1, 5), self.rng.choice([0, 1, 2, 3])))] for r in idx]

            def inst():
                r = self.rng.choice(idx + idx + [self.rng.randrange(len(VERSIONS))])
                gs = dict((x, g) for x, g in rels).get(r) or [1]
                return [self.rng.choice([0, 0, 0, 1]), r, self.rng.choice([None, self.rng.choice(gs), self.rng.choice(gs),
                                                                           self.rng.randint(1, 4)])]

            a = inst()
            b = self.rng.choice([inst(), [a[0], a[1], self.rng.choice([None, a[2]])], [a[0], self.rng.choice(idx), a[2]]])
            cases.append((rels, a, b))
        answers = [sexp.num(sexp.loads(x)) for x in self.model([sexp.dumps(['insteq', rels, a, b]) for rels, a, b in cases])]
        for (rels, a, b), m in zip(cases, answers):
            content = {VERSIONS[r]: list(gs) for r, gs in rels}
            directory = asset.Directory(Double({'p': dict(content), 'q': dict(content)}))
            ia, ib = (asset.Instance(project='pq'[p], release=VERSIONS[r], generation=g, registry=directory) for p, r, g in (a, b))
            try:
                verdict = ia == ib
                impl = ['ok', 'true' if verdict else 'false']
                if verdict:  # equal instances hash alike (their keys are resolved by now)
                    impl.append('true' if hash(ia) == hash(ib) else 'false')
            except Exception as exc:  # pylint: disable=broad-except
                impl = _errkind(exc)
            self.case(('insteq', repr(rels), tuple(a), tuple(b)), 'instance == ' + (impl[1] if impl[0] == 'ok' else 'raises'),
                      nontrivial=a != b)
            if m[0] == 'ok' and m[1] == 'false':
                m = m[:2]  # hashes of unequal instances are unconstrained
            if impl != m:
                self.diverge('Instance.__eq__/__hash__', {'releases': rels, 'a': a, 'b': b}, impl, m)

    def correspondence(self):
        try:
            # Latest histories first: the worker processes are forked before this process has any selector threads
            self._latest_histories(self.n(70, 700))
            self._explicit()
        finally:
            self._close_pool()
        self._abtest()
        self._fdiv()
        self._latest_static()
        self._insteq()

    def search(self, reason):
        # widen: more requests on the diverging weight vectors and their neighbours, oracle on the real code
        seeds = [d.case for d in self.divergences if isinstance(d.case, dict) and 'targets' in d.case and 'n' in d.case]
        tried = set()
        for c in seeds[:20]:
            ts, d, coords = c['targets'], c.get('den', 1), c.get('coords')
            for delta in itertools.product([0, 1, -1], repeat=len(ts)):
                cand = [None if t is None else max(1, t + dl) for t, dl in zip(ts, delta)]
                key = (tuple(cand), d)
                if key in tried or len(tried) > 400:
                    continue
                tried.add(key)
                values = [None if t is None else (t if d == 1 else t / d) for t in cand]
                self._report_abtest('abtest', cand, d, values, 600, self._check_values(values, 600, coords), coords)
        self.notes.append(f'failing-input search ({reason}): {len(tried)} neighbouring weight vectors x 600 requests')
        if seeds and not any(v.signature.startswith('abtest-') and v.signature != SIG_F1 for v in self.violations):
            # variant sets whose largest share is an implicit one (omitted target), judged on every short prefix
            for _ in range(200):
                k = self.rng.choice([3, 3, 4, 5, 6])
                ts, d = self._gen_none_dominant(self.rng, k)
                values = [None if t is None else t / d for t in ts]
                coords = gen_coords(self.rng, k, duplicates=False) if self.rng.random() < 0.5 else default_coords(k)
                found = self._check_values(values, 40, coords)
                self._report_abtest('abtest', ts, d, values, 40, found, coords)
                if any(sig != SIG_F1 for _, sig, _ in found):
                    break
            self.notes.append(f'failing-input search ({reason}): variant sets with a dominating omitted target x 40 requests')
        builder = [d.case for d in self.divergences if d.what.startswith(('ABTest.Builder', 'ABTest builder'))]
        for c in builder[:10]:  # the builder diverged: serve requests from the declared set until the wrong model shows
            d = c.get('den', 1)
            values = [None if t is None else (t if d == 1 else t / d) for t in c['targets']]
            self._report_abtest('abtest', c['targets'], d, values, 600, self._check_values(values, 600, c['coords']), c['coords'])
        if any(not (isinstance(d.case, dict) and 'targets' in d.case) for d in self.divergences) and not self.violations:
            # Latest / Instance / Explicit diverged: more and longer registry histories on the real code
            try:
                self._latest_histories(self.n(150, 600), corpus=False)
            finally:
                self._close_pool()
            self.notes.append(f'failing-input search ({reason}): further registry histories against Latest')

    def replay_finding(self, entry):
        w = entry['witness']
        if w.get('kind') in ('abtest', 'abtest-float'):
            if w['kind'] == 'abtest':
                d = w.get('den', 1)
                values = [None if t is None else (t if d == 1 else t / d) for t in w['targets']]
            else:
                values = w['targets']
            coords = w.get('coords') or default_coords(len(values))
            res, _, _ = self._run_abtest_values(values, w['n'], coords)
            if res[0] == 'error':
                return fw.Violation(f'ABTest constructor raised {res}', w, 'abtest-ctor')
            for what, sig, detail in self._oracle_abtest(doc_shares([None if v is None else F(v) for v in values]), res[1],
                                                         declared_identities(coords)):
                return fw.Violation(what, w, sig, detail)
            return None
        if w.get('kind') == 'latest-history':
            cfg, rels0, ops = w['configured'], w['releases'], w['ops']
            try:
                (mobs, res), = self._run_histories([(cfg, rels0, ops)], blind=True)
            finally:
                self._close_pool()
            _, found, _ = self._judge_history(cfg, rels0, ops, mobs, res)
            for what, sig, detail in found:
                return fw.Violation(what, w, sig, detail)
            return None
        return None


F2_WITNESS = (1, [[1, []]], ['tick', ['select', False], 'tick', ['commit', 1], 'tick', ['select', True], ['commit', 1], 'tick',
                             ['select', True]])


if __name__ == '__main__':
    raise SystemExit(fw.run(C17))
