"""C17 — model-selection strategies (ABTest / Latest / Explicit) vs lean/ForML/Model/Strategy.lean."""
from __future__ import annotations

import atexit
import fractions
import itertools
import shutil
import tempfile
import threading
import time
import typing

from core import framework as fw
from core import sexp

F = fractions.Fraction
EPS = F(1, 10**9)  # 'within one request' is inclusive; float representation noise of the targets
_STAGING = tempfile.mkdtemp(prefix='verif-c17-')
atexit.register(shutil.rmtree, _STAGING, ignore_errors=True)


def _registry_double():
    """An in-memory `asset.Registry` whose listings the harness mutates between requests."""
    from forml.io import asset

    class Double(asset.Registry):
        def __init__(self, content: dict):
            super().__init__(staging=_STAGING)
            self.content = content  # {project: {release: [generations]}}
            self.lock = threading.Lock()

        def projects(self):
            with self.lock:
                return list(self.content)

        def releases(self, project):
            with self.lock:
                return list(self.content.get(str(project), {}))

        def generations(self, project, release):
            with self.lock:
                return list(self.content.get(str(project), {}).get(str(release), []))

        def push(self, package):
            raise NotImplementedError

        def pull(self, project, release):
            raise NotImplementedError

        def read(self, project, release, generation, sid):
            raise NotImplementedError

        def write(self, project, release, sid, state):
            raise NotImplementedError

        def open(self, project, release, generation):
            raise NotImplementedError

        def close(self, project, release, generation, tag):
            raise NotImplementedError

    return Double


def _ident(instance) -> tuple:
    gen = instance._generation  # pylint: disable=protected-access
    return str(gen.release.project.key), str(gen.release.key), int(gen.key)


class C17(fw.Check):
    ID = 'C17'
    LEAN_MODULES = ['ForML.Props.C17']
    DRIVER = 'drv_c17'
    RULE = ('ABTest: variant sets of 2..6 with integer / dyadic-float / omitted targets (structured: all-explicit, '
            'complement rule, mean rule, ties) x request counts n (every prefix of the selection sequence is compared); '
            'a case is distinct by (targets, n) and non-trivial when at least two variants get selected. '
            'Latest: registries of 1..5 releases with 0..3 generations each incl. empty ones, configured / unconfigured '
            'release, generations appearing between requests; Explicit: constant.  Oracle on the real code: never fails, '
            'count < share*n+1, count > share*n-1 (k=2) resp. > share*n-(k-1) (k>=3, the envelope of the known finding).')
    TRUSTED = [
        'IEEE-754: the model is exact (cross-multiplied naturals); float targets in the correspondence are dyadic or '
        'integers so that count/total < target evaluates identically in floats (|c/n - t| >= 1/(n*2^k))',
        'thread timing of Latest._refresh (sampled with a deadline, not modelled)',
    ]
    ASSUMPTIONS = ['registry listings are sorted and duplicate-free (C18)',
                   'float comparison count/total < target agrees with the exact rational one on the explored weights']

    # ---- ABTest ------------------------------------------------------------------------------
    def _abtest_cases(self):
        rng = self.rng
        cases = []
        # corpus: the known k=3 witness and tie / complement / mean shapes first
        corpus = [
            ([5, 12, 5], 1), ([9, 1], 1), ([1, 1], 1), ([1, 1, 1], 1), ([3, None, None], 1), ([1, None, None], 4),
            ([2, None], 4), ([None, None], 1), ([None, None, None], 1), ([1, 2, None], 8), ([7, 1, 1, 1], 1),
            ([1, 2, 3, 4, 5, 6], 1), ([5, None, 3], 8), ([8, None], 8), ([9, None], 8),
        ]
        cases.extend(corpus)
        nrand = self.n(150, 1500)
        for _ in range(nrand):
            k = rng.choice([2, 2, 3, 3, 4, 5, 6])
            style = rng.choice(['int', 'int', 'dyadic', 'mixed-none', 'ties'])
            if style == 'int':
                ts, d = [rng.randint(1, 12) for _ in range(k)], 1
            elif style == 'ties':
                base = rng.randint(1, 5)
                ts, d = [rng.choice([base, base, rng.randint(1, 6)]) for _ in range(k)], 1
            elif style == 'dyadic':
                d = rng.choice([2, 4, 8, 16, 64])
                ts = [rng.randint(1, d) for _ in range(k)]
            else:
                d = rng.choice([1, 4, 8, 16])
                ts = [rng.choice([None, rng.randint(1, max(1, d if d > 1 else 6))]) for _ in range(k)]
                if all(t is not None for t in ts):
                    ts[rng.randrange(k)] = None
            cases.append((ts, d))
        cases = [c for c in cases if self._float_exact(*c)]
        if not self.quick:
            # exhaustive: all integer weight vectors <= 6 with k <= 4 (DESIGN section 5, C17)
            for k in (2, 3, 4):
                for ts in itertools.product(range(1, 7 if k < 4 else 5), repeat=k):
                    cases.append((list(ts), 1))
        return cases

    @staticmethod
    def _float_exact(ts, d) -> bool:
        """The implicit target (complement / mean rule) must be a dyadic rational, otherwise the float
        normalisation of the implementation rounds and `count/total == target` coincidences are not comparable
        with the exact model; such vectors go to the oracle-only float stream."""
        given = [F(t, d) for t in ts if t is not None]
        missing = len(ts) - len(given)
        if not missing:
            return True
        explicit = sum(given, F(0))
        implicit = (1 - explicit) / missing if explicit < 1 else explicit / len(given) if given else None
        if implicit is None:
            implicit = F(1, missing)
        den = implicit.denominator
        return den & (den - 1) == 0 and implicit > 0

    def _run_abtest(self, ts, d, n):
        """Real ABTest: returns (order of variant indices, picks as variant indices) or ('error', cls)."""
        from forml import application
        from forml.io import asset

        Double = _registry_double()
        gens = list(range(1, len(ts) + 1))
        directory = asset.Directory(Double({'p': {'1': gens}}))

        def pyval(t):
            if t is None:
                return None
            return t if d == 1 else t / d  # exact: d is a power of two

        try:
            builder = application.ABTest.compare('p', '1', 1, pyval(ts[0]))
            for i, t in enumerate(ts[1:-1], start=2):
                builder = builder.over(i, target=pyval(t))
            ab = builder.against(len(ts), target=pyval(ts[-1]))
        except Exception as e:  # pylint: disable=broad-except
            return ('error', type(e).__name__), None
        order = [int(s.variant.generation) - 1 for s in ab._slots]  # pylint: disable=protected-access
        targets = [F(s.target) for s in ab._slots]  # pylint: disable=protected-access
        picks = []
        for _ in range(n):
            try:
                inst = ab.select(directory, None, None)
            except Exception as e:  # pylint: disable=broad-except
                picks.append(('error', type(e).__name__))
                break
            picks.append(_ident(inst)[2] - 1)
        return (order, picks), targets

    @staticmethod
    def _oracle_abtest(order, picks, targets):
        """Bounds on the real selection sequence, evaluated with exact fractions on the *float* targets the
        implementation computed. Returns list of (what, signature, detail)."""
        out = []
        k = len(order)
        counts = {v: 0 for v in order}
        share = dict(zip(order, targets))
        for n, p in enumerate(picks, start=1):
            if isinstance(p, tuple):
                out.append((f'ABTest.select raised {p[1]} at request {n}', 'abtest-select-fails', {'n': n}))
                return out
            counts[p] += 1
            for v in order:
                dev = counts[v] - share[v] * n
                if dev > 1 + EPS:
                    out.append((f'variant {v} is {float(dev):.3f} requests ahead of its share at n={n}',
                                'abtest-upper-bound', {'n': n, 'variant': v}))
                    return out
                if dev < -1 - EPS:
                    if k >= 3 and dev > -(k - 1):
                        out.append((f'variant {v} is {float(-dev):.3f} requests behind its share at n={n} (k={k})',
                                    'abtest-lower-bound-k>=3-within-k-1', {'n': n, 'variant': v, 'k': k}))
                    else:
                        out.append((f'variant {v} is {float(-dev):.3f} requests behind its share at n={n} (k={k})',
                                    'abtest-lower-bound', {'n': n, 'variant': v, 'k': k}))
                    return out
        return out

    def _abtest(self):
        cases = self._abtest_cases()
        nreq = self.n(120, 300)
        lines = [sexp.dumps(['abtest', d, ts, nreq]) for ts, d in cases]
        answers = self.model(lines)
        for (ts, d), ans in zip(cases, answers):
            res, targets = self._run_abtest(ts, d, nreq)
            m = sexp.num(sexp.loads(ans))
            k = len(ts)
            shape = f'abtest k={k} ' + ('none' if any(t is None for t in ts) else 'dyadic' if d > 1 else 'int')
            if targets is None:
                self.case(('ab', tuple(ts), d), shape + ' ctor-error', nontrivial=False)
                self.diverge('ABTest constructor raised', {'targets': ts, 'den': d}, res, m)
                continue
            order, picks = res
            self.case(('ab', tuple(ts), d, nreq), shape, nontrivial=len(set(map(str, picks))) > 1,
                      sample={'targets': ts, 'den': d, 'slot_order': order, 'first_picks': picks[:12]})
            if m[0] != 'ok' or m[2] != order or m[3] != picks:
                # first differing prefix
                mp = m[3] if m[0] == 'ok' else None
                idx = next((i for i, (a, b) in enumerate(zip(picks, mp or [])) if a != b), None)
                self.diverge('ABTest selection sequence', {'targets': ts, 'den': d, 'n': nreq, 'first_diff_at': idx},
                             {'order': order, 'picks': picks[: (idx or 0) + 3]},
                             {'order': m[2] if m[0] == 'ok' else m, 'picks': (mp or [])[: (idx or 0) + 3]})
            for what, sig, detail in self._oracle_abtest(order, picks, targets):
                self.violate(what, {'kind': 'abtest', 'targets': ts, 'den': d, 'n': detail['n']}, sig, detail)
        # arbitrary (non-dyadic) float targets: oracle only (the exact model is not comparable bit for bit)
        for _ in range(self.n(60, 600)):
            k = self.rng.choice([2, 2, 3, 4, 5, 6])
            ts = [round(self.rng.uniform(0.01, 0.99), self.rng.choice([1, 2, 3])) or 0.5 for _ in range(k)]
            res, targets = self._run_abtest_float(ts, nreq)
            self.case(('abf', tuple(ts), nreq), f'abtest-float k={k}', nontrivial=True)
            for what, sig, detail in self._oracle_abtest(res[0], res[1], targets):
                self.violate(what, {'kind': 'abtest-float', 'targets': ts, 'n': detail['n']}, sig, detail)

    def _run_abtest_float(self, ts, n):
        from forml import application
        from forml.io import asset

        Double = _registry_double()
        directory = asset.Directory(Double({'p': {'1': list(range(1, len(ts) + 1))}}))
        builder = application.ABTest.compare('p', '1', 1, ts[0])
        for i, t in enumerate(ts[1:-1], start=2):
            builder = builder.over(i, target=t)
        ab = builder.against(len(ts), target=ts[-1])
        order = [int(s.variant.generation) - 1 for s in ab._slots]  # pylint: disable=protected-access
        targets = [F(s.target) for s in ab._slots]  # pylint: disable=protected-access
        picks = []
        for _ in range(n):
            try:
                picks.append(_ident(ab.select(directory, None, None))[2] - 1)
            except Exception as e:  # pylint: disable=broad-except
                picks.append(('error', type(e).__name__))
                break
        return (order, picks), targets

    # ---- Latest / Explicit -------------------------------------------------------------------
    @staticmethod
    def _spec_latest(rels: list[tuple[int, list[int]]], cfg: typing.Optional[int]):
        """Spec written from the property text: newest generation of the highest release that has any
        (or of the configured one)."""
        if cfg is not None:
            gens = dict(rels).get(cfg)
            return (cfg, max(gens)) if gens else None
        having = [(r, gs) for r, gs in rels if gs]
        if not having:
            return None
        r, gs = max(having)
        return r, max(gs)

    def _latest(self):
        from forml import application
        from forml.io import asset

        Double = _registry_double()
        versions = ['0.1.dev1', '0.1', '0.2.dev3', '0.2', '0.10', '1.0rc1', '1.0', '1.0.post1', '2']  # ascending PEP 440
        cases = []
        for _ in range(self.n(120, 1200)):
            nrel = self.rng.randint(1, 5)
            idx = sorted(self.rng.sample(range(len(versions)), nrel))
            rels = []
            for i in idx:
                ng = self.rng.choice([0, 0, 1, 2, 3])
                gens = sorted(self.rng.sample(range(1, 12), ng))
                rels.append((i, gens))
            cfg = self.rng.choice([None, None, self.rng.choice(idx)])
            cases.append((rels, cfg))
        lines = [sexp.dumps(['latest', [[r, gs] for r, gs in rels], cfg]) for rels, cfg in cases]
        answers = self.model(lines)
        for (rels, cfg), ans in zip(cases, answers):
            content = {'p': {versions[r]: list(gs) for r, gs in self.rng.sample(rels, len(rels))}}
            directory = asset.Directory(Double(content))
            strategy = application.Latest('p', None if cfg is None else versions[cfg], refresh=3600)
            try:
                inst = strategy.select(directory, None, None)
                _, rel, gen = _ident(inst)
                impl = (versions.index(rel), gen)
            except asset.Level.Listing.Empty:
                impl = None
            except Exception as e:  # pylint: disable=broad-except
                impl = ('error', type(e).__name__)
            m = sexp.num(sexp.loads(ans))
            mod = None if m == 'none' else tuple(m[1])
            spec = self._spec_latest(rels, cfg)
            self.case(('latest', tuple((r, tuple(g)) for r, g in rels), cfg),
                      f'latest rel={len(rels)} cfg={"y" if cfg is not None else "n"} -> {"none" if spec is None else "some"}',
                      nontrivial=len(rels) > 1, sample={'releases': rels, 'configured': cfg, 'picked': impl})
            if impl != mod:
                self.diverge('Latest pick', {'releases': rels, 'configured': cfg}, impl, mod)
            if impl != spec:
                self.violate(f'Latest resolved {impl} but newest generation of the highest release with any is {spec}',
                             {'kind': 'latest', 'releases': rels, 'configured': cfg}, 'latest-pick-wrong')
        # refresh: a generation committed between requests is picked up after the refresh interval
        for trial in range(self.n(3, 12)):
            content = {'p': {'1': [1], '2': []}}
            double = Double(content)
            directory = asset.Directory(double)
            strategy = application.Latest('p', refresh=0.05)
            first = _ident(strategy.select(directory, None, None))
            with double.lock:
                if trial % 2:
                    content['p']['2'] = [1]
                    want = ('p', '2', 1)
                else:
                    content['p']['1'] = [1, 2]
                    want = ('p', '1', 2)
            deadline = time.time() + 10
            got = first
            while time.time() < deadline:
                got = _ident(strategy.select(directory, None, None))
                if got == want:
                    break
                time.sleep(0.02)
            self.case(('refresh', trial), 'latest refresh', nontrivial=True)
            if first != ('p', '1', 1):
                self.violate(f'Latest first pick {first}', {'kind': 'latest-refresh', 'trial': trial}, 'latest-pick-wrong')
            if got != want:
                self.violate(f'Latest still serves {got} 10 s after {want} was committed (refresh=0.05 s)',
                             {'kind': 'latest-refresh', 'trial': trial}, 'latest-refresh-stale')
        # explicit: constant
        for _ in range(self.n(20, 100)):
            gens = sorted(self.rng.sample(range(1, 9), 3))
            directory = asset.Directory(Double({'p': {'1': gens, '2': [1]}}))
            g = self.rng.choice(gens)
            strategy = application.Explicit('p', '1', g)
            got = {_ident(strategy.select(directory, None, None)) for _ in range(5)}
            self.case(('explicit', tuple(gens), g), 'explicit', nontrivial=False)
            if got != {('p', '1', g)}:
                self.violate(f'Explicit returned {got} for configured generation {g}',
                             {'kind': 'explicit', 'gens': gens, 'g': g}, 'explicit-not-constant')

    def correspondence(self):
        self._abtest()
        self._latest()

    def search(self, reason):
        # widen: more requests on the diverging weight vectors and their neighbours, oracle on the real code
        seeds = [d.case for d in self.divergences if isinstance(d.case, dict) and 'targets' in d.case]
        tried = set()
        for c in seeds[:20]:
            ts, d = c['targets'], c.get('den', 1)
            for delta in itertools.product([0, 1, -1], repeat=len(ts)):
                cand = [None if t is None else max(1, t + dl) for t, dl in zip(ts, delta)]
                key = (tuple(cand), d)
                if key in tried or len(tried) > 400:
                    continue
                tried.add(key)
                res, targets = self._run_abtest(cand, d, 600)
                if targets is None:
                    continue
                for what, sig, detail in self._oracle_abtest(res[0], res[1], targets):
                    self.violate(what, {'kind': 'abtest', 'targets': cand, 'den': d, 'n': detail['n']}, sig, detail)
        self.notes.append(f'failing-input search ({reason}): {len(tried)} neighbouring weight vectors x 600 requests')

    def replay_finding(self, entry):
        w = entry['witness']
        if w.get('kind') in ('abtest', 'abtest-float'):
            if w['kind'] == 'abtest':
                res, targets = self._run_abtest(w['targets'], w.get('den', 1), w['n'])
            else:
                res, targets = self._run_abtest_float(w['targets'], w['n'])
            if targets is None:
                return fw.Violation(f'ABTest constructor raised {res}', w, 'abtest-ctor')
            for what, sig, detail in self._oracle_abtest(res[0], res[1], targets):
                return fw.Violation(what, w, sig, detail)
            return None
        return None


if __name__ == '__main__':
    raise SystemExit(fw.run(C17))
